from dataclasses import dataclass
from typing import Optional
import betterproto
@dataclass(eq=False, repr=False)
class A(betterproto.Message):
    a: int = betterproto.int32_field(1, group="g")
    b: str = betterproto.string_field(2, group="g")
@dataclass(eq=False, repr=False)
class B(betterproto.Message):
    a: Optional[int] = betterproto.int32_field(1, optional=True, group="g")
    b: Optional[str] = betterproto.string_field(2, optional=True, group="g")
for incl in (False, True):
    print(incl, A(b="x").to_dict(include_default_values=incl), B(b="x").to_dict(include_default_values=incl))
    print(incl, A(b="x").to_json(include_default_values=incl), B(b="x").to_json(include_default_values=incl))
print(bytes(A(b="x")), bytes(B(b="x")), bytes(A(a=0)), bytes(B(a=0)))
print(A().to_dict(include_default_values=True), B().to_dict(include_default_values=True))
