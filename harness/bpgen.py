"""Abstract schemas and values shared by the codec checks: generation, construction of
real betterproto classes (public field API) and of reference google.protobuf classes
(descriptor_pool), serialisation to the model's term syntax, observation of real
messages through the public API."""
import dataclasses
import struct
import sys
import types
from datetime import datetime, timedelta, timezone
from typing import Dict, List, Optional

import betterproto

EPOCH = datetime(1970, 1, 1, tzinfo=timezone.utc)
US = timedelta(microseconds=1)

VARINT_T = ["enum", "bool", "int32", "int64", "uint32", "uint64", "sint32", "sint64"]
FIXED_T = ["float", "double", "fixed32", "sfixed32", "fixed64", "sfixed64"]
SCALAR_T = VARINT_T + FIXED_T + ["string", "bytes"]
MAPKEY_T = ["int32", "int64", "uint32", "uint64", "sint32", "sint64", "fixed32", "fixed64", "sfixed32", "sfixed64", "bool", "string"]
WRAP_T = ["bool", "int32", "int64", "uint32", "uint64", "float", "double", "string", "bytes"]

INT_RANGE = {
    "int32": (-2**31, 2**31 - 1), "sint32": (-2**31, 2**31 - 1), "sfixed32": (-2**31, 2**31 - 1),
    "int64": (-2**63, 2**63 - 1), "sint64": (-2**63, 2**63 - 1), "sfixed64": (-2**63, 2**63 - 1),
    "uint32": (0, 2**32 - 1), "fixed32": (0, 2**32 - 1), "uint64": (0, 2**64 - 1), "fixed64": (0, 2**64 - 1),
    "enum": (-2**31, 2**31 - 1),
}

TS_MIN_US = -62135596800000000
TS_MAX_US = 253402300799999999
DUR_MAX_US = 315576000000 * 10**6   # protobuf-valid range: +-10000 years


@dataclasses.dataclass
class F:
    name: str
    num: int
    ty: str
    repeated: bool = False
    optional: bool = False
    group: Optional[int] = None
    wraps: Optional[str] = None
    kind: str = "u0"          # u<cls> | ts | dur   (for ty == message)
    mapK: str = "int32"
    mapV: str = "int32"
    mapVKind: str = "u0"

    def line(self):
        return "F %d %s %d %d %s %s %s %s %s %s %s" % (
            self.num, self.ty, int(self.repeated), int(self.optional),
            "-" if self.group is None else self.group, self.wraps or "-", self.kind,
            self.mapK, self.mapV, self.mapVKind, self.name)


@dataclasses.dataclass
class M:
    name: str
    fields: List[F]
    ngroups: int = 0


def schema_line(sid, schema):
    parts = ["S", sid, str(len(schema))]
    for m in schema:
        parts += ["M", str(len(m.fields)), str(m.ngroups)]
        parts += [f.line() for f in m.fields]
    return " ".join(parts)


# ---------------------------------------------------------------- betterproto classes

class GenEnum(betterproto.Enum):
    ZERO = 0
    ONE = 1
    TWO = 2
    NEG = -5
    BIG = 2147483647
    MIN = -2147483648
    ALIAS_ONE = 1


_counter = [0]

PY_T = {"bool": bool, "float": float, "double": float, "string": str, "bytes": bytes, "enum": GenEnum}


def py_type(ty):
    return PY_T.get(ty, int)


def build_bp(schema, tag=None):
    """real betterproto dataclasses built with the public field API"""
    _counter[0] += 1
    modname = "bpgen_mod_%d" % _counter[0]
    mod = types.ModuleType(modname)
    sys.modules[modname] = mod
    mod.__dict__.update({"List": List, "Dict": Dict, "Optional": Optional, "datetime": datetime,
                         "timedelta": timedelta, "GenEnum": GenEnum})
    classes = []
    for ci, m in enumerate(schema):
        fields = []
        for f in m.fields:
            gname = None if f.group is None else "g%d" % f.group
            if f.ty == "map":
                vt = kind_hint(f.mapVKind, schema) if f.mapV == "message" else py_type(f.mapV).__name__
                hint = "Dict[%s, %s]" % (py_type(f.mapK).__name__, vt)
                fld = betterproto.map_field(f.num, f.mapK, f.mapV)
            else:
                if f.ty == "message":
                    if f.wraps:
                        base = "Optional[%s]" % py_type(f.wraps).__name__
                    else:
                        base = kind_hint(f.kind, schema)
                    fld = betterproto.message_field(f.num, group=gname, wraps=f.wraps, optional=f.optional)
                else:
                    base = py_type(f.ty).__name__
                    fld = getattr(betterproto, f.ty + "_field")(f.num, group=gname, optional=f.optional)
                if f.repeated:
                    hint = "List[%s]" % base
                elif f.optional and not f.wraps:
                    hint = "Optional[%s]" % base
                else:
                    hint = base
            fields.append((f.name, hint, fld))
        cls = dataclasses.make_dataclass(m.name, fields, bases=(betterproto.Message,), eq=False, repr=False)
        cls.__module__ = modname
        setattr(mod, m.name, cls)
        classes.append(cls)
    return classes


def kind_hint(kind, schema):
    if kind == "ts":
        return "datetime"
    if kind == "dur":
        return "timedelta"
    return schema[int(kind[1:])].name


# ---------------------------------------------------------------- reference classes

_REF_T = {}


def build_ref(schema):
    """google.protobuf dynamic classes for the same schema"""
    from google.protobuf import descriptor_pb2, descriptor_pool, message_factory
    from google.protobuf import timestamp_pb2, duration_pb2, wrappers_pb2  # noqa: F401  (registers files)
    FD = descriptor_pb2.FieldDescriptorProto
    tmap = {"enum": FD.TYPE_ENUM, "bool": FD.TYPE_BOOL, "int32": FD.TYPE_INT32, "int64": FD.TYPE_INT64,
            "uint32": FD.TYPE_UINT32, "uint64": FD.TYPE_UINT64, "sint32": FD.TYPE_SINT32, "sint64": FD.TYPE_SINT64,
            "float": FD.TYPE_FLOAT, "double": FD.TYPE_DOUBLE, "fixed32": FD.TYPE_FIXED32,
            "sfixed32": FD.TYPE_SFIXED32, "fixed64": FD.TYPE_FIXED64, "sfixed64": FD.TYPE_SFIXED64,
            "string": FD.TYPE_STRING, "bytes": FD.TYPE_BYTES, "message": FD.TYPE_MESSAGE}
    wrapname = {"bool": "BoolValue", "int32": "Int32Value", "int64": "Int64Value", "uint32": "UInt32Value",
                "uint64": "UInt64Value", "float": "FloatValue", "double": "DoubleValue",
                "string": "StringValue", "bytes": "BytesValue"}
    _counter[0] += 1
    pkg = "refpkg%d" % _counter[0]
    fdp = descriptor_pb2.FileDescriptorProto()
    fdp.name = pkg + ".proto"
    fdp.package = pkg
    fdp.syntax = "proto3"
    fdp.dependency.extend(["google/protobuf/timestamp.proto", "google/protobuf/duration.proto",
                           "google/protobuf/wrappers.proto"])
    en = fdp.enum_type.add()
    en.name = "GenEnum"
    en.options.allow_alias = True
    for n, v in [("ZERO", 0), ("ONE", 1), ("TWO", 2), ("NEG", -5), ("BIG", 2147483647), ("MIN", -2147483648), ("ALIAS_ONE", 1)]:
        ev = en.value.add()
        ev.name = n
        ev.number = v

    def typename(kind, wraps):
        if wraps:
            return ".google.protobuf." + wrapname[wraps]
        if kind == "ts":
            return ".google.protobuf.Timestamp"
        if kind == "dur":
            return ".google.protobuf.Duration"
        return ".%s.%s" % (pkg, schema[int(kind[1:])].name)

    for m in schema:
        dp = fdp.message_type.add()
        dp.name = m.name
        for g in range(m.ngroups):
            dp.oneof_decl.add().name = "g%d" % g
        nsyn = 0
        for f in m.fields:
            fd = dp.field.add()
            fd.name = f.name
            fd.number = f.num
            fd.label = FD.LABEL_REPEATED if (f.repeated or f.ty == "map") else FD.LABEL_OPTIONAL
            if f.ty == "map":
                entry = dp.nested_type.add()
                entry.name = "".join(p.capitalize() for p in f.name.split("_")) + "Entry"
                entry.options.map_entry = True
                k = entry.field.add()
                k.name, k.number, k.label, k.type = "key", 1, FD.LABEL_OPTIONAL, tmap[f.mapK]
                v = entry.field.add()
                v.name, v.number, v.label, v.type = "value", 2, FD.LABEL_OPTIONAL, tmap[f.mapV]
                if f.mapV == "message":
                    v.type_name = typename(f.mapVKind, None)
                elif f.mapV == "enum":
                    v.type_name = ".%s.GenEnum" % pkg
                fd.type = FD.TYPE_MESSAGE
                fd.type_name = ".%s.%s.%s" % (pkg, m.name, entry.name)
                continue
            fd.type = tmap[f.ty]
            if f.ty == "message":
                fd.type_name = typename(f.kind, f.wraps)
            elif f.ty == "enum":
                fd.type_name = ".%s.GenEnum" % pkg
            if f.group is not None:
                fd.oneof_index = f.group
            elif f.optional:
                # proto3 optional = synthetic oneof
                od = dp.oneof_decl.add()
                od.name = "_" + f.name
                fd.oneof_index = m.ngroups + nsyn
                fd.proto3_optional = True
                nsyn += 1
    pool = descriptor_pool.DescriptorPool()
    for dep in (timestamp_pb2, duration_pb2, wrappers_pb2):
        fp = descriptor_pb2.FileDescriptorProto()
        dep.DESCRIPTOR.CopyToProto(fp)
        pool.Add(fp)
    pool.Add(fdp)
    return [message_factory.GetMessageClass(pool.FindMessageTypeByName("%s.%s" % (pkg, m.name))) for m in schema]


# ---------------------------------------------------------------- abstract values
# ('P',) ('N',) ('i',n) ('b',bool) ('f32',bits) ('f64',bits) ('s',bytes) ('y',bytes) ('t',us) ('d',us)
# ('l',[vals]) ('D',[(k,v)]) ('c',cls,{idx:val})

def term(v):
    k = v[0]
    if k in ("P", "N"):
        return k
    if k == "i":
        return "i %d" % v[1]
    if k == "b":
        return "b %d" % int(v[1])
    if k in ("f32", "f64"):
        return "%s %d" % (k, v[1])
    if k in ("s", "y"):
        return "%s %s" % (k, v[1].hex() or "-")
    if k in ("t", "d"):
        return "%s %d" % (k, v[1])
    if k == "l":
        return " ".join(["l %d" % len(v[1])] + [term(x) for x in v[1]])
    if k == "D":
        return " ".join(["D %d" % len(v[1])] + [term(a) + " " + term(b) for a, b in v[1]])
    if k == "c":
        items = sorted(v[2].items())
        return " ".join(["c %d %d" % (v[1], len(items))] + ["%d %s" % (i, term(x)) for i, x in items])
    raise ValueError(v)


def f32_from_bits(b):
    return struct.unpack("<f", struct.pack("<I", b))[0]


def f64_from_bits(b):
    return struct.unpack("<d", struct.pack("<Q", b))[0]


def f32_bits(x):
    return struct.unpack("<I", struct.pack("<f", x))[0]


def f64_bits(x):
    return struct.unpack("<Q", struct.pack("<d", x))[0]


def to_py(v, classes, ty=None):
    k = v[0]
    if k == "N":
        return None
    if k == "i":
        return GenEnum.try_value(v[1]) if ty == "enum" else v[1]
    if k == "b":
        return v[1]
    if k == "f32":
        return f32_from_bits(v[1])
    if k == "f64":
        return f64_from_bits(v[1])
    if k == "s":
        return v[1].decode("utf-8")
    if k == "y":
        return v[1]
    if k == "t":
        return EPOCH + timedelta(microseconds=v[1])
    if k == "d":
        return timedelta(microseconds=v[1])
    if k == "l":
        return [to_py(x, classes, ty) for x in v[1]]
    if k == "D":
        return {to_py(a, classes): to_py(b, classes, ty) for a, b in v[1]}
    if k == "c":
        cls = classes[v[1]]
        fs = dataclasses.fields(cls)
        kw = {}
        for i, x in v[2].items():
            meta = betterproto.FieldMetadata.get(fs[i])
            ety = meta.proto_type if meta.proto_type != "map" else meta.map_types[1]
            kw[fs[i].name] = to_py(x, classes, ety)
        return cls(**kw)
    raise ValueError(v)


# ---------------------------------------------------------------- observation of real messages

def obs_scalar(ty, v):
    if v is None:
        return "N"
    if ty == "bool":
        return "b %d" % int(bool(v))
    if ty == "float":
        return "f32 %d" % f32_bits(v)
    if ty == "double":
        return "f64 %d" % f64_bits(v)
    if ty == "string":
        return "s %s" % (v.encode("utf-8").hex() or "-")
    if ty == "bytes":
        return "y %s" % (bytes(v).hex() or "-")
    return "i %d" % int(v)


def obs_kind(kind, v, schema):
    if v is None:
        return "N"
    if kind == "ts":
        return "t %d" % ((v - EPOCH) // US)
    if kind == "dur":
        return "d %d" % (v // US)
    return obs_msg(v, schema, int(kind[1:]))


def obs_field_value(f, v, schema):
    if f.ty == "map":
        parts = ["D %d" % len(v)]
        for k, x in v.items():
            parts.append(obs_scalar(f.mapK, k))
            parts.append(obs_kind(f.mapVKind, x, schema) if f.mapV == "message" else obs_scalar(f.mapV, x))
        return " ".join(parts)

    def one(x):
        if f.ty == "message":
            if f.wraps:
                return obs_scalar(f.wraps, x)
            return obs_kind(f.kind, x, schema)
        return obs_scalar(f.ty, x)
    if f.repeated:
        return " ".join(["l %d" % len(v)] + [one(x) for x in v])
    return one(v)


def obs_msg(m, schema, ci):
    md = schema[ci]
    sets = [m.is_set(f.name) for f in md.fields]
    names = [f.name for f in md.fields]
    cur = []
    for g in range(md.ngroups):
        n, _ = betterproto.which_one_of(m, "g%d" % g)
        cur.append(str(names.index(n)) if n else "-")
    ow = betterproto.serialized_on_wire(m)
    items = []
    for f, s in zip(md.fields, sets):
        if (not s and f.ty == "message" and not f.wraps and f.kind.startswith("u") and not f.repeated
                and not f.optional and (f.group is None or cur[f.group] == str(names.index(f.name)))):
            items.append("[0 fresh]")      # an unset sub-message: not expanded (recursive types)
            continue
        try:
            v = getattr(m, f.name)
        except AttributeError:
            items.append("[%d AE]" % int(s))
            continue
        items.append("[%d %s]" % (int(s), obs_field_value(f, v, schema)))
    return " ".join(["m %d %d %d" % (ci, int(ow), md.ngroups)] + cur + [str(len(md.fields))] + items)


def obsp_value(f, v, schema):
    """presence-level observation of one attribute value (see Driver/Tok.lean obsPVal)"""
    if f.ty == "map":
        parts = ["D %d" % len(v)]
        for k, x in v.items():
            parts.append(obs_scalar(f.mapK, k))
            if f.mapV == "message":
                parts.append(obsp_kind(f.mapVKind, x, schema))
            else:
                parts.append(obs_scalar(f.mapV, x))
        return " ".join(parts)

    def one(x):
        if f.ty == "message":
            if f.wraps:
                return obs_scalar(f.wraps, x)
            return obsp_kind(f.kind, x, schema)
        return obs_scalar(f.ty, x)
    if f.repeated:
        return " ".join(["l %d" % len(v)] + [one(x) for x in v])
    if (f.ty == "message" and not f.wraps and f.kind.startswith("u") and v is not None
            and not betterproto.serialized_on_wire(v) and v == type(v)() and bytes(v) == b""):
        return "fresh"
    return one(v)


def obsp_kind(kind, v, schema):
    if v is None:
        return "N"
    if kind == "ts":
        return "t %d" % ((v - EPOCH) // US)
    if kind == "dur":
        return "d %d" % (v // US)
    return obsp_msg(v, schema, int(kind[1:]))


def obsp_msg(m, schema, ci):
    md = schema[ci]
    names = [f.name for f in md.fields]
    cur = []
    for g in range(md.ngroups):
        n, _ = betterproto.which_one_of(m, "g%d" % g)
        cur.append(str(names.index(n)) if n else "-")
    ow = betterproto.serialized_on_wire(m)
    items = []
    for f in md.fields:
        try:
            v = getattr(m, f.name)
        except AttributeError:
            items.append("[AE]")
            continue
        items.append("[%s]" % obsp_value(f, v, schema))
    return " ".join(["m %d %d %d" % (ci, int(ow), md.ngroups)] + cur + [str(len(md.fields))] + items)


# ---------------------------------------------------------------- generators

def gen_int(rng, ty):
    lo, hi = INT_RANGE[ty]
    r = rng.random()
    if r < 0.15:
        return 0
    if r < 0.3:
        # varint length boundaries, also of the zig-zag image: +-2^(7k-1), 2^(7k), each +-1
        k = rng.randint(1, 9)
        c = rng.choice([1 << (7 * k - 1), -(1 << (7 * k - 1)), 1 << (7 * k), -(1 << (7 * k))]) + rng.choice([-1, 0, 0, 1])
        return min(max(c, lo), hi)
    if r < 0.45:
        cands = [lo, hi, lo + 1, hi - 1, 1, -1 if lo < 0 else 1, 127, 128, 255, 256, 16383, 16384, 2**31 - 1, 2**31, 2**32 - 1, 2**32, 2**63 - 1]
        if ty == "enum":
            cands = [0, 1, 2, -5, 2147483647, -2147483648, 3, -1, 77]
        c = rng.choice(cands)
        return min(max(c, lo), hi)
    if r < 0.7:
        return min(max(rng.randint(-300, 300), lo), hi)
    return rng.randint(lo, hi)


F32_SPECIAL = [0, 0x80000000, 0x3f800000, 0xbf800000, 0x7f800000, 0xff800000, 0x7fc00000, 1, 0x007fffff, 0x7f7fffff, 0x00800000]
F64_SPECIAL = [0, 0x8000000000000000, 0x3ff0000000000000, 0xbff0000000000000, 0x7ff0000000000000,
               0xfff0000000000000, 0x7ff8000000000000, 1, 0x000fffffffffffff, 0x7fefffffffffffff]


def quiet32(b):
    if (b >> 23) & 0xff == 0xff and b & 0x7fffff:
        b |= 0x400000
    return b


def gen_scalar(rng, ty):
    if ty == "bool":
        return ("b", rng.random() < 0.5)
    if ty == "float":
        b = rng.choice(F32_SPECIAL) if rng.random() < 0.4 else rng.getrandbits(32)
        # a Python float cannot hold a signalling float32 NaN: use what the platform gives back
        return ("f32", f32_bits(f32_from_bits(b)))
    if ty == "double":
        b = rng.choice(F64_SPECIAL) if rng.random() < 0.4 else rng.getrandbits(64)
        return ("f64", b)
    if ty == "string":
        r = rng.random()
        if r < 0.2:
            return ("s", b"")
        alphabet = ["a", "b", "z", "0", " ", "é", "ß", "中", "😀", "\x00", "\x7f", "߿", "￿"]
        return ("s", "".join(rng.choice(alphabet) for _ in range(rng.randint(1, 6))).encode("utf-8"))
    if ty == "bytes":
        if rng.random() < 0.2:
            return ("y", b"")
        return ("y", bytes(rng.getrandbits(8) for _ in range(rng.randint(1, 6))))
    return ("i", gen_int(rng, ty))


def gen_ts(rng):
    r = rng.random()
    if r < 0.15:
        return ("t", 0)
    if r < 0.4:
        return ("t", rng.choice([TS_MIN_US, TS_MAX_US, -1, 1, 999999, 10**6, -10**6, -999999, 10**6 - 1, -10**6 - 1, 1577836800000000]))
    if r < 0.7:
        return ("t", rng.randint(-5 * 10**6, 5 * 10**6))
    return ("t", rng.randint(TS_MIN_US, TS_MAX_US))


def gen_dur(rng):
    r = rng.random()
    if r < 0.15:
        return ("d", 0)
    if r < 0.4:
        return ("d", rng.choice([-1, 1, -500000, 500000, 10**6, -10**6, -10**6 - 1, 10**6 + 1, DUR_MAX_US, -DUR_MAX_US,
                                 DUR_MAX_US - 1, -DUR_MAX_US + 1, 2**53 + 1, -(2**53) - 1, 86400 * 10**6]))
    if r < 0.7:
        return ("d", rng.randint(-5 * 10**6, 5 * 10**6))
    return ("d", rng.randint(-DUR_MAX_US, DUR_MAX_US))


def gen_kind(rng, schema, kind, depth):
    if kind == "ts":
        return gen_ts(rng)
    if kind == "dur":
        return gen_dur(rng)
    return gen_msg(rng, schema, int(kind[1:]), depth - 1)


def gen_field(rng, schema, f, depth):
    """a value for field f, or None = leave the field out of the constructor call"""
    if f.ty == "map":
        n = rng.choice([0, 1, 1, 2, 3])
        if f.mapV == "message" and f.mapVKind.startswith("u") and depth <= 0:
            n = 0           # the nesting bound also holds through map values (a self-referencing map is a supercritical
                            # branching process otherwise: values nested > 100 deep, which the reference decoder refuses)
        items, seen = [], set()
        for _ in range(n):
            k = gen_scalar(rng, f.mapK)
            if rng.random() < 0.25:      # default key (and below, often a default value too)
                k = {"bool": ("b", False), "string": ("s", b"")}.get(f.mapK, ("i", 0))
            if k[1] in seen or (isinstance(k[1], bool) and int(k[1]) in seen):
                continue
            seen.add(k[1])
            v = gen_kind(rng, schema, f.mapVKind, depth) if f.mapV == "message" else gen_scalar(rng, f.mapV)
            if f.mapV != "message" and rng.random() < 0.3:
                v = {"bool": ("b", False), "float": ("f32", 0), "double": ("f64", 0), "string": ("s", b""), "bytes": ("y", b"")}.get(f.mapV, ("i", 0))
            items.append((k, v))
        return ("D", items)

    def one():
        if f.ty == "message":
            if f.wraps:
                return gen_scalar(rng, f.wraps)
            return gen_kind(rng, schema, f.kind, depth)
        return gen_scalar(rng, f.ty)
    if f.repeated:
        return ("l", [one() for _ in range(rng.choice([0, 1, 1, 2, 3, 5]))])
    return one()


def gen_msg(rng, schema, ci, depth=3, multi=0.0):
    """`multi`: probability that a constructor call names SEVERAL members of one oneof group"""
    md = schema[ci]
    kw = {}
    chosen = {}
    for g in range(md.ngroups):
        members = [i for i, f in enumerate(md.fields) if f.group == g]
        if members and rng.random() < 0.8:
            chosen[g] = {rng.choice(members)}
            if len(members) > 1 and rng.random() < multi:
                chosen[g] = set(rng.sample(members, rng.randint(2, len(members))))
    for i, f in enumerate(md.fields):
        if f.group is not None:
            if i not in chosen.get(f.group, ()):
                continue
        elif rng.random() < 0.3:
            continue
        if f.ty == "message" and not f.wraps and f.kind.startswith("u") and depth <= 0:
            if f.repeated:
                kw[i] = ("l", [])
            continue
        kw[i] = gen_field(rng, schema, f, depth)
    return ("c", ci, kw)


ALL_FEATURES = frozenset({"scalar", "repeated", "optional", "oneof", "message", "map", "wkt", "wrapper", "repwrapper", "recursive"})


def random_schema(rng, nmsgs=None, features=None):
    """a random well-formed schema; `features` limits the field kinds"""
    feats = features or ALL_FEATURES
    nmsgs = nmsgs or rng.choice([1, 1, 2, 3])
    schema = []
    for ci in range(nmsgs):
        nf = rng.choice([1, 2, 3, 4, 6, 9])
        if ci > 0 and rng.random() < 0.12:
            nf = 0          # a message type without fields (what an older schema that dropped them all has): __setattr__ treats it specially
        nums = rng.sample([1, 2, 3, 4, 5, 7, 15, 16, 17, 100, 2047, 2048, 19000, 262143, 536870911], nf)
        ngroups = 0
        fields = []
        gcur, gleft = None, 0
        for j in range(nf):
            name = "f%d" % j
            num = nums[j]
            r = rng.random()
            f = None
            if gleft > 0:
                gleft -= 1
                f = F(name, num, "int32", group=gcur)
            elif "oneof" in feats and r < 0.12 and j + 1 < nf:
                gcur = ngroups
                ngroups += 1
                gleft = rng.choice([0, 1, 2])
                f = F(name, num, "int32", group=gcur)
            if f is not None:
                # type of a oneof member: scalar, message, wkt, wrapper
                k = rng.random()
                if k < 0.6 or "message" not in feats:
                    f.ty = rng.choice(SCALAR_T)
                elif k < 0.8:
                    f.ty, f.kind = "message", "u%d" % rng.randrange(nmsgs)
                elif k < 0.9 and "wkt" in feats:
                    f.ty, f.kind = "message", rng.choice(["ts", "dur"])
                elif "wrapper" in feats:
                    f.ty, f.wraps = "message", rng.choice(WRAP_T)
                else:
                    f.ty = rng.choice(SCALAR_T)
            else:
                k = rng.random()
                if k < 0.4:
                    f = F(name, num, rng.choice(SCALAR_T))
                elif k < 0.55 and "repeated" in feats:
                    f = F(name, num, rng.choice(SCALAR_T), repeated=True)
                elif k < 0.65 and "optional" in feats:
                    f = F(name, num, rng.choice(SCALAR_T), optional=True)
                elif k < 0.75 and "message" in feats:
                    tgt = rng.randrange(nmsgs)
                    if "recursive" not in feats and tgt >= ci:
                        tgt = ci - 1 if ci > 0 else None
                    if tgt is None:
                        f = F(name, num, rng.choice(SCALAR_T))
                    else:
                        f = F(name, num, "message", kind="u%d" % tgt, repeated=rng.random() < 0.3,
                              optional=False)
                        if not f.repeated and "optional" in feats and rng.random() < 0.25:
                            f.optional = True
                elif k < 0.83 and "map" in feats:
                    mv = rng.choice(SCALAR_T + (["message"] if "message" in feats else []))
                    f = F(name, num, "map", mapK=rng.choice(MAPKEY_T), mapV=mv)
                    if mv == "message":
                        f.mapVKind = rng.choice(["u%d" % rng.randrange(nmsgs)] + (["ts", "dur"] if "wkt" in feats else []))
                elif k < 0.91 and "wkt" in feats:
                    f = F(name, num, "message", kind=rng.choice(["ts", "dur"]), repeated=rng.random() < 0.25)
                    if not f.repeated and "optional" in feats and rng.random() < 0.25:
                        f.optional = True
                elif "wrapper" in feats:
                    # `repeated google.protobuf.XxxValue` = List[Optional[scalar]]; items are never None here (a repeated
                    # message field of the reference cannot hold a null element): None items are a stage of their own in C01
                    f = F(name, num, "message", wraps=rng.choice(WRAP_T),
                          repeated="repwrapper" in feats and "repeated" in feats and rng.random() < 0.35)
                else:
                    f = F(name, num, rng.choice(SCALAR_T))
            fields.append(f)
        schema.append(M("M%d" % ci, fields, ngroups))
    return schema
