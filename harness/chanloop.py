"""Schedule-controlled asyncio event loop + the task programs of property C12, run on the REAL
`betterproto.grpc.util.async_channel.AsyncChannel`.

The loop is a `SelectorEventLoop` with pure-Python tasks and futures whose ready queue is
never run by `run_forever`: `World.step(label)` pops ONE chosen handle and runs it, so the
caller decides the interleaving.  Labels: `t<i>` = run task i to its next suspension point,
`T<i>` = fire the `asyncio.wait_for` timer of task i (time is arbitrary, so a live timer may
fire at any point).  Tasks 0..n-1 are the configured programs, tasks created later (the
`_flush_queue` tasks made by `close()`) are numbered in creation order.

A configuration is `(buffer_limit, [prog, ...])` with programs
    ("S", mode, n, close)   sender i sends items (i,0)..(i,n-1); mode "e": `await ch.send(x)` each,
                            mode "f": `await ch.send_from(iterable, close=close)`; for "e" `close`
                            means an explicit `ch.close()` after the last send
    ("R", flavour, timed)   receiver, until the channel is done; flavour "r": `receive()` loop until
                            None / ChannelDone, "f": `async for`, "m": `ServiceStub._send_messages`
                            consuming the channel; timed: each receive is under `asyncio.wait_for`
    ("C",)                  closer: `ch.close()`
    ("X", target)           canceller: `tasks[target].cancel()`
"""
import asyncio
import asyncio.events
import asyncio.futures
import asyncio.tasks
import heapq

from betterproto.grpc.util.async_channel import AsyncChannel, ChannelClosed, ChannelDone


class CtlLoop(asyncio.SelectorEventLoop):
    """one handle at a time, chosen by the caller"""

    def __init__(self):
        super().__init__()
        self.task_ids = {}
        self.tasks = []
        self.set_task_factory(self._factory)
        self.set_exception_handler(lambda loop, ctx: None)

    def _factory(self, loop, coro, **kw):
        t = asyncio.tasks._PyTask(coro, loop=loop, **kw)
        t._log_destroy_pending = False
        self.task_ids[t] = len(self.tasks)
        self.tasks.append(t)
        return t

    def create_future(self):
        return asyncio.futures._PyFuture(loop=self)

    # ---- schedule control
    def runnable(self):
        """label -> handle for everything that could run next"""
        out = {}
        for h in self._ready:
            if h._cancelled:
                continue
            owner = getattr(h._callback, "__self__", None)
            if owner in self.task_ids:
                out["t%d" % self.task_ids[owner]] = h
            else:
                out["?%d" % len(out)] = h
        for h in self._scheduled:
            if h._cancelled:
                continue
            owner = getattr(h._callback, "__self__", None)
            task = getattr(owner, "_task", None)
            if task in self.task_ids:
                out["T%d" % self.task_ids[task]] = h
            else:
                out["?%d" % len(out)] = h
        return out

    def step(self, label):
        h = self.runnable()[label]
        if label[0] == "T":
            self._scheduled.remove(h)
            heapq.heapify(self._scheduled)
            h._scheduled = False
        else:
            self._ready.remove(h)
        asyncio.events._set_running_loop(self)
        try:
            h._run()
        finally:
            asyncio.events._set_running_loop(None)

    def dispose(self):
        for t in self.tasks:
            t._log_traceback = False
            fw = getattr(t, "_fut_waiter", None)
            if fw is not None:
                fw._log_traceback = False
            if not t.done():
                try:
                    t._coro.close()      # unwind the pending coroutine while the loop is still open
                except BaseException:    # noqa
                    pass
        self._ready.clear()
        self._scheduled.clear()
        self.close()


class FakeStream:
    """what `ServiceStub._send_messages` needs from a grpclib stream"""

    def __init__(self, world, i):
        self.world, self.i, self.ended = world, i, False

    async def send_message(self, m):
        self.world.got(self.i, m)

    async def end(self):
        self.ended = True


def outcome_of(task):
    if not task.done():
        return None
    if task.cancelled():
        return "cancelled"
    e = task.exception()
    if e is None:
        return "ok"
    if isinstance(e, ChannelClosed):
        return "chanClosed"
    if isinstance(e, TimeoutError):
        return "timeout"
    if isinstance(e, ValueError):
        return "valueError"
    return "exc:" + type(e).__name__


class World:
    """one run of one configuration on the real channel"""

    def __init__(self, cfg):
        self.buffer, self.progs = cfg
        self.loop = CtlLoop()
        self.ch = AsyncChannel(buffer_limit=self.buffer)
        self.events = []            # events of the current step
        self.recv_log = []          # (receiver, item) in receive order
        self.send_started = []      # (item, channel closed when the send call was made)
        self.send_completed = []    # (item, channel closed when the send returned)
        self.send_refused = []      # (sender, channel closed when the send call was made)
        self.cancel_req = {}        # task -> "blocked" | "other": an external cancel() was issued
        self.timer_fired = set()
        self.problems = []          # monitor findings: (kind, detail)
        self.steps = 0
        for i, p in enumerate(self.progs):
            self.loop.create_task(self._program(i, p))

    # ---- programs
    def _program(self, i, p):
        if p[0] == "S":
            return self._sender(i, p[1], p[2], p[3])
        if p[0] == "R":
            return self._receiver(i, p[1], p[2])
        if p[0] == "C":
            return self._closer()
        if p[0] == "X":
            return self._canceller(p[1])
        raise ValueError(p)

    async def _closer(self):
        self.ch.close()

    async def _canceller(self, target):
        if 0 <= target < len(self.progs):
            t = self.loop.tasks[target]
            if not t.done():
                self.cancel_req.setdefault(target, "blocked" if t._fut_waiter is not None else "other")
            t.cancel()

    async def _sender(self, i, mode, n, close):
        ch = self.ch
        items = [(i, k) for k in range(n)]
        if mode == "e":
            for it in items:
                was_closed = ch.closed()
                self.send_started.append((it, was_closed))
                try:
                    await ch.send(it)
                except ChannelClosed:
                    self.send_refused.append((i, was_closed))
                    raise
                if was_closed:
                    self.problems.append(("send-after-close-not-refused", "send(%r) on a closed channel returned" % (it,)))
                self.send_completed.append((it, ch.closed()))
            if close:
                ch.close()
        else:
            def source():
                for it in items:
                    self.send_started.append((it, ch.closed()))
                    yield it
                    # resumed by send_from: the put of `it` has completed
                    self.send_completed.append((it, ch.closed()))
            was_closed = ch.closed()
            try:
                await ch.send_from(source(), close=close)
            except ChannelClosed:
                self.send_refused.append((i, was_closed))
                raise
            if was_closed:
                self.problems.append(("send-after-close-not-refused", "send_from on a closed channel returned (sender %d)" % i))

    def got(self, i, x):
        self.recv_log.append((i, x))
        self.events.append("r%d:%s" % (i, "%d.%d" % x if isinstance(x, tuple) and len(x) == 2 else repr(x)))

    async def _receiver(self, i, flavour, timed):
        ch = self.ch
        if flavour == "r":
            while True:
                try:
                    x = await (asyncio.wait_for(ch.receive(), 3600) if timed else ch.receive())
                except ChannelDone:
                    break
                if x is None:
                    break
                self.got(i, x)
        elif flavour == "f":
            if timed:
                it = ch.__aiter__()
                while True:
                    try:
                        x = await asyncio.wait_for(it.__anext__(), 3600)
                    except StopAsyncIteration:
                        break
                    self.got(i, x)
            else:
                async for x in ch:
                    self.got(i, x)
        else:
            from betterproto.grpc.grpclib_client import ServiceStub
            st = FakeStream(self, i)
            if timed:
                await asyncio.wait_for(ServiceStub._send_messages(st, ch), 3600)
            else:
                await ServiceStub._send_messages(st, ch)
            if not st.ended:
                self.problems.append(("send-messages-no-end", "stream.end() not called"))

    # ---- stepping
    def runnable(self):
        return sorted(self.loop.runnable())

    def step(self, label):
        """run one handle; returns the events of the step (received items, completion of the task)"""
        self.events = []
        self.steps += 1
        before = len(self.loop.tasks)
        tid = int(label[1:])
        if label[0] == "T":
            self.timer_fired.add(tid)
        was_done = self.loop.tasks[tid].done()
        self.loop.step(label)
        if label[0] == "t" and not was_done:
            o = outcome_of(self.loop.tasks[tid])
            if o is not None:
                self.events.append("d%d:%s" % (tid, o))
        return list(self.events)

    def quiescent(self):
        return not any(l[0] != "T" for l in self.loop.runnable())

    def dispose(self):
        self.loop.dispose()

    # ---- epilogue: the channel is still usable and nothing was lost (public API only)
    def epilogue(self):
        """close the channel if the configuration did not, run everything to quiescence (FIFO order),
        then drain what is left with a fresh `receive()` loop."""
        if not self.ch.closed():
            asyncio.events._set_running_loop(self.loop)
            try:
                self.ch.close()
            except Exception as e:      # close() is documented not to fail: what it raises is a finding, not a harness error
                self.problems.append(("close-raised", "close() raised %r" % (e,)))
            finally:
                asyncio.events._set_running_loop(None)
        self.run_fifo()
        n = len(self.loop.tasks)
        self.loop.create_task(self._receiver(n, "r", False))
        self.run_fifo()
        return self.loop.tasks[n]

    def run_fifo(self, limit=10000):
        while limit:
            r = [l for l in self.loop.runnable() if l[0] == "t"]
            if not r:
                return
            self.step(sorted(r, key=lambda l: int(l[1:]))[0])
            limit -= 1
        self.problems.append(("livelock", "no quiescence within 10000 steps"))


def fingerprint(w):
    """internal state of the real objects (used ONLY to prune the exhaustive search, never compared
    with the model)"""
    # (tolerant of a channel with other internals: whatever simple attributes the object has are taken instead)
    q = getattr(w.ch, "_queue", None)
    ids = w.loop.task_ids

    def fut(f):
        return "c" if f.cancelled() else ("w" if f.done() else "p")
    owner = {}
    for t in w.loop.tasks:
        fw = getattr(t, "_fut_waiter", None)
        if fw is not None:
            owner[id(fw)] = ids[t]
    ts = []
    run = w.loop.runnable()
    for t in w.loop.tasks:
        i = ids[t]
        fw = getattr(t, "_fut_waiter", None)
        ts.append("%s%s%s%s" % ("D" + str(outcome_of(t)) if t.done() else ("r" if "t%d" % i in run else "b"),
                                fut(fw) if fw is not None and not t.done() else "-",
                                "!" if t._must_cancel else "", "T" if "T%d" % i in run else ""))
    try:
        qpart = [",".join("F" if not isinstance(x, tuple) else "%d.%d" % x for x in q._queue),
                 ",".join("%s%s" % (owner.get(id(f), "?"), fut(f)) for f in q._getters),
                 ",".join("%s%s" % (owner.get(id(f), "?"), fut(f)) for f in q._putters),
                 str(q._unfinished_tasks)]
    except AttributeError:
        qpart = ["?"]
    chpart = ",".join("%s=%r" % (k, v) for k, v in sorted(vars(w.ch).items()) if isinstance(v, (bool, int, str, type(None))))
    return "|".join(qpart + [
        chpart,
        " ".join(ts),
        # (an item that is not one of the (sender, seq) pairs the harness sent is an invented item: the judge reports it)
        ",".join(("%d:%d.%d" % (i, x[0], x[1])) if isinstance(x, tuple) and len(x) == 2 else "%d:?%s" % (i, type(x).__name__)
                 for i, x in w.recv_log),
        ",".join("%d.%d" % it for it, _ in w.send_completed),
    ])
