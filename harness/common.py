"""Shared machinery of the checks: build + audit of the Lean development, the model
driver, evidence / replay / known-findings handling, and the decision procedure of
DESIGN.md section 2."""
import fcntl
import hashlib
import json
import os
import random
import re
import subprocess
import sys
import time

ROOT = os.path.dirname(os.path.dirname(os.path.abspath(__file__)))
LEAN = os.path.join(ROOT, "lean")
REPO = os.environ.get("VERIF_REPO", "/repo")
PY = "/venv/bin/python"
DRIVER = os.path.join(LEAN, ".lake", "build", "bin", "bpdriver")
ALLOWED_AXIOMS = {"propext", "Classical.choice", "Quot.sound"}
FORBIDDEN = re.compile(r"\b(sorry|admit|native_decide|bv_decide|implemented_by|unsafe)\b|^\s*axiom\s|maxHeartbeats\s+0")

TRUSTED_BASE = [
    "Lean 4.33.0 kernel (thorough tier: leanchecker re-check of the .olean files)",
    "axioms: subset of {propext, Classical.choice, Quot.sound}, audited with #print axioms on every property theorem; no sorry/admit/native_decide/bv_decide/own axioms (grep on every run)",
    "hand-written Lean model of the code; tied to /repo by the differential correspondence run of this check (sampled, not proved)",
    "harness/extract.py (table translator) and the bpdriver line parser/printer",
    "harness/extract_src.py (source translator: Python AST of the codec primitives -> lean/BpProofs/Gen/SrcCodec.lean, re-run on every check) and lean/BpProofs/PyPrelude.lean (what the Python primitives it maps to mean)",
    "harness/extract_srctime.py (source translator: Python AST of the _Duration / _Timestamp methods -> lean/BpProofs/Gen/SrcTime.lean, re-run on every check) and lean/BpProofs/PyPreludeTime.lean (datetime / timedelta as microsecond counts, the float intrinsics; validated by harness/tests/check_srctime.py)",
    "harness/extract_srcimp.py (source translator: Python AST of the reference_* functions and the dispatch of get_type_reference of compile/importing.py -> lean/BpProofs/Gen/SrcImporting.lean, re-run on every check) and lean/BpProofs/PyPreludeStr.lean (str / list slicing, indexing, join, split, os.path.commonprefix, set.add as an ordered list)",
    "harness/extract_srcdump.py (source translator: Python AST of the body of the field loop of Message.dump / Message.__len__ -> lean/BpProofs/Gen/SrcDump.lean, re-run on every check) and lean/BpProofs/PyPreludeDyn.lean (what getattr / isinstance / == default / the FieldMetadata attributes mean on the model's Val / FieldD; _preprocess_single / _serialize_single / _len_single / bytes(message) are intrinsics standing for the model functions)",
    "harness/extract_srcload.py (Message.load: the body of the record loop -> Gen/SrcLoad.lean) and lean/BpProofs/PyPreludeLoad.lean (records, slot aliasing of `current`, setattr / dict insert / list extend on the model state, _postprocess_single as an intrinsic)",
    "harness/extract_srcobj.py (__setattr__, __getattribute__, which_one_of, _include_default_value_for_oneof, __bool__, serialized_on_wire, is_set, __eq__, __copy_state_to -> Gen/SrcObj*.lean) and lean/BpProofs/PyPreludeObj.lean (raw slot access, _group_current, group tables; Python != as an oracle parameter)",
    "harness/extract_srcjson.py (Message.to_dict: the body of the field loop, _dump_float -> Gen/SrcJson.lean) and lean/BpProofs/PyPreludeJson.lean (ordered dict writes, leaf codecs str / base64 / isoformat as the model's abstract leaves, type-hint lookups)",
    "harness/extract_srcfromdict.py (_from_dict_init key loop body and both forms of from_dict -> Gen/SrcFromDict.lean) and lean/BpProofs/PyPreludeFromDict.lean (leaf codecs, class lookups, keyword-argument dict with insert-or-replace)",
    "harness/extract_srcenum.py (enum.py: member loop of EnumType.__new__, lookups, try_value, from_string, mutation refusals, copy / pickle hooks -> Gen/SrcEnum.lean) and lean/BpProofs/PyPreludeEnum.lean (dicts as association lists, member allocation with a fresh object identity; TypeError for unhashable arguments outside the model)",
    "harness/extract_srctyping.py (plugin/typing_compiler.py: the seven methods of the three compilers -> Gen/SrcTyping.lean) and lean/BpProofs/PyPreludeTyping.lean",
    "harness/extract_srccasing.py (casing.py: the regex constants and the two re.sub patterns PARSED into a regex AST, the substitute_word closures, camel_case, sanitize_name, safe_snake_case -> Gen/SrcCasing.lean), lean/BpProofs/PyRegex.lean (semantics of CPython's re matching and re.sub incl. the empty-match rule; validated against the real re by harness/tests/check_regex.py) and lean/BpProofs/PyPreludeCasing.lean",
    "harness/extract_srcnaming.py (compile/naming.py: the four pythonize_* functions -> Gen/SrcNaming.lean) and lean/BpProofs/PyPreludeNaming.lean (str.find / strip / upper on ASCII)",
    "harness/extract_srcplugin.py (plugin/models.py: get_map_entry, is_map, is_oneof and eleven members of the four field compiler classes -> Gen/SrcPlugin.lean) and lean/BpProofs/PyPreludePlugin.lean (descriptor objects as the model's FieldP / MsgP)",
    "harness/extract_srcmsg.py (everything around the loops of Message.dump / __len__ / __bytes__ / SerializeToString / load / parse / FromString / __getstate__ / __setstate__ / __reduce__, plus the fixed template that ties the recursive knot by fuel on nesting depth -> Gen/SrcMsg.lean) and lean/BpProofs/PyPreludeMsg.lean",
    "harness/extract_srcimpre.py (compile/importing.py: the regex of parse_source_type_name PARSED into the regex AST, re.match, the two branches; the head of get_type_reference = the unwrap block, composed with the dispatch fragment -> Gen/SrcImportingRe.lean) and lean/BpProofs/PyPreludeImpRe.lean (re.match = one attempt at position 0, `\\.` = [.], `.` = [^\\n], lstrip, WRAPPER_TYPES through the table regenerated by extract_importing.py)",
    "harness/extract_srcchan.py (grpc/util/async_channel.py: every method of AsyncChannel as a resumption program, try/finally on every exit path -> Gen/SrcChan.lean) and lean/BpProofs/PyPreludeChan.lean (the command tree, max / range / qsize / `is self.__flush`); the asyncio Queue / Task model of BpModel/Chan.lean stays hand-modelled (CPython is an external), and the task programs of the C12 model are tied to harness/chanloop.py by the lock-step correspondence only",
    "harness/extract_srcparser.py (plugin/parser.py: traverse / _traverse, the dispatch of read_protobuf_type and read_protobuf_service, the package / file loops of generate_code -> Gen/SrcParser.lean) and lean/BpProofs/PyPreludeParser.lean (descriptor objects as plain values, a generator as the list of what it yields, constructing a compiler object = one registration with its output template, dicts as insertion-ordered association lists, pathlib.Path as a list of parts with exists() as a parameter); validated by harness/tests/check_srcparser.py against the real plugin",
    "harness/extract_srcgrpc.py (grpc/grpclib_client.py: __resolve_request_kwargs, the four call helpers, _send_messages; grpc/grpclib_server.py: _call_rpc_handler_server_stream; the __rpc_* adapters, stub methods, __mapping__ and default bodies as RENDERED by the template for the four cardinalities under the six option sets -> Gen/SrcGrpc.lean) and lean/BpProofs/PyPreludeGrpc.lean; BpModel/GrpcCall.lean models grpclib 0.4.9's client Stream flags / ProtocolError checks and FIFO delivery as the external (validated by the GCALL correspondence against real calls through grpclib's test channel)",
    "harness/extract_srcmeta.py (ProtoClassMetadata.__init__ / _get_default_gen / _get_cls_by_field, Message._betterproto, __post_init__, __setattr__ whole, _type_hint, _cls_for, _get_field_default_gen, _get_field_default, dataclass_field and the *_field helpers -> Gen/SrcMeta.lean) and lean/BpProofs/PyPreludeMeta.lean (a class as its field list, dicts as association lists, the ASSUMED map typeHint : FieldD -> Hint from a field to the hint typing.get_type_hints gives, CPython's generated dataclass __init__ as dataclassInit); validated by harness/tests/check_srcmeta.py",
    "harness/extract_srcpydict.py (Message.to_pydict / from_pydict loop bodies and loops, to_json / from_json -> Gen/SrcPyDict.lean) and lean/BpProofs/PyPreludePyDict.lean (on top of the JSON preludes; json.dumps . json.loads = the model's jsonText)",
    "harness/extract_srcleaf.py (_parse_float, _dump_enum, _parse_enum, _Duration.delta_from_json, _Timestamp.timestamp_to_json whole -> Gen/SrcLeaf.lean) and lean/BpProofs/PyPreludeLeaf.lean (f-string rendering of ints, Decimal(text) on plain decimal literals, Decimal * int exact up to 28 digits, int() truncation, datetime as wall-clock microseconds plus utcoffset, isoformat of whole seconds abstract); validated by harness/tests/check_srcleaf.py",
    "harness/extract_srctemplate.py (templates/header.py.j2 and template.py.j2 parsed with Jinja2's own parser under compiler.py's Environment options -> Gen/SrcTemplate.lean), lean/BpProofs/PyPreludeTemplate.lean (for / loop.last, if, set, |sort = stable case-insensitive sort that removes nothing, join) and Jinja2's lexer / parser; validated against real renderings by harness/tests/check_srctemplate.py",
    "harness/extract_srcjsonmsg.py (everything around the loops of Message.to_dict / _from_dict_init / from_dict, to_json / from_json, plus the fixed template that ties the recursive knot by fuel on nesting depth -> Gen/SrcJsonMsg.lean) and lean/BpProofs/PyPreludeJsonMsg.lean",
    "lean/BpModel/PluginSchema.lean (toSchema: how the runtime reads the classes the plugin writes) is a hand-written model, tied to the code by the correspondence stage harness/props/c03_schema.py only",
    "that each Lean statement in lean/BpProofs/Props says what the English property says",
]


class Timeout(Exception):
    pass


def sh(cmd, timeout=1800, cwd=None, env=None, stdin=None):
    t0 = time.time()
    try:
        p = subprocess.run(cmd, shell=isinstance(cmd, str), cwd=cwd, env=env, input=stdin,
                           stdout=subprocess.PIPE, stderr=subprocess.STDOUT, timeout=timeout, text=True)
    except subprocess.TimeoutExpired as e:
        raise Timeout("%s timed out after %ss" % (cmd, timeout)) from e
    return p.returncode, p.stdout, time.time() - t0


class Lock:
    def __init__(self, name="build"):
        self.path = os.path.join(ROOT, ".%s.lock" % name)

    def __enter__(self):
        self.f = open(self.path, "w")
        fcntl.flock(self.f, fcntl.LOCK_EX)
        return self

    def __exit__(self, *a):
        fcntl.flock(self.f, fcntl.LOCK_UN)
        self.f.close()


def repo_id():
    rc, head, _ = sh(["git", "-C", REPO, "rev-parse", "HEAD"])
    rc2, st, _ = sh(["git", "-C", REPO, "status", "--porcelain", "--untracked-files=no"])
    return {"head": head.strip(), "dirty": bool(st.strip())}


def check_import_path():
    import betterproto
    src = os.path.realpath(betterproto.__file__)
    want = os.path.realpath(os.path.join(REPO, "src", "betterproto", "__init__.py"))
    if src != want:
        raise SystemExit("betterproto is imported from %s, not from %s" % (src, want))


def extract_tables():
    rc, out, _ = sh([PY, os.path.join(ROOT, "harness", "extract.py")], timeout=300)
    return rc == 0, out


def lake_build(targets, timeout=3000):
    """Build the given lake targets; returns (ok, log)."""
    with Lock("build"):
        ok, out = extract_tables()
        if not ok:
            return False, "extract.py failed:\n" + out
        rc, log, _ = sh(["lake", "build"] + list(targets), cwd=LEAN, timeout=timeout)
        return rc == 0, out + log


def strip_comments(text):
    # remove /- ... -/ (nested) and -- comments
    out = []
    i, depth, n = 0, 0, len(text)
    while i < n:
        if text.startswith("/-", i):
            depth += 1
            i += 2
        elif depth and text.startswith("-/", i):
            depth -= 1
            i += 2
        elif depth:
            i += 1
        elif text.startswith("--", i):
            while i < n and text[i] != "\n":
                i += 1
        else:
            out.append(text[i])
            i += 1
    return "".join(out)


def grep_forbidden():
    hits = []
    for base in ("BpModel", "BpProofs", "Driver"):
        for dp, dn, fn in os.walk(os.path.join(LEAN, base)):
            for f in fn:
                if not f.endswith(".lean"):
                    continue
                p = os.path.join(dp, f)
                txt = strip_comments(open(p).read())
                for ln, line in enumerate(txt.split("\n"), 1):
                    if FORBIDDEN.search(line):
                        hits.append("%s:%d: %s" % (os.path.relpath(p, LEAN), ln, line.strip()))
    return hits


def property_modules(pid):
    """the property theorem files of one property: Props/<pid>.lean plus continuation files Props/<pid><Word>.lean"""
    d = os.path.join(LEAN, "BpProofs", "Props")
    return sorted(f[:-5] for f in os.listdir(d) if re.match(re.escape(pid) + r"[A-Za-z]*\.lean$", f))


def property_theorems(pid):
    """names of the theorems stated in lean/BpProofs/Props/<pid>*.lean (namespace Bp.<pid>)"""
    names = []
    for mod in property_modules(pid):
        txt = strip_comments(open(os.path.join(LEAN, "BpProofs", "Props", mod + ".lean")).read())
        names += re.findall(r"^\s*theorem\s+([A-Za-z0-9_'.]+)", txt, re.M)
    return ["Bp.%s.%s" % (pid, n) for n in names]


def module_theorems(pid, mod):
    txt = strip_comments(open(os.path.join(LEAN, "BpProofs", "Props", mod + ".lean")).read())
    return ["Bp.%s.%s" % (pid, n) for n in re.findall(r"^\s*theorem\s+([A-Za-z0-9_'.]+)", txt, re.M)]


def audit(pid, timeout=1200, only=None):
    """#print axioms for every property theorem.  Returns dict(ok, theorems, axioms, problems, log).
    `only`: the property modules that built (theorems of the others are listed but get no axiom report)"""
    thms = property_theorems(pid)
    mods = property_modules(pid) if only is None else [m for m in property_modules(pid) if m in only]
    asked = [t for m in mods for t in module_theorems(pid, m)]
    os.makedirs(os.path.join(LEAN, ".audit"), exist_ok=True)
    path = os.path.join(LEAN, ".audit", "Audit_%s_%d.lean" % (pid, os.getpid()))
    with open(path, "w") as f:
        for mod in mods:
            f.write("import BpProofs.Props.%s\n" % mod)
        for t in asked:
            f.write("#print axioms %s\n" % t)
    try:
        rc, out, _ = sh(["lake", "env", "lean", path], cwd=LEAN, timeout=timeout)
        if rc != 0 and "environment already contains" in out and len(mods) > 1:
            # two property modules import semantic preludes that define the same name (each prelude belongs to one
            # translator; they are not meant to be imported together): audit the modules one by one instead
            rc, out = 0, ""
            for mod in mods:
                with open(path, "w") as f:
                    f.write("import BpProofs.Props.%s\n" % mod)
                    for t in module_theorems(pid, mod):
                        f.write("#print axioms %s\n" % t)
                rc1, out1, _ = sh(["lake", "env", "lean", path], cwd=LEAN, timeout=timeout)
                rc, out = rc or rc1, out + out1
    finally:
        try:
            os.unlink(path)
        except OSError:
            pass
    axioms = {}
    problems = []
    # output: "'Bp.C16.size_eq' depends on axioms: [propext, Quot.sound]" or "... does not depend on any axioms"
    for m in re.finditer(r"'([^']+)' depends on axioms: \[([^\]]*)\]", out.replace("\n", " ")):
        axioms[m.group(1)] = [a.strip() for a in m.group(2).split(",") if a.strip()]
    for m in re.finditer(r"'([^']+)' does not depend on any axioms", out):
        axioms[m.group(1)] = []
    for t in thms:
        if t not in axioms:
            problems.append("no axiom report for %s" % t)
        else:
            bad = [a for a in axioms[t] if a not in ALLOWED_AXIOMS]
            if bad:
                problems.append("%s depends on %s" % (t, bad))
    if rc != 0:
        problems.append("audit file failed to elaborate")
    hits = grep_forbidden()
    if hits:
        problems.append("forbidden tokens: " + "; ".join(hits[:5]))
    if not thms:
        problems.append("no property theorems found")
    return {"ok": not problems, "theorems": thms, "axioms": axioms, "problems": problems, "log": out[-4000:]}


def source_translation_info():
    """what the source translators produced on this run (lean/BpProofs/Gen/Src*.lean): file, hash, translated functions"""
    out = []
    gen = os.path.join(LEAN, "BpProofs", "Gen")
    for fn in sorted(os.listdir(gen)) if os.path.isdir(gen) else []:
        if fn.startswith("Src") and fn.endswith(".lean"):
            txt = open(os.path.join(gen, fn)).read()
            out.append({"file": "lean/BpProofs/Gen/" + fn, "sha1": hashlib.sha1(txt.encode()).hexdigest()[:12],
                        "translated": re.findall(r"^def ([A-Za-z0-9_.']+)", txt, re.M),
                        "failed": re.findall(r"TRANSLATION FAILED: ([^\n]*)", txt)})
    return out


class Driver:
    """The model's executable definitions behind the line protocol."""

    def __init__(self):
        if not os.path.exists(DRIVER):
            raise RuntimeError("bpdriver not built")
        self.p = subprocess.Popen([DRIVER], stdin=subprocess.PIPE, stdout=subprocess.PIPE, text=True, bufsize=1 << 20)

    def ask(self, lines):
        """send many lines, return as many replies"""
        lines = list(lines)
        if not lines:
            return []
        for ln in lines:
            assert "\n" not in ln
        import threading
        data = "\n".join(lines) + "\nFLUSH\n"

        def w():
            self.p.stdin.write(data)
            self.p.stdin.flush()
        th = threading.Thread(target=w)
        th.start()
        out = []
        for _ in lines:
            r = self.p.stdout.readline()
            if not r:
                raise RuntimeError("driver died")
            out.append(r.rstrip("\n"))
        if self.p.stdout.readline().strip() != "flushed":
            raise RuntimeError("driver protocol out of step")
        th.join()
        return out

    def ask1(self, line):
        return self.ask([line])[0]

    def close(self):
        try:
            self.p.stdin.close()
            self.p.wait(timeout=10)
        except Exception:
            self.p.kill()


def is_err(reply):
    return reply.startswith("ERR")


class Check:
    """One run of one property's check."""

    def __init__(self, pid, tier, seed):
        self.pid = pid
        self.tier = tier
        self.seed = seed
        self.rng = random.Random((seed << 8) ^ int(hashlib.sha1(pid.encode()).hexdigest()[:6], 16))
        self.t0 = time.time()
        self.evaluations = 0
        self.hashes = set()
        self.samples = []
        self.dist = {}
        self.corr_disagreements = []   # (what, input, model, impl)
        self.oracle_failures = []      # dict(kind=..., input=..., detail=...)
        self.notes = []
        self.proof = None
        self.extra = {}
        self.known = load_known(pid)

    # ---- accounting
    def count(self, key, n=1):
        self.dist[key] = self.dist.get(key, 0) + n

    def case(self, line, nontrivial=True, sample=None):
        self.evaluations += 1
        if nontrivial:
            self.hashes.add(hashlib.sha1(line.encode()).digest()[:8])
        if sample is not None and len(self.samples) < 8 and self.rng.random() < 0.05 or (sample is not None and not self.samples):
            self.samples.append(sample)

    def disagree(self, what, inp, model, impl):
        if len(self.corr_disagreements) < 50:
            self.corr_disagreements.append({"what": what, "input": inp, "model": model, "impl": impl})

    def fail(self, kind, inp, detail):
        """an oracle failure on the real implementation"""
        if len(self.oracle_failures) < 200:
            self.oracle_failures.append({"kind": kind, "input": inp, "detail": detail})


def load_known(pid=None):
    p = os.path.join(ROOT, "known_findings.json")
    entries = []
    if os.path.exists(p):
        with open(p) as f:
            entries += json.load(f).get("findings", [])
    kd = os.path.join(ROOT, "known")       # per-property fragments (merged into the main file when integrated)
    if os.path.isdir(kd):
        for fn in sorted(os.listdir(kd)):
            if fn.endswith(".json"):
                with open(os.path.join(kd, fn)) as f:
                    entries += json.load(f)
    seen, out = set(), []
    for e in entries:
        key = (e.get("id"), tuple(e.get("properties", [e.get("property")])))
        if key in seen:
            continue
        seen.add(key)
        if pid is None or pid in e.get("properties", [e.get("property")]):
            out.append(e)
    return out


def write_replay(pid, kind, payload):
    os.makedirs(os.path.join(ROOT, "replays"), exist_ok=True)
    body = dict(payload)
    body["property"] = pid
    body["kind"] = kind
    txt = json.dumps(body, indent=1, sort_keys=True, default=str)
    h = hashlib.sha1(txt.encode()).hexdigest()[:10]
    path = os.path.join(ROOT, "replays", "%s-%s.json" % (pid, h))
    with open(path, "w") as f:
        f.write(txt)
    return os.path.relpath(path, ROOT)


def write_evidence(chk, violations, extra_assumptions=()):
    proof = chk.proof or {"theorems": [], "axioms": {}, "ok": False, "problems": ["not run"]}
    thms = proof["theorems"]
    discharged = [t for t in thms if t in proof["axioms"] and all(a in ALLOWED_AXIOMS for a in proof["axioms"][t])]
    if not proof.get("built", True):
        discharged = []
    cov = {
        "obligations": len(thms),
        "discharged": len(discharged),
        "checker_cmd": "cd lean && lake build BpProofs.Props.%s && lake env lean <generated #print axioms file>" % chk.pid,
        "trusted_base": TRUSTED_BASE + list(chk.extra.get("trusted_base", [])),
        "theorems": [{"name": t, "axioms": proof["axioms"].get(t)} for t in thms],
        "proof_problems": proof.get("problems", []),
        "evaluations": chk.evaluations,
        "distinct_nontrivial": len(chk.hashes),
        "rule": chk.extra.get("rule", ""),
        "samples": chk.samples[:8] or [{"theorem": t} for t in thms[:3]],
        "input_distribution": chk.dist,
        "correspondence_disagreements": len(chk.corr_disagreements),
        "oracle_failures": len(chk.oracle_failures),
        "known_findings_printed": chk.extra.get("known_printed", []),
        "tree": repo_id(),
    }
    for k in ("exhaustive_exploration", "explanation", "partial", "statements", "source_translation"):
        if k in chk.extra:
            cov[k] = chk.extra[k]
    ev = {
        "property_id": chk.pid,
        "tier": chk.tier,
        "seed": chk.seed,
        "level": "proof",
        "coverage": cov,
        "assumptions": list(chk.extra.get("assumptions", [])) + list(extra_assumptions),
        "wall_s": round(time.time() - chk.t0, 2),
        "violations": violations,
    }
    os.makedirs(os.path.join(ROOT, "evidence"), exist_ok=True)
    with open(os.path.join(ROOT, "evidence", chk.pid + ".json"), "w") as f:
        json.dump(ev, f, indent=1, default=str)
    return ev
