"""Per-area extractor for the Plugin area (C03): regenerates

  lean/BpModel/Gen/Descriptors.lean   (message, field, number, proto_type, repeated?) of every class of the four
                                      bundled descriptor libraries (lib/std/google/protobuf, .../compiler and the
                                      pydantic twins) and the same rows of google.protobuf's own descriptor_pb2 /
                                      plugin_pb2 / well-known-type DESCRIPTORs (the reference)
  lean/BpModel/Gen/PluginTables.lean  the finite tables of the plugin's field compiler, *evaluated on the working
                                      tree*: FieldCompiler.field_type / py_type for the 18 descriptor types,
                                      FieldDescriptorProtoType names, the `*_field` constructors and TYPE_* constants
                                      of the runtime, FieldCompiler.field_wraps and get_type_reference evaluated on
                                      every well-known type name

called by harness/extract.py on every run (main(write_if_changed, GEN))."""
import ast
import dataclasses
import importlib
import os
import sys
import types

CTOR = {
    "enum": ".enum", "bool": ".bool", "int32": ".int32", "int64": ".int64", "uint32": ".uint32",
    "uint64": ".uint64", "sint32": ".sint32", "sint64": ".sint64", "float": ".float", "double": ".double",
    "fixed32": ".fixed32", "sfixed32": ".sfixed32", "fixed64": ".fixed64", "sfixed64": ".sfixed64",
    "string": ".string", "bytes": ".bytes", "message": ".message", "map": ".map",
}

LIBS = [  # (lean name, module, proto package)
    ("bundledStd", "betterproto.lib.std.google.protobuf", "google.protobuf"),
    ("bundledStdCompiler", "betterproto.lib.std.google.protobuf.compiler", "google.protobuf.compiler"),
    ("bundledPydantic", "betterproto.lib.pydantic.google.protobuf", "google.protobuf"),
    ("bundledPydanticCompiler", "betterproto.lib.pydantic.google.protobuf.compiler", "google.protobuf.compiler"),
]

REF_MODULES = ["descriptor_pb2", "any_pb2", "api_pb2", "duration_pb2", "empty_pb2", "field_mask_pb2",
               "source_context_pb2", "struct_pb2", "timestamp_pb2", "type_pb2", "wrappers_pb2"]

REF_TYPE = {1: "double", 2: "float", 3: "int64", 4: "uint64", 5: "int32", 6: "fixed64", 7: "fixed32", 8: "bool",
            9: "string", 11: "message", 12: "bytes", 13: "uint32", 14: "enum", 15: "sfixed32", 16: "sfixed64",
            17: "sint32", 18: "sint64"}


def code(name):
    """injective encoding of an ASCII name as a natural number (kernel-friendly)"""
    return int.from_bytes(name.encode("ascii"), "big")


def chars(s):
    return "[" + ", ".join("'%s'" % ("\\'" if c == "'" else "\\\\" if c == "\\" else c) for c in s) + "]"


# ------------------------------------------------------------------ reference rows
def reference_rows():
    """{(package, flat class name): [(field name, number, type, repeated)]}, {(package, flat enum name): [(name, number)]}"""
    from google.protobuf.compiler import plugin_pb2
    mods = [importlib.import_module("google.protobuf." + m) for m in REF_MODULES] + [plugin_pb2]
    msgs, enums = {}, {}

    def walk_msg(pkg, prefix, d):
        flat = prefix + d.name
        rows = []
        for f in d.fields:
            if f.type not in REF_TYPE:
                continue  # groups: none in these files
            ty, rep = REF_TYPE[f.type], (f.is_repeated if hasattr(f, "is_repeated") else f.label == 3)
            if f.message_type is not None and f.message_type.GetOptions().map_entry:
                ty, rep = "map", False
            rows.append((f.name, f.number, ty, rep))
        if not d.GetOptions().map_entry:
            msgs[(pkg, flat)] = rows
        for e in d.enum_types:
            enums[(pkg, flat + e.name)] = [(v.name, v.number) for v in e.values]
        for n in d.nested_types:
            walk_msg(pkg, flat, n)

    for m in mods:
        fd = m.DESCRIPTOR
        for d in fd.message_types_by_name.values():
            walk_msg(fd.package, "", d)
        for e in fd.enum_types_by_name.values():
            enums[(fd.package, e.name)] = [(v.name, v.number) for v in e.values]
    return msgs, enums


# ------------------------------------------------------------------ bundled rows
def bundled_via_dataclasses(modname):
    import betterproto
    mod = importlib.import_module(modname)
    msgs, enums = {}, {}
    for name, obj in vars(mod).items():
        if not isinstance(obj, type) or obj.__module__ != modname:
            continue
        if issubclass(obj, betterproto.Message):
            rows = []
            hints = obj._type_hints()
            for f in dataclasses.fields(obj):
                meta = betterproto.FieldMetadata.get(f)
                h = hints[f.name]
                rep = getattr(h, "__origin__", None) is list
                rows.append((f.name, meta.number, meta.proto_type, rep))
            msgs[name] = rows
        elif issubclass(obj, betterproto.Enum):
            enums[name] = [(m.name, int(m.value)) for m in obj]
    return msgs, enums


def bundled_via_ast(path):
    """fallback when the module cannot be imported (the pydantic compiler twin needs pydantic v1):
    the same rows read from the class bodies"""
    tree = ast.parse(open(path).read())
    msgs, enums = {}, {}
    for node in tree.body:
        if not isinstance(node, ast.ClassDef):
            continue
        bases = [ast.unparse(b) for b in node.bases]
        if "betterproto.Message" in bases:
            rows = []
            for st in node.body:
                if isinstance(st, ast.AnnAssign) and isinstance(st.value, ast.Call):
                    fn = ast.unparse(st.value.func)
                    if fn.startswith("betterproto.") and fn.endswith("_field"):
                        ann = ast.unparse(st.annotation)
                        rows.append((st.target.id, ast.literal_eval(st.value.args[0]), fn[len("betterproto."):-len("_field")],
                                     ann.startswith("List[")))
            msgs[node.name] = rows
        elif "betterproto.Enum" in bases:
            enums[node.name] = [(st.targets[0].id, ast.literal_eval(st.value)) for st in node.body
                                if isinstance(st, ast.Assign) and isinstance(st.value, (ast.Constant, ast.UnaryOp))]
    return msgs, enums


def bundled_rows(modname):
    try:
        return bundled_via_dataclasses(modname), "dataclasses.fields"
    except Exception as e:  # noqa
        import betterproto
        path = os.path.join(os.path.dirname(betterproto.__file__), *modname.split(".")[1:], "__init__.py")
        return bundled_via_ast(path), "ast (import failed: %s)" % type(e).__name__


def descriptors():
    ref_msgs, ref_enums = reference_rows()
    out = ["import BpModel.PType",
           "/- GENERATED by harness/extract_plugin.py from src/betterproto/lib/{std,pydantic}/google/protobuf[/compiler]",
           "   and from google.protobuf's own DESCRIPTORs (the reference) -- do not edit.",
           "   Names are encoded as natural numbers (big-endian ASCII) so that the kernel compares them cheaply. -/",
           "namespace Bp.Gen.Desc", "",
           "structure FRow where",
           "  name : Nat",
           "  num : Nat",
           "  ty : PType",
           "  rep : Bool",
           "  deriving DecidableEq, Repr", "",
           "/-- enum member: number, encoded name, length of the name -/",
           "structure ERow where",
           "  num : Int",
           "  name : Nat",
           "  len : Nat",
           "  deriving DecidableEq, Repr", ""]
    # message / enum ids: index into the reference lists
    mkeys = sorted(ref_msgs)
    ekeys = sorted(ref_enums)
    mid = {k: i for i, k in enumerate(mkeys)}
    eid = {k: i for i, k in enumerate(ekeys)}

    def frow(r):
        return "⟨%d, %d, %s, %s⟩" % (code(r[0]), r[1], CTOR[r[2]], "true" if r[3] else "false")

    def erow(r):
        return "⟨%d, %d, %d⟩" % (r[1], code(r[0]), len(r[0]))

    out.append("/-- reference message names; the index is the message id used below -/")
    out.append("def messageNames : List String := [" + ", ".join('"%s.%s"' % k for k in mkeys) + "]")
    out.append("def enumNames : List String := [" + ", ".join('"%s.%s"' % k for k in ekeys) + "]")
    out.append("")
    out.append("/-- rows of the reference DESCRIPTORs, by message id -/")
    out.append("def reference : List (List FRow) := [")
    out.append(",\n".join("  /- %d %s.%s -/ [%s]" % (mid[k], k[0], k[1], ", ".join(frow(r) for r in ref_msgs[k])) for k in mkeys))
    out.append("]")
    out.append("def referenceEnums : List (List ERow) := [")
    out.append(",\n".join("  /- %d %s.%s -/ [%s]" % (eid[k], k[0], k[1], ", ".join(erow(r) for r in ref_enums[k])) for k in ekeys))
    out.append("]")
    out.append("")
    notes = []
    for lean, modname, pkg in LIBS:
        (msgs, enums), how = bundled_rows(modname)
        notes.append("%s: %s" % (modname, how))
        unmatched = [n for n in msgs if (pkg, n) not in mid] + [n for n in enums if (pkg, n) not in eid]
        out.append("/-- `%s` read via %s; classes without a reference counterpart: %s -/" % (modname, how, unmatched or "none"))
        out.append("def %s : List (Nat × List FRow) := [" % lean)
        out.append(",\n".join("  /- %s -/ (%d, [%s])" % (n, mid[(pkg, n)], ", ".join(frow(r) for r in rows))
                              for n, rows in msgs.items() if (pkg, n) in mid))
        out.append("]")
        out.append("def %sEnums : List (Nat × List ERow) := [" % lean)
        out.append(",\n".join("  /- %s -/ (%d, [%s])" % (n, eid[(pkg, n)], ", ".join(erow(r) for r in rows))
                              for n, rows in enums.items() if (pkg, n) in eid))
        out.append("]")
        out.append("")
    out.append("end Bp.Gen.Desc")
    return "\n".join(out) + "\n", notes


# ------------------------------------------------------------------ plugin tables
def plugin_tables():
    import betterproto
    from betterproto.compile.importing import WRAPPER_TYPES, get_type_reference
    from betterproto.lib.google.protobuf import FieldDescriptorProto, FieldDescriptorProtoType
    from betterproto.plugin import models
    from betterproto.plugin.typing_compiler import DirectImportTypingCompiler

    def stub(type_no, type_name=""):
        """a FieldCompiler that bypasses __post_init__ (no parent registration), with a bare output file"""
        fc = object.__new__(models.FieldCompiler)
        fc.proto_obj = FieldDescriptorProto(name="x", number=1, type=type_no, type_name=type_name)
        fc.typing_compiler = DirectImportTypingCompiler()
        of = object.__new__(models.OutputTemplate)
        of.package_proto_obj = types.SimpleNamespace(package="zzz")
        of.imports_end = set()
        of.pydantic_dataclasses = False
        fc.parent = of
        return fc

    out = ["import BpModel.PType",
           "/- GENERATED by harness/extract_plugin.py by evaluating the plugin's field compiler and the runtime's",
           "   field constructors on the working tree -- do not edit -/",
           "namespace Bp.Gen.Plugin", ""]
    members = sorted(int(m.value) for m in FieldDescriptorProtoType)
    out.append("/-- `FieldDescriptorProtoType(n).name` (used by MapEntryCompiler for the TYPE_ constants) -/")
    out.append("def descTypeName : List (Nat × List Char) := [" + ", ".join(
        "(%d, %s)" % (n, chars(FieldDescriptorProtoType(n).name)) for n in members) + "]")
    out.append("/-- `FieldCompiler.field_type` evaluated for every descriptor type -/")
    out.append("def fieldTypeStr : List (Nat × List Char) := [" + ", ".join(
        "(%d, %s)" % (n, chars(stub(n).field_type)) for n in members) + "]")
    # py_type of the non-message types (PROTO_*_TYPES tuples), evaluated
    rows = []
    for n in members:
        if n in tuple(int(x) for x in models.PROTO_MESSAGE_TYPES):
            continue
        try:
            rows.append("(%d, %s)" % (n, chars(stub(n).py_type)))
        except NotImplementedError:
            pass
    out.append("/-- `FieldCompiler.py_type` for the types that are not in PROTO_MESSAGE_TYPES (others raise NotImplementedError) -/")
    out.append("def scalarPyType : List (Nat × List Char) := [" + ", ".join(rows) + "]")
    out.append("def messageTypes : List Nat := [" + ", ".join(str(int(x)) for x in models.PROTO_MESSAGE_TYPES) + "]")
    # runtime constructors: betterproto.<x>_field -> proto_type of the metadata it attaches
    rows = []
    for n in sorted(dir(betterproto)):
        if n.endswith("_field") and n != "dataclass_field":
            fn = getattr(betterproto, n)
            fld = fn(1, "k", "v") if n == "map_field" else fn(1)
            rows.append("(%s, %s)" % (chars(n[:-len("_field")]), CTOR[betterproto.FieldMetadata.get(fld).proto_type]))
    out.append("/-- `betterproto.<x>_field(1)`: proto_type of the FieldMetadata it attaches -/")
    out.append("def fieldCtors : List (List Char × PType) := [" + ", ".join(rows) + "]")
    import inspect
    out.append("/-- constructors whose signature has a `wraps` / `optional` / `group` parameter -/")
    for kw in ("wraps", "optional", "group"):
        out.append("def ctorsWith%s : List (List Char) := [" % kw.capitalize() + ", ".join(
            chars(n[:-len("_field")]) for n in sorted(dir(betterproto))
            if n.endswith("_field") and n != "dataclass_field" and kw in inspect.signature(getattr(betterproto, n)).parameters) + "]")
    out.append("/-- module constants `betterproto.TYPE_*` -/")
    out.append("def typeConsts : List (List Char × PType) := [" + ", ".join(
        "(%s, %s)" % (chars(n), CTOR[getattr(betterproto, n)]) for n in sorted(dir(betterproto))
        if n.startswith("TYPE_") and isinstance(getattr(betterproto, n), str) and getattr(betterproto, n) in CTOR) + "]")
    # field_wraps and get_type_reference evaluated on every well-known message name (+ the WRAPPER_TYPES keys)
    ref_msgs, _ = reference_rows()
    names = sorted({".%s.%s" % (k[0], k[1]) for k in ref_msgs if k[0] == "google.protobuf"} | set(WRAPPER_TYPES))
    wraps, unwrap = [], []
    for tn in names:
        w = stub(11, tn).field_wraps
        if w is not None:
            assert w.startswith("betterproto."), w
            cls = WRAPPER_TYPES.get(tn)
            vt = None
            if cls is not None:
                fs = dataclasses.fields(cls)
                if len(fs) == 1 and fs[0].name == "value" and betterproto.FieldMetadata.get(fs[0]).number == 1:
                    vt = betterproto.FieldMetadata.get(fs[0]).proto_type
            wraps.append("(%s, %s, %s)" % (chars(tn), chars(w[len("betterproto."):]),
                                           "some " + CTOR[vt] if vt else "none"))
        r = get_type_reference(package="zzz", imports=set(), source_type=tn, typing_compiler=DirectImportTypingCompiler())
        if r.startswith("Optional[") and r.endswith("]"):
            unwrap.append("(%s, 0, %s)" % (chars(tn), chars(r[len("Optional["):-1])))
        elif r == "timedelta":
            unwrap.append("(%s, 1, [])" % chars(tn))
        elif r == "datetime":
            unwrap.append("(%s, 2, [])" % chars(tn))
        elif not r.startswith('"'):
            raise SystemExit("get_type_reference(%s) = %r: shape not understood" % (tn, r))
    out.append("/-- `FieldCompiler.field_wraps` evaluated on every well-known type name: the names for which it is not None,")
    out.append("    the TYPE_ constant it names, and the proto type of field #1 `value` of the bundled wrapper class -/")
    out.append("def fieldWraps : List (List Char × List Char × Option PType) := [" + ", ".join(wraps) + "]")
    out.append("/-- `get_type_reference(unwrap=True)` evaluated on every well-known type name: the names it does not turn into a")
    out.append("    class reference; kind 0 = Optional[<python type>], 1 = timedelta, 2 = datetime -/")
    out.append("def unwrapTable : List (List Char × Nat × List Char) := [" + ", ".join(unwrap) + "]")
    out.append("/- evaluated on %d well-known message names -/" % len(names))
    out.append("")
    out.append("end Bp.Gen.Plugin")
    return "\n".join(out) + "\n"


def main(write_if_changed, GEN):
    changed = []
    text, notes = descriptors()
    if write_if_changed(os.path.join(GEN, "Descriptors.lean"), text):
        changed.append("Descriptors.lean")
    if write_if_changed(os.path.join(GEN, "PluginTables.lean"), plugin_tables()):
        changed.append("PluginTables.lean")
    return changed


if __name__ == "__main__":
    sys.path.insert(0, os.path.dirname(os.path.abspath(__file__)))
    import extract
    print(main(extract.write_if_changed, extract.GEN))
