"""SOURCE TRANSLATOR: Python AST of the codec primitives of /repo/src/betterproto/__init__.py -> Lean definitions.

On every run (it is one of the extract_*.py translators that `lake_build` calls) the functions and code fragments
listed in WHOLE / FRAGMENTS below are read from the WORKING TREE with `ast`, translated statement by statement into
pure Lean functions over the vocabulary of lean/BpProofs/PyPrelude.lean and written to
lean/BpProofs/Gen/SrcCodec.lean.  lean/BpProofs/SrcTie.lean proves that each translated function equals the
hand-written model function the property theorems are about (Props/C16Src.lean states those equalities as property
obligations), so a change of the source that changes what one of these functions computes breaks a proof obligation
on the next run, whatever the sampled correspondence happens to visit.

Supported subset (anything else raises Unsupported, which is reported in the generated file and breaks the tie):
  int / bytes / bool locals; if / elif / else; raise; return (also tuples); assignment, tuple assignment, augmented
  assignment; while; `for x in count(a, step)`; `with BytesIO(...) as s`; `s.write / s.read / s.seek / s.getvalue`;
  + - * // % ** << >> & | ^ ~ unary -, comparisons, not / and / or on pure operands, `a or <read>` on bytes,
  conditional expressions; `x.to_bytes(1, "little")`, `int.from_bytes(b, byteorder="little")`, `x.bit_length()`,
  `math.ceil(a / b)`, `len(b)`, `int(x)`; calls of other translated functions.
Loops become fuel-recursive auxiliary functions returning `Py.Res`: `.diverge` when the fuel runs out.
"""
import ast
import os
import textwrap

HERE = os.path.dirname(os.path.abspath(__file__))
REPO = os.environ.get("VERIF_REPO", "/repo")
SRC = os.path.join(REPO, "src", "betterproto", "__init__.py")


class Unsupported(Exception):
    pass


EXC = {"ValueError": ".value", "EOFError": ".eof", "OverflowError": ".overflow", "NotImplementedError": ".notImpl",
       "TypeError": ".type", "KeyError": ".key", "AttributeError": ".attr", "AssertionError": ".assertion"}

LEAN_TY = {"int": "Int", "bytes": "Bytes", "bool": "Bool", "stream": "Bytes", "none": "Unit", "pfields": "(List PField)", "pfield": "PField", "ptype": "PType"}
# types of a THREADED parameter (a mutable object the function changes: its state is passed in and handed back);
# other translators (extract_srcimp.py: the `imports` set) register theirs here and in LEAN_TY
STREAM_TYS = {"stream"}
# module-level collections of proto types: regenerated as Gen.* by harness/extract.py (WireTables.lean)
TYPE_TABLES = {"WIRE_VARINT_TYPES": "Gen.wireVarintTypes", "WIRE_FIXED_32_TYPES": "Gen.wireFixed32Types",
               "WIRE_FIXED_64_TYPES": "Gen.wireFixed64Types", "WIRE_LEN_DELIM_TYPES": "Gen.wireLenDelimTypes",
               "FIXED_TYPES": "Gen.fixedTypes", "PACKED_TYPES": "Gen.packedTypes", "INT_64_TYPES": "Gen.int64Types"}
OUT = "yielded"     # accumulator of a generator function: the list of values yielded so far
RESERVED = {"from", "at", "end", "open", "in", "let", "have", "show", "fun", "do", "then", "else", "if", "match", "with",
            "def", "theorem", "by", "where", "local", "section", "namespace", "instance", "class", "structure", "mut", "meta"}


def lty(t):
    if isinstance(t, tuple):
        return "(" + " × ".join(lty(x) for x in t) + ")"
    return LEAN_TY[t]


def nm(s):
    return s + "'" if s in RESERVED else s


class Sig:
    def __init__(self, name, params, ret, stream, stream_ty="stream"):
        self.name, self.params, self.ret, self.stream = name, params, ret, stream  # params: [(name, type, default_src)]
        self.stream_ty = stream_ty      # type (key of LEAN_TY) of the threaded parameter `stream`

    def lean_ret(self):
        if self.stream is None:
            return lty(self.ret)
        if self.ret == "none":
            return lty(self.stream_ty)
        return "(%s × %s)" % (lty(self.ret), lty(self.stream_ty))


def ann_type(a):
    if a is None:
        return None
    s = ast.unparse(a)
    s = s.strip("\"'")
    return {"int": "int", "bytes": "bytes", "bool": "bool", "None": "none", "Tuple[int, bytes]": ("int", "bytes"),
            "Tuple[int, int]": ("int", "int"), "SupportsWrite[bytes]": "stream", "SupportsRead[bytes]": "stream",
            "Generator[ParsedField, None, None]": "pfields"}.get(s)


class Tr:
    """translator of one function body"""

    def __init__(self, sigs, sig, consts):
        self.sigs, self.sig, self.consts = sigs, sig, consts
        self.aux = []      # auxiliary (loop) definitions, Lean text
        self.nloop = 0
        self.ntmp = 0

    # ---------------------------------------------------------------- expressions
    def tmp(self):
        self.ntmp += 1
        return "t%d" % self.ntmp

    def expr(self, e, env):
        """-> (binds, text, type); binds = [('let'|'bind', pattern, text)] to run first (in order)"""
        if isinstance(e, ast.Constant):
            v = e.value
            if isinstance(v, bool):
                return [], "true" if v else "false", "bool"
            if isinstance(v, int):
                return [], "(%d : Int)" % v, "int"
            if isinstance(v, bytes):
                return [], "([%s] : Bytes)" % ", ".join(str(b) for b in v), "bytes"
            if v is None:
                return [], "()", "none"
            raise Unsupported("constant %r" % (v,))
        if isinstance(e, ast.Name):
            if e.id in env:
                return [], nm(e.id), env[e.id]
            if e.id in self.consts:
                return [], "(%d : Int)" % self.consts[e.id], "int"
            raise Unsupported("unknown name %s" % e.id)
        if isinstance(e, ast.Tuple):
            bs, ts, tys = [], [], []
            for x in e.elts:
                b, t, ty = self.expr(x, env)
                bs += b
                ts.append(t)
                tys.append(ty)
            return bs, "(" + ", ".join(ts) + ")", tuple(tys)
        if isinstance(e, ast.BinOp):
            if isinstance(e.op, ast.Pow):
                try:
                    v = eval(compile(ast.Expression(e), "<const>", "eval"), {"__builtins__": {}}, {})
                    return [], "(%d : Int)" % v, "int"
                except Exception:
                    raise Unsupported("non-constant power")
            b1, a, ta = self.expr(e.left, env)
            b2, b, tb = self.expr(e.right, env)
            op = type(e.op).__name__
            if ta == "bytes" and tb == "bytes" and op == "Add":
                return b1 + b2, "(%s ++ %s)" % (a, b), "bytes"
            if ta != "int" or tb != "int":
                raise Unsupported("operator %s on %s, %s" % (op, ta, tb))
            if op in ("FloorDiv", "Mod"):
                if not (isinstance(e.right, ast.Constant) and isinstance(e.right.value, int) and e.right.value > 0) and \
                        not self.const_positive(e.right):
                    raise Unsupported("// or % by something that is not a positive constant")
            fmt = {"Add": "(%s + %s)", "Sub": "(%s - %s)", "Mult": "(%s * %s)", "FloorDiv": "(%s / %s)", "Mod": "(%s %% %s)",
                   "LShift": "(Py.shl %s %s)", "RShift": "(Py.shr %s %s)", "BitAnd": "(Py.and %s %s)",
                   "BitOr": "(Py.or %s %s)", "BitXor": "(Py.xor %s %s)"}.get(op)
            if fmt is None:
                raise Unsupported("operator " + op)
            return b1 + b2, fmt % (a, b), "int"
        if isinstance(e, ast.UnaryOp):
            b1, a, ta = self.expr(e.operand, env)
            if isinstance(e.op, ast.Invert) and ta == "int":
                return b1, "(Py.inv %s)" % a, "int"
            if isinstance(e.op, ast.USub) and ta == "int":
                return b1, "(-%s)" % a, "int"
            if isinstance(e.op, ast.Not):
                return b1, "(!%s)" % self.truthy(a, ta), "bool"
            raise Unsupported("unary operator")
        if isinstance(e, ast.Compare) and len(e.ops) == 1 and isinstance(e.ops[0], ast.In):
            b1, a, ta = self.expr(e.left, env)
            tbl = e.comparators[0]
            if ta != "ptype" or not isinstance(tbl, ast.Name) or tbl.id not in TYPE_TABLES:
                raise Unsupported("membership test " + ast.unparse(e))
            return b1, "(%s.contains %s)" % (TYPE_TABLES[tbl.id], a), "bool"
        if isinstance(e, ast.Compare):
            parts = []
            binds = []
            left = e.left
            for op, right in zip(e.ops, e.comparators):
                b1, a, ta = self.expr(left, env)
                b2, b, tb = self.expr(right, env)
                binds += b1 + b2
                sym = {"Lt": "<", "LtE": "≤", "Gt": ">", "GtE": "≥", "Eq": "=", "NotEq": "≠"}.get(type(op).__name__)
                if sym is None or ta != tb or ta not in ("int", "bytes"):
                    raise Unsupported("comparison %s on %s, %s" % (type(op).__name__, ta, tb))
                if ta == "bytes" and sym not in ("=", "≠"):
                    raise Unsupported("ordering of bytes")
                parts.append("decide (%s %s %s)" % (a, sym, b))
                left = right
            return binds, "(" + " && ".join(parts) + ")", "bool"
        if isinstance(e, ast.BoolOp):
            vals = [self.expr(v, env) for v in e.values]
            if any(b for b, _, _ in vals):
                raise Unsupported("and / or with an effectful operand (only `x = a or <read>` is handled, as a statement)")
            sym = " && " if isinstance(e.op, ast.And) else " || "
            return [], "(" + sym.join(self.truthy(t, ty) for _, t, ty in vals) + ")", "bool"
        if isinstance(e, ast.IfExp):
            bc, c, tc = self.expr(e.test, env)
            b1, a, ta = self.expr(e.body, env)
            b2, b, tb = self.expr(e.orelse, env)
            if b1 or b2 or ta != tb:
                raise Unsupported("conditional expression with effects / mixed types")
            return bc, "(if %s then %s else %s)" % (self.truthy(c, tc), a, b), ta
        if isinstance(e, ast.Call):
            return self.call(e, env)
        raise Unsupported("expression " + type(e).__name__)

    def const_positive(self, e):
        try:
            return eval(compile(ast.Expression(e), "<const>", "eval"), {"__builtins__": {}}, dict(self.consts)) > 0
        except Exception:
            return False

    def truthy(self, text, ty):
        if ty == "bool":
            return text
        if ty == "int":
            return "decide (%s ≠ 0)" % text
        if ty == "bytes":
            return "(!(%s).isEmpty)" % text
        raise Unsupported("truth value of " + str(ty))

    def call(self, e, env):
        f = e.func
        src = ast.unparse(f)
        if isinstance(f, ast.Attribute):
            # methods
            if f.attr == "to_bytes":
                args = [ast.unparse(a) for a in e.args] + ["%s=%s" % (k.arg, ast.unparse(k.value)) for k in e.keywords]
                if args not in (["1", "'little'"], ["1", "byteorder='little'"]):
                    raise Unsupported("to_bytes" + repr(args))
                b, a, ta = self.expr(f.value, env)
                t = self.tmp()
                return b + [("bind", t, "Py.toBytes1 %s" % a)], t, "bytes"
            if src == "int.from_bytes":
                kw = {k.arg: ast.unparse(k.value) for k in e.keywords}
                if len(e.args) != 1 or kw != {"byteorder": "'little'"}:
                    raise Unsupported("int.from_bytes arguments")
                b, a, ta = self.expr(e.args[0], env)
                if ta != "bytes":
                    raise Unsupported("int.from_bytes of " + str(ta))
                return b, "(Py.fromBytesLE %s)" % a, "int"
            if f.attr == "bit_length" and not e.args:
                b, a, ta = self.expr(f.value, env)
                return b, "(Py.bitLength %s)" % a, "int"
            if src == "math.ceil" and len(e.args) == 1 and isinstance(e.args[0], ast.BinOp) and isinstance(e.args[0].op, ast.Div):
                b1, a, ta = self.expr(e.args[0].left, env)
                b2, b, tb = self.expr(e.args[0].right, env)
                if ta != "int" or tb != "int" or not self.const_positive(e.args[0].right):
                    raise Unsupported("math.ceil(a / b) with non-int a or non-positive-constant b")
                return b1 + b2, "(Py.ceilDiv %s %s)" % (a, b), "int"
            if isinstance(f.value, ast.Name) and env.get(f.value.id) == "stream":
                s = nm(f.value.id)
                if f.attr == "read" and len(e.args) == 1:
                    b, n, tn = self.expr(e.args[0], env)
                    t = self.tmp()
                    return b + [("let", t, "Py.take %s %s" % (s, n)), ("let", s, "Py.drop %s %s" % (s, n))], t, "bytes"
                if f.attr == "getvalue" and not e.args:
                    return [], s, "bytes"
            raise Unsupported("method call " + src)
        if isinstance(f, ast.Name):
            if f.id == "len" and len(e.args) == 1:
                b, a, ta = self.expr(e.args[0], env)
                if ta != "bytes":
                    raise Unsupported("len of " + str(ta))
                return b, "(Py.len %s)" % a, "int"
            if f.id == "bytearray" and not e.args and not e.keywords:
                return [], "([] : Bytes)", "bytes"
            if f.id in ("bytes", "bytearray") and len(e.args) == 1:
                b, a, ta = self.expr(e.args[0], env)
                if ta != "bytes":
                    raise Unsupported("%s() of %s" % (f.id, ta))
                return b, a, "bytes"
            if f.id == "int" and len(e.args) == 1:
                b, a, ta = self.expr(e.args[0], env)
                if ta != "int":
                    raise Unsupported("int() of " + str(ta))
                return b, a, "int"
            if f.id == "ParsedField" and not e.args:
                kw = {k.arg: k.value for k in e.keywords}
                if sorted(kw) != ["number", "raw", "value", "wire_type"]:
                    raise Unsupported("ParsedField arguments")
                bn, n, tn = self.expr(kw["number"], env)
                bw, w, tw = self.expr(kw["wire_type"], env)
                bv, v, tv = self.expr(kw["value"], env)
                br, r, tr_ = self.expr(kw["raw"], env)
                if tn != "int" or tw != "int" or tr_ != "bytes" or tv not in ("int", "bytes"):
                    raise Unsupported("ParsedField(number: %s, wire_type: %s, value: %s, raw: %s)" % (tn, tw, tv, tr_))
                vint, payload = (v + ".toNat", "[]") if tv == "int" else ("0", v)
                return bn + bw + bv + br, "({ num := %s.toNat, wt := %s.toNat, vint := %s, payload := %s, raw := %s } : PField)" % (n, w, vint, payload, r), "pfield"
            if f.id in self.sigs:
                sg = self.sigs[f.id]
                binds, args = [], []
                given = list(e.args)
                kw = {k.arg: k.value for k in e.keywords}
                stream_arg = None
                for i, (pn, pt, pd) in enumerate(sg.params):
                    if i < len(given):
                        a = given[i]
                    elif pn in kw:
                        a = kw[pn]
                    elif pd is not None:
                        a = pd
                    else:
                        raise Unsupported("missing argument %s of %s" % (pn, f.id))
                    b, t, ty = self.expr(a, env)
                    if (ty in STREAM_TYS) != (pt in STREAM_TYS) or ty != pt:
                        raise Unsupported("argument %s of %s has type %s, expected %s" % (pn, f.id, ty, pt))
                    if pt in STREAM_TYS:
                        if not isinstance(a, ast.Name):
                            raise Unsupported("stream argument must be a variable")
                        stream_arg = nm(a.id)
                    binds += b
                    args.append(t)
                t = self.tmp()
                callee = "%s fuel %s" % (f.id, " ".join(args))
                if sg.stream is None:
                    return binds + [("bind", t, callee)], t, sg.ret
                if sg.ret == "none":
                    return binds + [("bind", stream_arg, callee)], "()", "none"
                return binds + [("bind", "(%s, %s)" % (t, stream_arg), callee)], t, sg.ret
        raise Unsupported("call of " + src)

    # ---------------------------------------------------------------- statements
    @staticmethod
    def wrap(binds, body):
        """prefix `body` (Lean text) with the binds"""
        out = body
        for kind, pat, txt in reversed(binds):
            if kind == "let":
                out = "let %s := %s\n%s" % (pat, txt, out)
            else:
                out = "(%s).bind fun %s =>\n%s" % (txt, pat, out)
        return out

    def assigned(self, stmts, env):
        """variables of env (re)bound by the statements, in env order; includes streams that are read / written"""
        names = set()

        class V(ast.NodeVisitor):
            def visit_Assign(s, n):
                for t in n.targets:
                    for x in ast.walk(t):
                        if isinstance(x, ast.Name):
                            names.add(x.id)
                s.generic_visit(n)

            def visit_AugAssign(s, n):
                if isinstance(n.target, ast.Name):
                    names.add(n.target.id)
                s.generic_visit(n)

            def visit_For(s, n):
                if isinstance(n.target, ast.Name):
                    names.add(n.target.id)
                s.generic_visit(n)

            def visit_Yield(s, n):
                names.add(OUT)
                s.generic_visit(n)

            def visit_Call(s, n):
                if isinstance(n.func, ast.Attribute) and isinstance(n.func.value, ast.Name) and n.func.attr in ("read", "write", "seek"):
                    names.add(n.func.value.id)
                if isinstance(n.func, ast.Name) and n.func.id in self.sigs and self.sigs[n.func.id].stream is not None:
                    idx = [i for i, p in enumerate(self.sigs[n.func.id].params) if p[1] in STREAM_TYS][0]
                    if idx < len(n.args) and isinstance(n.args[idx], ast.Name):
                        names.add(n.args[idx].id)
                s.generic_visit(n)
        for st in stmts:
            V().visit(st)
        return [v for v in env if v in names]

    def used(self, stmts):
        u = {x.id for st in stmts for x in ast.walk(st) if isinstance(x, ast.Name)}
        if any(isinstance(x, ast.Yield) for st in stmts for x in ast.walk(st)):
            u.add(OUT)
        return u

    def ret_text(self, val, env, in_loop):
        """text of `return <val>` (val: Lean text or None)"""
        sg = self.sig
        if sg.ret == "pfields":
            val = OUT
        if sg.stream is None:
            r = val if val is not None else "()"
        elif sg.ret == "none":
            r = nm(sg.stream)
        else:
            r = "(%s, %s)" % (val, nm(sg.stream))
        return ".ok (.ret %s)" % r if in_loop else ".ok %s" % r

    def block(self, stmts, env, k, in_loop):
        """Lean text (type: Res …) for `stmts` followed by continuation k(env) -> text"""
        if not stmts:
            return k(env)
        st, rest = stmts[0], stmts[1:]
        env = dict(env)

        def go(env2):
            return self.block(rest, env2, k, in_loop)

        if isinstance(st, ast.Expr) and isinstance(st.value, ast.Constant) and isinstance(st.value.value, str):
            return go(env)  # docstring
        if isinstance(st, ast.Pass):
            return go(env)
        if isinstance(st, ast.Raise):
            exc = st.exc.func.id if isinstance(st.exc, ast.Call) else getattr(st.exc, "id", None)
            if exc not in EXC:
                raise Unsupported("raise " + ast.unparse(st.exc))
            return ".raise " + EXC[exc]
        if isinstance(st, ast.Return):
            if st.value is None:
                if self.sig.ret not in ("none", "pfields"):
                    raise Unsupported("bare return in a function that returns a value")
                return self.ret_text(None, env, in_loop)
            b, t, ty = self.expr(st.value, env)
            if ty != self.sig.ret:
                raise Unsupported("return type %s, declared %s" % (ty, self.sig.ret))
            return self.wrap(b, self.ret_text(t, env, in_loop))
        if isinstance(st, ast.Assign):
            if len(st.targets) != 1:
                raise Unsupported("chained assignment")
            tgt = st.targets[0]
            # x = a or <effectful b>  (bytes)
            if isinstance(st.value, ast.BoolOp) and isinstance(st.value.op, ast.Or) and len(st.value.values) == 2 and isinstance(tgt, ast.Name):
                ba, a, ta = self.expr(st.value.values[0], env)
                if not ba and ta == "bytes":
                    alt = ast.Assign(targets=[tgt], value=st.value.values[1])
                    first = ast.Assign(targets=[tgt], value=st.value.values[0])
                    iff = ast.If(test=st.value.values[0], body=[first], orelse=[alt])
                    return self.block([iff] + rest, env, k, in_loop)
            b, t, ty = self.expr(st.value, env)
            if isinstance(tgt, ast.Name):
                env[tgt.id] = ty      # `x = None`: a placeholder of type Unit until a branch gives it a value
                return self.wrap(b + [("let", nm(tgt.id), t)], go(env))
            if isinstance(tgt, ast.Tuple) and isinstance(ty, tuple) and len(ty) == len(tgt.elts) and all(isinstance(x, ast.Name) for x in tgt.elts):
                for x, xt in zip(tgt.elts, ty):
                    env[x.id] = xt
                pat = "(" + ", ".join(nm(x.id) for x in tgt.elts) + ")"
                return self.wrap(b + [("let", pat, t)], go(env))
            raise Unsupported("assignment target " + ast.unparse(tgt))
        if isinstance(st, ast.AnnAssign) and isinstance(st.target, ast.Name) and st.value is not None:
            return self.block([ast.Assign(targets=[st.target], value=st.value)] + rest, env, k, in_loop)
        if isinstance(st, ast.AugAssign):
            if not isinstance(st.target, ast.Name):
                raise Unsupported("augmented assignment target")
            val = ast.BinOp(left=ast.Name(id=st.target.id, ctx=ast.Load()), op=st.op, right=st.value)
            return self.block([ast.Assign(targets=[st.target], value=val)] + rest, env, k, in_loop)
        if isinstance(st, ast.Expr) and isinstance(st.value, ast.Yield):
            if self.sig.ret != "pfields" or st.value.value is None:
                raise Unsupported("yield")
            b, t, ty = self.expr(st.value.value, env)
            if ty != "pfield":
                raise Unsupported("yield of " + str(ty))
            return self.wrap(b + [("let", OUT, "%s ++ [%s]" % (OUT, t))], go(env))
        if isinstance(st, ast.Expr) and isinstance(st.value, ast.Call):
            c = st.value
            f = c.func
            if isinstance(f, ast.Attribute) and isinstance(f.value, ast.Name) and env.get(f.value.id) == "stream":
                s = nm(f.value.id)
                if f.attr == "write" and len(c.args) == 1:
                    b, t, ty = self.expr(c.args[0], env)
                    if ty != "bytes":
                        raise Unsupported("write of " + str(ty))
                    return self.wrap(b + [("let", s, "%s ++ %s" % (s, t))], go(env))
                if f.attr == "seek" and len(c.args) == 1:
                    if not self.fresh_stream.get(f.value.id):
                        raise Unsupported("seek on a stream that is not freshly opened")
                    b, t, ty = self.expr(c.args[0], env)
                    return self.wrap(b + [("let", s, "Py.drop %s %s" % (s, t))], go(env))
            b, t, ty = self.expr(c, env)
            return self.wrap(b, go(env))
        if isinstance(st, ast.If):
            bc, c, tc = self.expr(st.test, env)
            joined = self.join_if(st, env, bc, c, tc)
            if joined is not None:
                binds, env2 = joined
                return self.wrap(binds, go(env2))
            # both branches continue with the rest of the block (duplicated): variables bound in a branch stay visible
            thn = self.block(list(st.body) + rest, env, k, in_loop)
            els = self.block(list(st.orelse) + rest, env, k, in_loop)
            return self.wrap(bc, "if %s then\n%s\nelse\n%s" % (self.truthy(c, tc), indent(thn), indent(els)))
        if isinstance(st, ast.With):
            if len(st.items) != 1:
                raise Unsupported("with")
            it = st.items[0]
            ce = it.context_expr
            if not (isinstance(ce, ast.Call) and ast.unparse(ce.func) == "BytesIO" and isinstance(it.optional_vars, ast.Name)):
                raise Unsupported("with " + ast.unparse(ce))
            var = it.optional_vars.id
            if ce.args:
                b, t, ty = self.expr(ce.args[0], env)
                if ty != "bytes":
                    raise Unsupported("BytesIO of " + str(ty))
            else:
                b, t = [], "([] : Bytes)"
            env[var] = "stream"
            self.fresh_stream[var] = True
            return self.wrap(b + [("let", nm(var), t)], self.block(list(st.body) + rest, env, k, in_loop))
        if isinstance(st, (ast.While, ast.For)):
            return self.loop(st, rest, env, k, in_loop)
        raise Unsupported("statement " + type(st).__name__)

    fresh_stream = {}

    def pure_branch(self, stmts, env, outs):
        """a branch that only (re)binds variables, without raising, returning, looping or calling anything that can
        raise: -> (Lean text of the tuple of `outs` after the branch, env after) or None"""
        env = dict(env)
        lets = []
        for st in stmts:
            if isinstance(st, ast.Pass):
                continue
            if isinstance(st, ast.AugAssign) and isinstance(st.target, ast.Name):
                st = ast.Assign(targets=[st.target], value=ast.BinOp(left=ast.Name(id=st.target.id, ctx=ast.Load()), op=st.op, right=st.value))
            if not (isinstance(st, ast.Assign) and len(st.targets) == 1):
                return None
            tgt = st.targets[0]
            if isinstance(st.value, (ast.BoolOp,)) and any(isinstance(x, ast.Call) for x in ast.walk(st.value)):
                return None
            b, t, ty = self.expr(st.value, env)
            if any(kind != "let" for kind, _, _ in b):
                return None
            if isinstance(tgt, ast.Name) and ty != "none" and not isinstance(ty, tuple):
                env[tgt.id] = ty
                lets += b + [("let", nm(tgt.id), t)]
            elif isinstance(tgt, ast.Tuple) and isinstance(ty, tuple) and len(ty) == len(tgt.elts) and all(isinstance(x, ast.Name) for x in tgt.elts):
                for x, xt in zip(tgt.elts, ty):
                    env[x.id] = xt
                lets += b + [("let", "(" + ", ".join(nm(x.id) for x in tgt.elts) + ")", t)]
            else:
                return None
        if any(o not in env for o in outs):
            return None
        tup = "(" + ", ".join(nm(o) for o in outs) + ")" if len(outs) != 1 else nm(outs[0])
        return self.wrap(lets, tup), env

    def join_if(self, st, env, bc, c, tc):
        """`if` whose branches only rebind variables: one `let (vars) := if c then … else …`, the rest of the block is
        not duplicated.  -> (binds, env after) or None when a branch does more than that"""
        if any(kind != "let" for kind, _, _ in bc):
            return None
        names = set()
        for br in (st.body, st.orelse):
            for s2 in br:
                if isinstance(s2, ast.If):
                    return None
                for x in ast.walk(s2):
                    if isinstance(x, ast.Name) and isinstance(x.ctx, ast.Store):
                        names.add(x.id)
                    if isinstance(x, ast.Call) and isinstance(x.func, ast.Attribute) and isinstance(x.func.value, ast.Name) \
                            and x.func.attr == "read" and env.get(x.func.value.id) == "stream":
                        names.add(x.func.value.id)
        # variables visible afterwards: those known before, and those bound in BOTH branches
        try:
            snap = (self.ntmp,)
            probe1 = self.pure_branch(st.body, env, [])
            probe2 = self.pure_branch(st.orelse, env, [])
        except Unsupported:
            return None
        if probe1 is None or probe2 is None:
            self.ntmp = snap[0]
            return None
        e1, e2 = probe1[1], probe2[1]
        outs = [v for v in list(env) + [v for v in e1 if v not in env] if v in names and v in e1 and v in e2]
        if not outs or any(e1[v] != e2[v] for v in outs):
            self.ntmp = snap[0]
            return None
        self.ntmp = snap[0]
        t1, _ = self.pure_branch(st.body, env, outs)
        t2, _ = self.pure_branch(st.orelse, env, outs)
        env2 = dict(env)
        for v in outs:
            env2[v] = e1[v]
        pat = "(" + ", ".join(nm(o) for o in outs) + ")" if len(outs) != 1 else nm(outs[0])
        txt = "if %s then\n%s\nelse\n%s" % (self.truthy(c, tc), indent(t1), indent(t2))
        return bc + [("let", pat, "(" + txt + ")")], env2

    def loop(self, st, rest, env, k, in_loop):
        if st.orelse:
            raise Unsupported("loop else")
        env = dict(env)
        self.nloop += 1
        lname = "%s.loop%d" % (self.sig.name, self.nloop)
        infinite = False
        body = list(st.body)
        pre = []
        if isinstance(st, ast.For):
            it = st.iter
            if not (isinstance(it, ast.Call) and ast.unparse(it.func) == "count" and len(it.args) == 2 and isinstance(st.target, ast.Name)):
                raise Unsupported("for over " + ast.unparse(it))
            b0, start, t0 = self.expr(it.args[0], env)
            b1, step, t1 = self.expr(it.args[1], env)
            if b0 or b1 or t0 != "int" or t1 != "int":
                raise Unsupported("count() arguments")
            cvar = st.target.id
            env[cvar] = "int"
            pre = [("let", nm(cvar), start)]
            cond = "true"
            infinite = True
            advance = [("let", nm(cvar), "(%s + %s)" % (nm(cvar), step))]
        else:
            bc, c, tc = self.expr(st.test, env)
            if bc:
                raise Unsupported("effectful loop condition")
            cond = self.truthy(c, tc)
            infinite = isinstance(st.test, ast.Constant) and st.test.value is True
            advance = []
        state = self.assigned(body, env)
        if isinstance(st, ast.For) and cvar not in state:
            state.append(cvar)
        state = [v for v in env if v in state]
        used = self.used(body) | ({x.id for x in ast.walk(st.test) if isinstance(x, ast.Name)} if isinstance(st, ast.While) else set())
        ro = [v for v in env if v not in state and v in used]
        params = ro + state
        for v in state:
            self.fresh_stream[v] = False
        stup = "(" + ", ".join(nm(v) for v in state) + ")" if len(state) != 1 else nm(state[0])
        sty = "(" + " × ".join(lty(env[v]) for v in state) + ")" if len(state) != 1 else lty(env[state[0]])
        fret = self.sig.lean_ret()
        rty = "Py.Res %s" % fret if infinite else "Py.Res (Py.Ctl %s %s)" % (fret, sty)

        def again(env2):
            return self.wrap(advance, "%s fuel %s" % (lname, " ".join(nm(v) for v in params)))
        btxt = self.block(body, env, again, in_loop=not infinite)
        if cond != "true":
            btxt = "if %s then\n%s\nelse\n  .ok (.next %s)" % (cond, indent(btxt), stup)
        sig_params = " ".join("(%s : %s)" % (nm(v), lty(env[v])) for v in params)
        d = "def %s (fuel : Nat) %s : %s :=\n  match fuel with\n  | 0 => .diverge\n  | fuel + 1 =>\n%s" % (
            lname, sig_params, rty, indent(btxt, 4))
        self.aux.append(d)
        callt = "%s fuel %s" % (lname, " ".join(nm(v) for v in params))
        if infinite:
            if in_loop:
                raise Unsupported("infinite loop nested in a loop")
            return self.wrap(pre, callt)
        after = self.block(rest, env, k, in_loop)
        retk = ".ok (.ret r)" if in_loop else ".ok r"
        return self.wrap(pre, "(%s).bind fun c =>\nmatch c with\n| .ret r => %s\n| .next %s =>\n%s" % (callt, retk, stup, indent(after)))

    def function(self, body, env):
        def fall_off(env2):
            if self.sig.ret not in ("none", "pfields"):
                raise Unsupported("control reaches the end of a function that returns a value")
            return self.ret_text(None, env2, False)
        self.fresh_stream = {}
        if self.sig.ret == "pfields":
            env = dict(env)
            env[OUT] = "pfields"
        txt = self.block(body, env, fall_off, False)
        if self.sig.ret == "pfields":
            txt = "let %s : List PField := []\n%s" % (OUT, txt)
        params = " ".join("(%s : %s)" % (nm(p), lty(t)) for p, t, _ in self.sig.params)
        d = "def %s (fuel : Nat) %s : Py.Res %s :=\n%s" % (self.sig.name, params, self.sig.lean_ret(), indent(txt))
        return "\n\n".join(self.aux + [d])


def indent(s, n=2):
    return textwrap.indent(s, " " * n)


# ------------------------------------------------------------------------------------------------ what is translated
WHOLE = ["dump_varint", "encode_varint", "size_varint", "load_varint", "decode_varint", "_read_exact", "load_fields"]

# fragments: (lean name, enclosing function, text of the `if` / `elif` test that selects the branch, slice of the
#             branch body, parameters [(name, type)], return: name of the variable whose final value is returned or None
#             when the fragment ends in its own `return`)
FRAGMENTS = [
    ("preprocess_sint", "_preprocess_single", "proto_type in (TYPE_SINT32, TYPE_SINT64)", (0, None), [("value", "int")], None, "bytes"),
    ("preprocess_varint", "_preprocess_single",
     "proto_type in (TYPE_ENUM, TYPE_BOOL, TYPE_INT32, TYPE_INT64, TYPE_UINT32, TYPE_UINT64)", (0, None), [("value", "int")], None, "bytes"),
    ("len_preprocessed_sint", "_len_preprocessed_single", "proto_type in (TYPE_SINT32, TYPE_SINT64)", (0, None), [("value", "int")], None, "int"),
    ("len_preprocessed_varint", "_len_preprocessed_single",
     "proto_type in (TYPE_ENUM, TYPE_BOOL, TYPE_INT32, TYPE_INT64, TYPE_UINT32, TYPE_UINT64)", (0, None), [("value", "int")], None, "int"),
    ("postprocess_int", "_postprocess_single", "meta.proto_type in (TYPE_INT32, TYPE_INT64)", (1, None), [("value", "int"), ("bits", "int")], "value", "int"),
    ("postprocess_sint", "_postprocess_single", "meta.proto_type in (TYPE_SINT32, TYPE_SINT64)", (0, None), [("value", "int")], "value", "int"),
    ("postprocess_enum", "_postprocess_single", "meta.proto_type == TYPE_ENUM", (0, 2), [("value", "int")], "value", "int"),
    ("serialize_key_varint", "_serialize_single", "proto_type in WIRE_VARINT_TYPES", (0, 1), [("field_number", "int")], "key", "bytes"),
    ("serialize_key_fixed32", "_serialize_single", "proto_type in WIRE_FIXED_32_TYPES", (0, 1), [("field_number", "int")], "key", "bytes"),
    ("serialize_key_fixed64", "_serialize_single", "proto_type in WIRE_FIXED_64_TYPES", (0, 1), [("field_number", "int")], "key", "bytes"),
    ("len_key_varint", "_len_single", "proto_type in WIRE_VARINT_TYPES", (0, 1), [("field_number", "int"), ("size", "int")], "size", "int"),
    ("len_key_fixed32", "_len_single", "proto_type in WIRE_FIXED_32_TYPES", (0, 1), [("field_number", "int"), ("size", "int")], "size", "int"),
    ("len_key_fixed64", "_len_single", "proto_type in WIRE_FIXED_64_TYPES", (0, 1), [("field_number", "int"), ("size", "int")], "size", "int"),
    # the body of the emission test of a length-delimited field (a list of tests = a path of nested branches)
    ("serialize_lendelim", "_serialize_single", ["proto_type in WIRE_LEN_DELIM_TYPES", "len(value) or serialize_empty or wraps"], (0, 2),
     [("field_number", "int"), ("value", "bytes"), ("output", "bytes")], "output", "bytes"),
    ("len_lendelim", "_len_single", ["proto_type in WIRE_LEN_DELIM_TYPES", "size or serialize_empty or wraps"], (0, 1),
     [("field_number", "int"), ("size", "int")], "size", "int"),
    # everything of _serialize_single / _len_single after their first statement (the call of _preprocess_single /
    # _len_preprocessed_single, whose result is the parameter `value` / `size` here): the whole framing decision
    ("serialize_frame", "_serialize_single", None, (1, None),
     [("field_number", "int"), ("proto_type", "ptype"), ("value", "bytes"), ("serialize_empty", "bool"), ("wraps", "bool")], None, "bytes"),
    ("len_frame", "_len_single", None, (1, None),
     [("field_number", "int"), ("proto_type", "ptype"), ("size", "int"), ("serialize_empty", "bool"), ("wraps", "bool")], None, "int"),
    # tag split of load_fields
    ("fields_tag_split", "load_fields", "True", (3, 5), [("num_wire", "int")], ("number", "wire_type"), ("int", "int")),
]


def find_function(tree, name):
    for n in ast.walk(tree):
        if isinstance(n, ast.FunctionDef) and n.name == name:
            return n
    raise Unsupported("function %s not found" % name)


def find_branch(fn, tests):
    """body of the `if` / `elif` / `while` whose test reads `tests` (a list: path of nested tests)"""
    if isinstance(tests, str):
        tests = [tests]
    scope, body = fn, None
    for test_src in tests:
        want = ast.unparse(ast.parse(test_src, mode="eval").body)
        nodes = ast.walk(scope) if body is None else (n for st in body for n in ast.walk(st))
        hits = [n for n in nodes if isinstance(n, (ast.If, ast.While)) and ast.unparse(n.test) == want]
        if len(hits) != 1:
            raise Unsupported("branch `%s` of %s found %d times" % (test_src, fn.name, len(hits)))
        body = hits[0].body
    return body


def translate(path=SRC):
    src = open(path).read()
    tree = ast.parse(src)
    consts = {}
    for n in tree.body:  # module-level integer constants (WIRE_* …)
        if isinstance(n, ast.Assign) and len(n.targets) == 1 and isinstance(n.targets[0], ast.Name) and \
                isinstance(n.value, ast.Constant) and type(n.value.value) is int:
            consts[n.targets[0].id] = n.value.value
    sigs = {}
    items = []
    for name in WHOLE:
        fn = find_function(tree, name)
        params = []
        defaults = [None] * (len(fn.args.args) - len(fn.args.defaults)) + list(fn.args.defaults)
        stream = None
        for a, d in zip(fn.args.args, defaults):
            t = ann_type(a.annotation)
            if t is None:
                raise Unsupported("parameter %s of %s: annotation %s" % (a.arg, name, ast.unparse(a.annotation) if a.annotation else None))
            if t == "stream":
                stream = a.arg
            params.append((a.arg, t, d))
        ret = ann_type(fn.returns)
        if ret is None:
            raise Unsupported("return annotation of " + name)
        sigs[name] = Sig(name, params, ret, stream)
        items.append((sigs[name], fn.body, fn.lineno))
    for lean, fname, test, (lo, hi), params, retvar, rty in FRAGMENTS:
        fn = find_function(tree, fname)
        stmts = fn.body if test is None else find_branch(fn, test)
        if test is None and stmts and isinstance(stmts[0], ast.Expr) and isinstance(stmts[0].value, ast.Constant):
            stmts = stmts[1:]        # docstring
        body = list(stmts[lo:hi])
        if isinstance(retvar, tuple):
            body.append(ast.Return(value=ast.Tuple(elts=[ast.Name(id=r, ctx=ast.Load()) for r in retvar], ctx=ast.Load())))
        elif retvar is not None:
            body.append(ast.Return(value=ast.Name(id=retvar, ctx=ast.Load())))
        sigs[lean] = Sig(lean, [(p, t, None) for p, t in params], rty, None)
        items.append((sigs[lean], body, body[0].lineno if hasattr(body[0], "lineno") else fn.lineno))
    out = []
    for sg, body, line in items:
        tr = Tr(sigs, sg, consts)
        env = {p: t for p, t, _ in sg.params}
        txt = tr.function(body, env)
        out.append("/- %s  (src/betterproto/__init__.py, line %d) -/\n%s" % (sg.name, line, txt))
    return out


HEADER = """import BpProofs.PyPrelude
import BpModel.Fields
import BpModel.Gen.WireTables
/- GENERATED by harness/extract_src.py from the Python AST of src/betterproto/__init__.py -- do not edit.
   Each definition is the statement-by-statement translation of the named function / branch. -/
set_option linter.unusedVariables false
namespace Bp.Src
open Bp

"""


def render(path=SRC):
    try:
        defs = translate(path)
        return HEADER + "\n\n".join(defs) + "\n\nend Bp.Src\n", None
    except Unsupported as e:
        msg = "the source translator does not support the current source: %s" % e
        return HEADER + "/- TRANSLATION FAILED: %s -/\n\nend Bp.Src\n" % msg, msg
    except (OSError, SyntaxError) as e:
        msg = "the source translator could not read the source: %r" % (e,)
        return HEADER + "/- TRANSLATION FAILED: %s -/\n\nend Bp.Src\n" % msg, msg


def main(write_if_changed, gen_dir):
    text, err = render()
    target = os.path.join(gen_dir, "..", "..", "BpProofs", "Gen", "SrcCodec.lean")
    changed = write_if_changed(os.path.normpath(target), text)
    if err:
        print("extract_src: " + err)
    return ["SrcCodec.lean"] if changed else []


if __name__ == "__main__":
    t, e = render()
    print(t)
    if e:
        print("ERROR:", e)
