"""SOURCE TRANSLATOR (C19): src/betterproto/casing.py -> Lean definitions, REGULAR EXPRESSIONS INCLUDED.

On every run casing.py of the working tree is read with `ast`:

  * the module constants that are str literals (`SYMBOLS`, `WORD`, `WORD_UPPER`) are evaluated, the f-string that is
    the first argument of each `re.sub` call is evaluated to its literal regex string, and that string is PARSED
    (`parse_regex`, a small parser of the `re` syntax) into the regex AST of lean/BpProofs/PyRegex.lean — so a change
    of one character of a pattern changes the generated Lean term;
  * `snake_case`, `pascal_case` (their `substitute_word` closures and the `re.sub` call), `camel_case`,
    `lowercase_first`, `sanitize_name`, `safe_snake_case` are translated statement by statement into pure Lean
    functions `Str → Str` over lean/BpProofs/PyRegex.lean (`re.sub`) and lean/BpProofs/PyPreludeCasing.lean
    (`str.lower`, `str.capitalize`, `str.isidentifier`, `keyword.iskeyword`) + PyPreludeStr.lean (`str * int`, slices).

Output: lean/BpProofs/Gen/SrcCasing.lean.  lean/BpProofs/SrcTieCasing.lean proves every translated function equal to the
model function of lean/BpModel/Casing.lean for every string; lean/BpProofs/Props/C19Src.lean states that as obligations.

STRICT MODE.  Every function with a `strict` parameter is translated AT `strict = True` (the only mode any call site
uses): the parameter must be declared `strict: bool = True`, must not be assigned, and is then a constant of the
translation — `if strict: A  elif …/else: B` is `A`, a call `f(x, strict=strict)` / `f(x, strict=True)` / `f(x)` is the
translated `f`.  The non-strict branches are not translated.

Supported regex syntax (anything else -> Unsupported; the generated file then holds no definition and every tie
theorem fails to compile): literal characters [A-Za-z0-9_ -] ; `[..]` / `[^..]` of literal characters and ranges ;
`*` and `+` directly after a character set (or literal character) ; `?` after any item ; no lazy / possessive
quantifiers ; `(..)` capture groups (numbered by their opening parenthesis), `(?:..)`, `(?!..)` ; `^` ; `|`.

Supported Python (the functions above use nothing else): str / int / bool constants, names, `not`, conditional
expressions, `+` on str, `str * int`, f-strings of str values, `x.lower()`, `x.capitalize()`, `x.isidentifier()`,
`keyword.iskeyword(x)`, slices `x[a:b]` with int constants, calls of the other translated functions,
`re.sub(<f-string of module constants>, lambda g: <closure>(g[i] | g[i] is not None, …), <str>)` ;
statements: docstring, nested `def` of a closure, `x = e`, `if / elif / else`, `return e`.
`g[i]` is used as a `str` only when group i lies on EVERY path of the pattern (checked on the parsed regex).
"""
import ast
import os

from extract_src import Unsupported

REPO = os.environ.get("VERIF_REPO", "/repo")
SRC = os.path.join(REPO, "src", "betterproto", "casing.py")
REL = "src/betterproto/casing.py"


# ------------------------------------------------------------------------------------------------ regex syntax -> AST
LITERAL = set("abcdefghijklmnopqrstuvwxyzABCDEFGHIJKLMNOPQRSTUVWXYZ0123456789_ ")


class RegexParser:
    """regex string -> tree:
       ("set", neg, [(lo, hi)…]) ("seq", a, b) ("alt", a, b) ("star", neg, ranges) ("plus", neg, ranges)
       ("opt", a) ("group", i, a) ("bol",) ("notahead", a)"""

    def __init__(self, src):
        self.s = src
        self.i = 0
        self.ngroups = 0

    def fail(self, what):
        raise Unsupported("regex %r, offset %d: %s" % (self.s, self.i, what))

    def peek(self):
        return self.s[self.i] if self.i < len(self.s) else None

    def parse(self):
        t = self.alt()
        if self.i != len(self.s):
            self.fail("unbalanced `)`")
        return t

    def alt(self):
        t = self.seq()
        if self.peek() == "|":
            self.i += 1
            return ("alt", t, self.alt())
        return t

    def seq(self):
        items = []
        while self.peek() is not None and self.peek() not in "|)":
            items.append(self.item())
        if not items:
            self.fail("empty sequence")
        t = items[-1]
        for x in reversed(items[:-1]):
            t = ("seq", x, t)
        return t

    def item(self):
        a = self.atom()
        q = self.peek()
        if q in ("*", "+", "?"):
            self.i += 1
            if self.peek() in ("*", "+", "?", "{"):
                self.fail("lazy / possessive / stacked quantifier")
            if q == "?":
                return ("opt", a)
            if a[0] != "set":
                self.fail("`%s` after something that is not a character set" % q)
            return ("star" if q == "*" else "plus", a[1], a[2])
        if q == "{":
            self.fail("counted repetition")
        return a

    def atom(self):
        c = self.peek()
        if c == "[":
            return self.cset()
        if c == "(":
            self.i += 1
            if self.s.startswith("?!", self.i):
                self.i += 2
                t = ("notahead", self.alt())
            elif self.s.startswith("?:", self.i):
                self.i += 2
                t = self.alt()
            elif self.peek() == "?":
                self.fail("group extension")
            else:
                self.ngroups += 1
                n = self.ngroups
                t = ("group", n, self.alt())
            if self.peek() != ")":
                self.fail("missing `)`")
            self.i += 1
            return t
        if c == "^":
            self.i += 1
            return ("bol",)
        if c in LITERAL or c == "-":
            self.i += 1
            return ("set", False, [(c, c)])
        self.fail("character %r" % c)

    def cset(self):
        self.i += 1
        neg = False
        if self.peek() == "^":
            neg = True
            self.i += 1
        ranges = []
        while True:
            c = self.peek()
            if c is None:
                self.fail("missing `]`")
            if c == "]":
                if not ranges:
                    self.fail("`]` as the first member of a set")
                self.i += 1
                return ("set", neg, ranges)
            if c not in LITERAL:
                self.fail("character %r in a set" % c)
            self.i += 1
            if self.peek() == "-" and self.i + 1 < len(self.s) and self.s[self.i + 1] != "]":
                hi = self.s[self.i + 1]
                if hi not in LITERAL or hi < c:
                    self.fail("range %s-%s" % (c, hi))
                self.i += 2
                ranges.append((c, hi))
            elif self.peek() == "-":
                self.fail("`-` at the end of a set")
            else:
                ranges.append((c, c))


def parse_regex(src):
    p = RegexParser(src)
    return p.parse(), p.ngroups


def lean_cset(neg, ranges):
    return "⟨%s, [%s]⟩" % ("true" if neg else "false", ", ".join("('%s', '%s')" % r for r in ranges))


def lean_re(t):
    k = t[0]
    if k in ("set", "star", "plus"):
        return "(.%s %s)" % (k, lean_cset(t[1], t[2]))
    if k in ("seq", "alt"):
        return "(.%s %s %s)" % (k, lean_re(t[1]), lean_re(t[2]))
    if k == "opt":
        return "(.opt %s)" % lean_re(t[1])
    if k == "group":
        return "(.group %d %s)" % (t[1], lean_re(t[2]))
    if k == "bol":
        return ".bol"
    if k == "notahead":
        return "(.notAhead %s)" % lean_re(t[1])
    raise AssertionError(t)


def always_groups(t):
    """numbers of the groups that take part in every successful match of t"""
    k = t[0]
    if k == "seq":
        return always_groups(t[1]) | always_groups(t[2])
    if k == "alt":
        return always_groups(t[1]) & always_groups(t[2])
    if k == "group":
        return {t[1]} | always_groups(t[2])
    return set()      # set / star / plus / bol have none; opt and notahead guarantee none


# ------------------------------------------------------------------------------------------------ Python -> Lean
def lean_str(s):
    out = []
    for ch in s:
        if ch == "\\":
            out.append("\\\\")
        elif ch == '"':
            out.append('\\"')
        elif 32 <= ord(ch) < 127:
            out.append(ch)
        else:
            raise Unsupported("character U+%X in a str constant" % ord(ch))
    return '"%s".toList' % "".join(out)


LEAN_TY = {"str": "Str", "int": "Int", "bool": "Bool"}
ORDER = ["snake_case", "pascal_case", "lowercase_first", "camel_case", "sanitize_name", "safe_snake_case"]


class Module:
    def __init__(self, tree):
        self.tree = tree
        self.funcs = {n.name: n for n in tree.body if isinstance(n, ast.FunctionDef)}
        for name in ORDER:
            if name not in self.funcs:
                raise Unsupported("no module-level function " + name)
        # module-level str constants, assigned exactly once anywhere in the module
        stores = {}
        for n in ast.walk(tree):
            if isinstance(n, ast.Name) and isinstance(n.ctx, (ast.Store, ast.Del)):
                stores[n.id] = stores.get(n.id, 0) + 1
            elif isinstance(n, (ast.FunctionDef, ast.ClassDef, ast.AsyncFunctionDef)):
                stores[n.name] = stores.get(n.name, 0) + 1
            elif isinstance(n, (ast.Import, ast.ImportFrom)):
                for a in n.names:
                    b = (a.asname or a.name).split(".")[0]
                    stores[b] = stores.get(b, 0) + 1
            elif isinstance(n, (ast.Global, ast.Nonlocal)):
                raise Unsupported("global / nonlocal statement")
        self.stores = stores
        self.consts = {}
        for n in tree.body:
            if isinstance(n, ast.Assign) and len(n.targets) == 1 and isinstance(n.targets[0], ast.Name) \
                    and isinstance(n.value, ast.Constant) and isinstance(n.value.value, str) \
                    and stores.get(n.targets[0].id) == 1:
                self.consts[n.targets[0].id] = n.value.value
        # `re` and `keyword` are the modules, bound once by a plain `import`
        for mod in ("re", "keyword"):
            ok = any(isinstance(n, ast.Import) and any(a.name == mod and a.asname is None for a in n.names)
                     for n in tree.body)
            if not ok or stores.get(mod) != 1:
                raise Unsupported("`%s` is not (only) the module imported by `import %s`" % (mod, mod))
        for name in ORDER:
            if stores.get(name) != 1:
                raise Unsupported("%s is bound more than once" % name)
        self.strict_funcs = set()
        self.out = []

    # ---------------------------------------------------------------- signatures
    def signature(self, fn, what, arg_types=None):
        """[(param, type)] of fn without `strict`; whether it has a strict parameter"""
        a = fn.args
        if a.posonlyargs or a.kwonlyargs or a.vararg or a.kwarg or fn.decorator_list:
            raise Unsupported("signature of " + what)
        params, strict = [], False
        ndef = len(a.defaults)
        for idx, x in enumerate(a.args):
            default = a.defaults[idx - (len(a.args) - ndef)] if idx >= len(a.args) - ndef else None
            if x.arg == "strict":
                if not (x.annotation is not None and ast.unparse(x.annotation) == "bool"
                        and isinstance(default, ast.Constant) and default.value is True and idx == len(a.args) - 1):
                    raise Unsupported("%s: the parameter strict is not the last one, declared `strict: bool = True`" % what)
                strict = True
                continue
            if default is not None:
                raise Unsupported("%s: default value of %s" % (what, x.arg))
            if x.annotation is not None:
                ty = ast.unparse(x.annotation)
                if ty not in LEAN_TY:
                    raise Unsupported("%s: annotation %s" % (what, ty))
                if arg_types is not None and arg_types[len(params)] != ty:
                    raise Unsupported("%s: %s is annotated %s, called with %s" % (what, x.arg, ty, arg_types[len(params)]))
            elif arg_types is not None:
                ty = arg_types[len(params)]
            else:
                raise Unsupported("%s: parameter %s has no annotation" % (what, x.arg))
            params.append((x.arg, ty))
        if fn.returns is not None and ast.unparse(fn.returns) != "str":
            raise Unsupported("%s: return annotation" % what)
        return params, strict

    # ---------------------------------------------------------------- one module-level function
    def function(self, name):
        fn = self.funcs[name]
        params, strict = self.signature(fn, name)
        if [t for _, t in params] != ["str"]:
            raise Unsupported("%s does not take one str" % name)
        if strict:
            self.strict_funcs.add(name)
        ctx = Ctx(self, name, strict, {p: t for p, t in params})
        for st in fn.body:
            if isinstance(st, ast.FunctionDef):
                ctx.closures[st.name] = st
        for n in ast.walk(fn):
            if isinstance(n, ast.Name) and n.id == "strict" and isinstance(n.ctx, (ast.Store, ast.Del)):
                raise Unsupported("%s assigns strict" % name)
        body = ctx.block([st for st in fn.body if not isinstance(st, ast.FunctionDef)], dict(ctx.env), 1)
        head = "/- %s  (%s, line %d)%s -/\n" % (name, REL, fn.lineno, ", at strict = True" if strict else "")
        self.out.append(head + "def %s %s : Str :=\n%s" % (
            name, " ".join("(%s : %s)" % (p, LEAN_TY[t]) for p, t in params), body))


class Ctx:
    """translation of the body of one function (module-level or closure)"""

    def __init__(self, mod, name, strict, env):
        self.mod = mod
        self.name = name
        self.strict = strict        # `strict` is in scope and is the constant True
        self.env = env
        self.closures = {}
        self.done_closures = {}

    # ------------------------------------------------------------ statements
    def block(self, stmts, env, depth):
        ind = "  " * depth
        if not stmts:
            raise Unsupported("%s: a path ends without `return`" % self.name)
        st, rest = stmts[0], stmts[1:]
        if isinstance(st, ast.Expr) and isinstance(st.value, ast.Constant) and isinstance(st.value.value, str):
            return self.block(rest, env, depth)
        if isinstance(st, ast.Return):
            if st.value is None:
                raise Unsupported("bare return")
            t, ty = self.expr(st.value, env)
            if ty != "str":
                raise Unsupported("%s returns %s" % (self.name, ty))
            return ind + t
        if isinstance(st, ast.Assign) and len(st.targets) == 1 and isinstance(st.targets[0], ast.Name):
            x = st.targets[0].id
            if x == "strict" or x in self.mod.consts or x in self.mod.funcs or x in self.closures or x in ("re", "keyword"):
                raise Unsupported("assignment to " + x)
            t, ty = self.expr(st.value, env)
            env = dict(env)
            env[x] = ty
            return ind + "let %s := %s\n" % (x, t) + self.block(rest, env, depth)
        if isinstance(st, ast.If):
            if self.is_strict(st.test, env):
                return self.block(list(st.body) + rest, env, depth)
            c = self.cond(st.test, env)
            a = self.block(list(st.body) + rest, env, depth + 1)
            b = self.block(list(st.orelse) + rest, env, depth + 1)
            return "%sif %s then\n%s\n%selse\n%s" % (ind, c, a, ind, b)
        raise Unsupported("statement `%s`" % ast.unparse(st).splitlines()[0])

    def is_strict(self, e, env):
        return self.strict and isinstance(e, ast.Name) and e.id == "strict" and "strict" not in env

    # ------------------------------------------------------------ expressions
    def cond(self, e, env):
        t, ty = self.expr(e, env)
        if ty == "bool":
            return t
        if ty == "str":
            return "(!(%s).isEmpty)" % t
        raise Unsupported("truth value of %s" % ty)

    def expr(self, e, env):
        if isinstance(e, ast.Constant):
            if isinstance(e.value, bool):
                return ("true" if e.value else "false"), "bool"
            if isinstance(e.value, int):
                return "(%d : Int)" % e.value if e.value >= 0 else "(-(%d : Int))" % -e.value, "int"
            if isinstance(e.value, str):
                return lean_str(e.value), "str"
            raise Unsupported("constant %r" % (e.value,))
        if isinstance(e, ast.Name):
            if e.id in env:
                return e.id, env[e.id]
            if self.is_strict(e, env):
                return "true", "bool"
            raise Unsupported("name " + e.id)
        if isinstance(e, ast.UnaryOp) and isinstance(e.op, ast.Not):
            return "(!%s)" % self.cond(e.operand, env), "bool"
        if isinstance(e, ast.UnaryOp) and isinstance(e.op, ast.USub) and isinstance(e.operand, ast.Constant) \
                and type(e.operand.value) is int:
            return "(-(%d : Int))" % e.operand.value, "int"
        if isinstance(e, ast.IfExp):
            if self.is_strict(e.test, env):
                return self.expr(e.body, env)
            c = self.cond(e.test, env)
            a, ta = self.expr(e.body, env)
            b, tb = self.expr(e.orelse, env)
            if ta != tb:
                raise Unsupported("conditional expression of %s and %s" % (ta, tb))
            return "(if %s then %s else %s)" % (c, a, b), ta
        if isinstance(e, ast.BinOp) and isinstance(e.op, (ast.Add, ast.Mult)):
            a, ta = self.expr(e.left, env)
            b, tb = self.expr(e.right, env)
            if isinstance(e.op, ast.Add) and (ta, tb) == ("str", "str"):
                return "(%s ++ %s)" % (a, b), "str"
            if isinstance(e.op, ast.Mult) and (ta, tb) == ("str", "int"):
                return "(Py.strMul %s %s)" % (a, b), "str"
            raise Unsupported("operator %s on %s, %s" % (type(e.op).__name__, ta, tb))
        if isinstance(e, ast.JoinedStr):
            parts = []
            for v in e.values:
                if isinstance(v, ast.Constant) and isinstance(v.value, str):
                    parts.append(lean_str(v.value))
                elif isinstance(v, ast.FormattedValue) and v.conversion == -1 and v.format_spec is None:
                    t, ty = self.expr(v.value, env)
                    if ty != "str":
                        raise Unsupported("f-string part of type " + ty)
                    parts.append(t)
                else:
                    raise Unsupported("f-string part " + ast.unparse(v))
            return ("(" + " ++ ".join(parts) + ")") if parts else lean_str(""), "str"
        if isinstance(e, ast.Subscript) and isinstance(e.slice, ast.Slice):
            x, tx = self.expr(e.value, env)
            sl = e.slice
            if tx != "str" or sl.step is not None:
                raise Unsupported("slice " + ast.unparse(e))
            lo = hi = None
            if sl.lower is not None:
                lo, tl = self.expr(sl.lower, env)
                if tl != "int":
                    raise Unsupported("slice bound of type " + tl)
            if sl.upper is not None:
                hi, th = self.expr(sl.upper, env)
                if th != "int":
                    raise Unsupported("slice bound of type " + th)
            if lo is None and hi is None:
                return x, "str"
            if hi is None:
                return "(Py.sliceFrom %s %s)" % (x, lo), "str"
            if lo is None:
                return "(Py.sliceTo %s %s)" % (x, hi), "str"
            return "(Py.slice %s %s %s)" % (x, lo, hi), "str"
        if isinstance(e, ast.Call):
            return self.call(e, env)
        raise Unsupported("expression `%s`" % ast.unparse(e))

    def call(self, e, env):
        f = e.func
        src = ast.unparse(f)
        # str methods without arguments
        if isinstance(f, ast.Attribute) and f.attr in ("lower", "capitalize", "isidentifier") \
                and not e.args and not e.keywords and not (isinstance(f.value, ast.Name) and f.value.id in ("re", "keyword")):
            x, tx = self.expr(f.value, env)
            if tx != "str":
                raise Unsupported("method %s of %s" % (f.attr, tx))
            return "(Py.%s %s)" % (f.attr, x), ("bool" if f.attr == "isidentifier" else "str")
        if src == "keyword.iskeyword" and "keyword" not in env and len(e.args) == 1 and not e.keywords:
            x, tx = self.expr(e.args[0], env)
            if tx != "str":
                raise Unsupported("keyword.iskeyword of " + tx)
            return "(Py.iskeyword %s)" % x, "bool"
        if src == "re.sub" and "re" not in env:
            return self.re_sub(e, env)
        # another translated function
        if isinstance(f, ast.Name) and f.id in ORDER and f.id not in env and f.id not in self.closures:
            if len(e.args) != 1:
                raise Unsupported("call " + ast.unparse(e))
            for kw in e.keywords:
                ok = kw.arg == "strict" and f.id in self.mod.strict_funcs and (
                    self.is_strict(kw.value, env) or (isinstance(kw.value, ast.Constant) and kw.value.value is True))
                if not ok:
                    raise Unsupported("keyword argument in " + ast.unparse(e))
            if ORDER.index(f.id) >= ORDER.index(self.name.split(".")[0]):
                raise Unsupported("%s calls %s (not translated before it)" % (self.name, f.id))
            x, tx = self.expr(e.args[0], env)
            if tx != "str":
                raise Unsupported("argument of type %s in %s" % (tx, ast.unparse(e)))
            return "(%s %s)" % (f.id, x), "str"
        raise Unsupported("call `%s`" % ast.unparse(e))

    # ------------------------------------------------------------ re.sub(f"…", lambda groups: closure(…), value)
    def pattern_string(self, e, env):
        """the literal regex string of an f-string / constant built from module-level str constants"""
        def const(n):
            if isinstance(n, ast.Name) and n.id in self.mod.consts and n.id not in env and n.id not in self.closures:
                return self.mod.consts[n.id]
            raise Unsupported("pattern part `%s` is not a module-level str constant" % ast.unparse(n))
        if isinstance(e, ast.Constant) and isinstance(e.value, str):
            return e.value
        if isinstance(e, ast.Name):
            return const(e)
        if isinstance(e, ast.JoinedStr):
            out = []
            for v in e.values:
                if isinstance(v, ast.Constant) and isinstance(v.value, str):
                    out.append(v.value)
                elif isinstance(v, ast.FormattedValue) and v.conversion == -1 and v.format_spec is None:
                    out.append(const(v.value))
                else:
                    raise Unsupported("pattern part " + ast.unparse(v))
            return "".join(out)
        raise Unsupported("pattern `%s`" % ast.unparse(e))

    def re_sub(self, e, env):
        if len(e.args) != 3 or e.keywords:
            raise Unsupported("re.sub with count / flags: " + ast.unparse(e))
        pat = self.pattern_string(e.args[0], env)
        tree, ngroups = parse_regex(pat)
        always = always_groups(tree)
        lam = e.args[1]
        if not (isinstance(lam, ast.Lambda) and len(lam.args.args) == 1 and not lam.args.defaults
                and not lam.args.vararg and not lam.args.kwarg and not lam.args.kwonlyargs and not lam.args.posonlyargs):
            raise Unsupported("replacement `%s`" % ast.unparse(lam))
        g = lam.args.args[0].arg
        body = lam.body
        if not (isinstance(body, ast.Call) and isinstance(body.func, ast.Name) and body.func.id in self.closures
                and not body.keywords):
            raise Unsupported("replacement body `%s`" % ast.unparse(body))

        def group_index(x):
            if isinstance(x, ast.Subscript) and isinstance(x.value, ast.Name) and x.value.id == g \
                    and isinstance(x.slice, ast.Constant) and type(x.slice.value) is int and 1 <= x.slice.value <= ngroups:
                return x.slice.value
            return None
        args, types = [], []
        for a in body.args:
            i = group_index(a)
            if i is not None:
                if i not in always:
                    raise Unsupported("group %d of %r may be None and is used as a str" % (i, pat))
                args.append("(%s.str %d)" % (g, i))
                types.append("str")
                continue
            if isinstance(a, ast.Compare) and len(a.ops) == 1 and isinstance(a.ops[0], (ast.IsNot, ast.Is)) \
                    and isinstance(a.comparators[0], ast.Constant) and a.comparators[0].value is None \
                    and group_index(a.left) is not None:
                args.append("(%s.group %d).%s" % (g, group_index(a.left), "isSome" if isinstance(a.ops[0], ast.IsNot) else "isNone"))
                types.append("bool")
                continue
            raise Unsupported("replacement argument `%s`" % ast.unparse(a))
        cname = self.closure(body.func.id, types)
        s, ts = self.expr(e.args[2], env)
        if ts != "str":
            raise Unsupported("re.sub on " + ts)
        pname = "%s.pattern" % self.name
        if not any(o.startswith("/-- the pattern of " + self.name) for o in self.mod.out):
            self.mod.out.append("/-- the pattern of %s: %s -/\ndef %s : PyRe.Re :=\n  %s" % (
                self.name, pat.replace("-/", "- /"), pname, lean_re(tree)))
        return "(PyRe.sub %s (fun %s => %s %s) %s)" % (pname, g, cname, " ".join(args), s), "str"

    def closure(self, name, types):
        """translate the nested `def name` (free variable: `strict`, the constant True) for these argument types"""
        if name in self.done_closures:
            if self.done_closures[name] != types:
                raise Unsupported("closure %s called with different argument types" % name)
            return "%s.%s" % (self.name, name)
        fn = self.closures[name]
        if len(fn.args.args) != len(types):
            raise Unsupported("closure %s called with %d arguments" % (name, len(types)))
        full = "%s.%s" % (self.name, name)
        params, strict = self.mod.signature(fn, full, types)
        if strict:
            raise Unsupported("closure %s has its own strict parameter" % name)
        for n in ast.walk(fn):
            if n is not fn and isinstance(n, (ast.FunctionDef, ast.Lambda)):
                raise Unsupported("nested function in closure " + name)
            if isinstance(n, ast.Name) and n.id == "strict" and isinstance(n.ctx, (ast.Store, ast.Del)):
                raise Unsupported("closure %s assigns strict" % name)
        sub = Ctx(self.mod, full, self.strict, {p: t for p, t in params})
        body = sub.block(list(fn.body), dict(sub.env), 1)
        self.mod.out.append("/- %s  (%s, line %d)%s -/\ndef %s %s : Str :=\n%s" % (
            full, REL, fn.lineno, ", at strict = True" if self.strict else "", full,
            " ".join("(%s : %s)" % (p, LEAN_TY[t]) for p, t in params), body))
        self.done_closures[name] = types
        return full


def translate(path=SRC):
    tree = ast.parse(open(path).read())
    mod = Module(tree)
    for name in ORDER:
        mod.function(name)
    return mod.out


HEADER = """import BpProofs.PyPreludeCasing
/- GENERATED by harness/extract_srccasing.py from the Python AST of src/betterproto/casing.py -- do not edit.
   Each `*.pattern` is the regex string of the `re.sub` call (module constants substituted), parsed into the regex
   AST of BpProofs/PyRegex.lean; each other definition is the statement-by-statement translation of the named
   function at strict = True. -/
set_option linter.unusedVariables false
namespace Bp.Src
open Bp
open Bp.Importing (Str)

"""


def render(path=SRC):
    try:
        defs = translate(path)
        return HEADER + "\n\n".join(defs) + "\n\nend Bp.Src\n", None
    except Unsupported as e:
        msg = "the source translator does not support the current source: %s" % e
        return HEADER + "/- TRANSLATION FAILED: %s -/\n\nend Bp.Src\n" % msg.replace("-/", "- /"), msg
    except (OSError, SyntaxError) as e:
        msg = "the source translator could not read the source: %r" % (e,)
        return HEADER + "/- TRANSLATION FAILED: %s -/\n\nend Bp.Src\n" % msg.replace("-/", "- /"), msg


def main(write_if_changed, gen_dir):
    text, err = render()
    target = os.path.join(gen_dir, "..", "..", "BpProofs", "Gen", "SrcCasing.lean")
    changed = write_if_changed(os.path.normpath(target), text)
    if err:
        print("extract_srccasing: " + err)
    return ["SrcCasing.lean"] if changed else []


if __name__ == "__main__":
    t, e = render()
    print(t)
    if e:
        print("ERROR:", e)
