"""SOURCE TRANSLATOR (C12): src/betterproto/grpc/util/async_channel.py -> Lean resumption programs.

On every run async_channel.py of the working tree is read with `ast` and the methods of `AsyncChannel`

    __init__, __aiter__, __anext__, closed, done, send_from, send, receive, close, _flush_queue

are translated statement by statement into definitions of type `Co` (lean/BpProofs/PyPreludeChan.lean): a tree of
commands, one per access to `self._closed` / `self._flushed` / `self._waiting_receivers` and per call on `self._queue`,
each holding its continuation (`self._queue.empty()` is read as `qsize() == 0`).

  * an `async def` ends in the leaves `.ret v` / `.raise e`;
  * a synchronous method takes the continuation `k : Val → Co` that receives its result, so `self.done()` / `self.close()`
    inside another method is an (inlined) call of the translated definition;
  * `x = await self._queue.get()` is `.awaitGet (fun x => …) h`, `await self._queue.put(e)` is `.awaitPut e (…) h`,
    `self._queue.task_done()` is `.taskDone (…) h`: `h` is what happens when the command RAISES — `Co.raise` outside a
    `try`, inside `try: B finally: F` the function `fun e => fin (.raise e)` where `fin k` is the translation of `F`
    followed by `k`.  `fin` is also wrapped around the normal end of `B`, every `return` and every `raise` of `B`;
  * `for item in source:` over the synchronous iterable and `for _ in range(n):` become auxiliary definitions by
    structural recursion (`<method>_for<i>`; every evaluation of the loop head is marked `.iter`: it ends a synchronous
    segment like an await does), on the list of items resp. on the NUMBER of iterations
    (`PyChan.rangeCount n`; a body that reads the loop variable of a `range` loop, or any local other than the loop
    variable, is refused);
  * `asyncio.ensure_future(self._flush_queue())` is `.ensureFlush`;
  * in `send_from`, `if isinstance(source, AsyncIterable): async for item in source: B / else: for item in source: B'`
    is accepted only when `B` and `B'` are the same statements; the synchronous branch is translated, the asynchronous
    one is RECORDED as not translated (`send_from_async_branch` in the generated file): iterating a foreign async
    iterator suspends at points the model has no counterpart for.

Everything else (another attribute of `self`, `while`, `except` clauses, `return` inside `finally` or inside a loop,
an `await` of anything but `self._queue.get()` / `.put(x)`, decorators, a rebound `asyncio` / `max` / `range` / …)
-> Unsupported: the generated file then holds no definition and every tie theorem fails to compile.

Output: lean/BpProofs/Gen/SrcChan.lean.  lean/BpProofs/SrcTieChan.lean proves that running these programs over the
model's asyncio.Queue IS `Chan.micro`; lean/BpProofs/Props/C12Src.lean states that.
"""
import ast
import os
import re

from extract_src import Unsupported

REPO = os.environ.get("VERIF_REPO", "/repo")
SRC = os.path.join(REPO, "src", "betterproto", "grpc", "util", "async_channel.py")
REL = "src/betterproto/grpc/util/async_channel.py"
CLASS = "AsyncChannel"

ORDER = ["__init__", "__aiter__", "closed", "done", "close", "_flush_queue", "__anext__", "receive", "send", "send_from"]
OPTIONAL = {"__aiter__"}
LEAN_NAME = {"__init__": "init", "__aiter__": "aiter", "__anext__": "anext"}
FIELDS = {"_closed": ("Closed", "bool"), "_flushed": ("Flushed", "bool"), "_waiting_receivers": ("Waiting", "int")}
EXC = {"StopAsyncIteration": ".stopAsyncIteration", "ChannelClosed": ".channelClosed", "ChannelDone": ".channelDone"}
ANNOT = {"T": "item", "bool": "bool", "int": "int", "Union[Iterable[T], AsyncIterable[T]]": "source"}
LEAN_TY = {"item": "Item", "bool": "Bool", "int": "Int", "source": "(List Item)"}
RESERVED = ("asyncio", "AsyncIterable", "max", "range", "isinstance", "object", "StopAsyncIteration",
            "ChannelClosed", "ChannelDone", CLASS)
LEAN_WORDS = set("""at by do else end export extends fun from have if import in instance let match mut namespace of
open private protected section show structure then theorem universe variable where with deriving def abbrev example
inductive class axiom macro syntax notation prefix infix infixl infixr postfix set_option using calc return for
unless try catch finally nomatch nofun suffices obtain mutual partial unsafe noncomputable Type Sort Prop""".split())
# names the generated text uses itself: a Python local of that name gets a prime (no Python identifier has one)
TAKEN = set("""k h e n rest flush max isFlush truthy rangeCount decide true false Co Val Item Int Nat Bool List
init aiter anext closed done close send receive send_from PyChan""".split())


def lname(x):
    """a Python local as a Lean binder"""
    if x in LEAN_WORDS:
        return "«%s»" % x
    if x in TAKEN or x.startswith("_") or re.fullmatch(r"(v|fin)\d+|.*_for\d+", x):
        return "py%s'" % x if x.startswith("_") else x + "'"
    return x


def ind(n):
    return "\n" + "  " * n


class Ctx:
    """how the current position leaves: falling off the end, `return v`, `raise e`, and the exception continuation of a
    command that can raise"""

    def __init__(self, nxt, ret, exc, handler, where):
        self.nxt, self.ret, self.exc, self.handler, self.where = nxt, ret, exc, handler, where
        # where: "top" | "try" | "finally" | "loop"


class Method:
    def __init__(self, mod, fn):
        self.mod, self.fn = mod, fn
        self.is_async = isinstance(fn, ast.AsyncFunctionDef)
        self.name = LEAN_NAME.get(fn.name, fn.name)
        self.fresh = 0
        self.nfor = 0
        self.nfin = 0
        self.aux = []
        self.notes = []

    def var(self):
        self.fresh += 1
        return "v%d" % self.fresh

    # ------------------------------------------------------------------ signature
    def params(self):
        a = self.fn.args
        if a.vararg or a.kwarg or a.posonlyargs:
            raise Unsupported("%s: *args / **kwargs / positional-only parameters" % self.fn.name)
        if self.fn.decorator_list:
            raise Unsupported("%s is decorated" % self.fn.name)
        args = list(a.args) + list(a.kwonlyargs)
        if not args or args[0].arg != "self":
            raise Unsupported("%s: first parameter is not self" % self.fn.name)
        out = []
        for p in args[1:]:
            if p.annotation is None or ast.unparse(p.annotation) not in ANNOT:
                raise Unsupported("%s: parameter %s has no known annotation" % (self.fn.name, p.arg))
            if p.arg in RESERVED:
                raise Unsupported("a parameter is called " + p.arg)
            out.append((p.arg, ANNOT[ast.unparse(p.annotation)]))
        return out

    def translate(self):
        params = self.params()
        env = {p: t for p, t in params}
        for st in ast.walk(self.fn):
            if isinstance(st, (ast.FunctionDef, ast.AsyncFunctionDef, ast.ClassDef, ast.Lambda)) and st is not self.fn:
                raise Unsupported("%s has a nested definition" % self.fn.name)
            if isinstance(st, (ast.Global, ast.Nonlocal, ast.Yield, ast.YieldFrom)):
                raise Unsupported("%s: global / nonlocal / yield" % self.fn.name)
        if self.is_async:
            top = Ctx(lambda d: "(.ret .none)", lambda v, d: "(.ret %s)" % v, lambda e, d: "(.raise %s)" % e,
                      "Co.raise", "top")
        else:
            def no_raise(e, d):
                raise Unsupported("%s: a synchronous method raises" % self.fn.name)
            top = Ctx(lambda d: "(k .none)", lambda v, d: "(k %s)" % v, no_raise, None, "top")
        body = self.block(list(self.fn.body), env, top, 1)
        sig = "".join(" (%s : %s)" % (lname(p), LEAN_TY[t]) for p, t in params)
        if not self.is_async:
            sig += " (k : Val → Co)"
        head = "/- %s.%s  (%s, line %d)%s -/\n" % (CLASS, self.fn.name, REL, self.fn.lineno,
                                                   "" if self.is_async else "  [synchronous: continuation-passing]")
        return "".join(self.aux) + head + "def %s%s : Co :=%s%s\n" % (self.name, sig, ind(1), body)

    # ------------------------------------------------------------------ expressions (continuation-passing: reads are commands)
    def self_attr(self, e):
        """e is `self.<attr>` -> attr"""
        if isinstance(e, ast.Attribute) and isinstance(e.value, ast.Name) and e.value.id == "self":
            return e.attr
        return None

    def is_queue_call(self, e, meth, nargs):
        return (isinstance(e, ast.Call) and isinstance(e.func, ast.Attribute) and e.func.attr == meth
                and self.self_attr(e.func.value) == "_queue" and len(e.args) == nargs and not e.keywords
                and not any(isinstance(a, ast.Starred) for a in e.args))

    def expr(self, e, env, d, k):
        """k(lean term, type) -> text of what follows"""
        if isinstance(e, ast.Constant):
            if e.value is True or e.value is False:
                return k("true" if e.value else "false", "bool")
            if e.value is None:
                return k(".none", "val")
            if isinstance(e.value, int):
                return k("(%d : Int)" % e.value if e.value >= 0 else "(-%d : Int)" % -e.value, "int")
            raise Unsupported("constant %r" % (e.value,))
        if isinstance(e, ast.Name):
            if e.id == "self":
                if "self" in env:
                    raise Unsupported("self is rebound")
                return k(".self", "val")
            if e.id in env:
                return k(lname(e.id), env[e.id])
            raise Unsupported("name %s (not a parameter or a local of this block)" % e.id)
        a = self.self_attr(e)
        if a is not None:
            if a in FIELDS:
                v = self.var()
                return "(.get%s fun %s =>%s%s)" % (FIELDS[a][0], v, ind(d), k(v, FIELDS[a][1]))
            if a == "__flush":
                return k("flush", "item")
            raise Unsupported("attribute self.%s" % a)
        if self.is_queue_call(e, "qsize", 0):
            v = self.var()
            return "(.qsize fun %s =>%s%s)" % (v, ind(d), k(v, "int"))
        if self.is_queue_call(e, "empty", 0):           # Queue.empty(): `not self._queue`
            v = self.var()
            return "(.qsize fun %s =>%s%s)" % (v, ind(d), k("(decide (%s = (0 : Int)))" % v, "bool"))
        if isinstance(e, ast.Call):
            f = e.func
            if e.keywords or any(isinstance(x, ast.Starred) for x in e.args):
                raise Unsupported("call `%s`" % ast.unparse(e))
            m = self.self_attr(f)
            if m is not None and m in self.mod.sync and not e.args:
                if self.mod.sync_params[m]:
                    raise Unsupported("call of %s with parameters" % m)
                v = self.var()
                return "(%s fun %s =>%s%s)" % (LEAN_NAME.get(m, m), v, ind(d), k(v, "val"))
            if isinstance(f, ast.Name) and f.id == "max" and len(e.args) == 2 and "max" not in env:
                return self.expr(e.args[0], env, d, lambda x, tx: self.expr(e.args[1], env, d, lambda y, ty: (
                    k("(PyChan.max %s %s)" % (x, y), "int") if (tx, ty) == ("int", "int") else self.bad("max of %s, %s" % (tx, ty)))))
            raise Unsupported("call `%s`" % ast.unparse(e))
        if isinstance(e, ast.UnaryOp) and isinstance(e.op, ast.Not):
            return self.expr(e.operand, env, d, lambda x, tx: k("(!%s)" % self.as_bool(x, tx), "bool"))
        if isinstance(e, ast.BoolOp) and isinstance(e.op, ast.And) and len(e.values) == 2:
            def second(x, tx):
                if tx != "bool":
                    raise Unsupported("`and` on " + tx)
                def third(y, ty):
                    if ty != "bool":
                        raise Unsupported("`and` on " + ty)
                    return k(y, "bool")
                return "(if %s then%s%s%selse%s%s)" % (x, ind(d + 1), self.expr(e.values[1], env, d + 1, third), ind(d),
                                                      ind(d + 1), k(x, "bool"))
            return self.expr(e.values[0], env, d, second)
        if isinstance(e, ast.BinOp) and isinstance(e.op, (ast.Add, ast.Sub)):
            op = "+" if isinstance(e.op, ast.Add) else "-"
            return self.expr(e.left, env, d, lambda x, tx: self.expr(e.right, env, d, lambda y, ty: (
                k("(%s %s %s)" % (x, op, y), "int") if (tx, ty) == ("int", "int") else self.bad("%s on %s, %s" % (op, tx, ty)))))
        if isinstance(e, ast.Compare) and len(e.ops) == 1:
            o, l, r = e.ops[0], e.left, e.comparators[0]
            if isinstance(o, (ast.Is, ast.IsNot)) and self.self_attr(r) == "__flush":
                neg = "!" if isinstance(o, ast.IsNot) else ""
                return self.expr(l, env, d, lambda x, tx: (
                    k("(%sisFlush %s)" % (neg, x), "bool") if tx == "item" else self.bad("`is self.__flush` on " + tx)))
            sym = {ast.LtE: "≤", ast.Lt: "<", ast.GtE: "≥", ast.Gt: ">", ast.Eq: "=", ast.NotEq: "≠"}.get(type(o))
            if sym:
                return self.expr(l, env, d, lambda x, tx: self.expr(r, env, d, lambda y, ty: (
                    k("(decide (%s %s %s))" % (x, sym, y), "bool") if (tx, ty) == ("int", "int")
                    else self.bad("comparison of %s and %s" % (tx, ty)))))
        raise Unsupported("expression `%s`" % ast.unparse(e))

    def bad(self, msg):
        raise Unsupported(msg)

    def as_bool(self, x, t):
        if t == "bool":
            return x
        if t == "val":
            return "(truthy %s)" % x
        raise Unsupported("truth value of " + t)

    def as_val(self, x, t):
        if t == "val":
            return x
        if t == "item":
            return "(.item %s)" % x
        if t == "bool":
            return "(.bool %s)" % x
        raise Unsupported("a method returns " + t)

    # ------------------------------------------------------------------ statements
    def block(self, stmts, env, ctx, d):
        if not stmts:
            return ctx.nxt(d)
        st, rest = stmts[0], stmts[1:]

        def go(env2=env):
            return self.block(rest, env2, ctx, d)

        if isinstance(st, ast.Pass):
            return go()
        if isinstance(st, ast.Expr) and isinstance(st.value, ast.Constant) and isinstance(st.value.value, str):
            return go()                                     # docstring
        if isinstance(st, ast.Return):
            if rest:
                raise Unsupported("statements after return")
            if ctx.where in ("finally", "loop"):
                raise Unsupported("return inside a %s" % ("finally block" if ctx.where == "finally" else "loop"))
            if st.value is None:
                return ctx.ret(".none", d)
            return self.expr(st.value, env, d, lambda x, t: ctx.ret(self.as_val(x, t), d))
        if isinstance(st, ast.Raise):
            if rest:
                raise Unsupported("statements after raise")
            if ctx.where == "loop":
                raise Unsupported("raise inside a loop")
            x = st.exc
            if st.cause is not None or x is None:
                raise Unsupported("`%s`" % ast.unparse(st))
            if isinstance(x, ast.Call) and isinstance(x.func, ast.Name) and not x.keywords and len(x.args) <= 1 \
                    and all(isinstance(a, ast.Constant) and isinstance(a.value, str) for a in x.args):
                x = x.func
            if isinstance(x, ast.Name) and x.id in EXC and x.id not in env:
                return ctx.exc(EXC[x.id], d)
            raise Unsupported("`%s`" % ast.unparse(st))
        if isinstance(st, ast.If):
            return self.if_stmt(st, rest, env, ctx, d)
        if isinstance(st, ast.Try):
            return self.try_stmt(st, rest, env, ctx, d)
        if isinstance(st, ast.For):
            return self.for_stmt(st, rest, env, ctx, d)
        # ---- stores to the channel's attributes
        tgt = val = None
        if isinstance(st, ast.Assign) and len(st.targets) == 1:
            tgt, val = st.targets[0], st.value
        elif isinstance(st, ast.AnnAssign) and st.value is not None and st.simple == 0:
            tgt, val = st.target, st.value
        if tgt is not None and self.self_attr(tgt) is not None:
            a = self.self_attr(tgt)
            if a == "_queue":
                if not (isinstance(val, ast.Call) and ast.unparse(val.func) == "asyncio.Queue" and len(val.args) == 1
                        and not val.keywords):
                    raise Unsupported("`%s`" % ast.unparse(st))
                return self.expr(val.args[0], env, d, lambda x, t: (
                    "(.newQueue %s%s%s)" % (x, ind(d), go()) if t == "int" else self.bad("asyncio.Queue(%s)" % t)))
            if a in FIELDS:
                return self.expr(val, env, d, lambda x, t: (
                    "(.set%s %s%s%s)" % (FIELDS[a][0], x, ind(d), go()) if t == FIELDS[a][1]
                    else self.bad("self.%s = <%s>" % (a, t))))
            raise Unsupported("store to self.%s" % a)
        if isinstance(st, ast.AugAssign) and self.self_attr(st.target) in FIELDS and isinstance(st.op, (ast.Add, ast.Sub)):
            a = self.self_attr(st.target)
            if FIELDS[a][1] != "int":
                raise Unsupported("`%s`" % ast.unparse(st))
            op = "+" if isinstance(st.op, ast.Add) else "-"
            v = self.var()
            return "(.get%s fun %s =>%s%s)" % (FIELDS[a][0], v, ind(d), self.expr(st.value, env, d, lambda x, t: (
                "(.set%s (%s %s %s)%s%s)" % (FIELDS[a][0], v, op, x, ind(d), go()) if t == "int"
                else self.bad("`%s`" % ast.unparse(st)))))
        # ---- locals
        if tgt is not None and isinstance(tgt, ast.Name):
            x = tgt.id
            if x in RESERVED or x == "self":
                raise Unsupported("assignment to " + x)
            if isinstance(val, ast.Await):
                if not self.is_queue_call(val.value, "get", 0):
                    raise Unsupported("`%s`" % ast.unparse(st))
                self.need_async(ctx, st)
                env2 = dict(env)
                env2[x] = "item"
                return "(.awaitGet (fun %s =>%s%s)%s%s)" % (lname(x), ind(d + 1), self.block(rest, env2, ctx, d + 1), ind(d + 1),
                                                         ctx.handler)
            def bind(t, ty):
                env2 = dict(env)
                env2[x] = ty
                return "(let %s : %s := %s;%s%s)" % (lname(x), LEAN_TY[ty], t, ind(d), self.block(rest, env2, ctx, d))
            return self.expr(val, env, d, lambda t, ty: bind(t, ty) if ty in LEAN_TY else self.bad("local of type " + ty))
        # ---- calls as statements
        if isinstance(st, ast.Expr):
            e = st.value
            if isinstance(e, ast.Await):
                if not self.is_queue_call(e.value, "put", 1):
                    raise Unsupported("`%s`" % ast.unparse(st))
                self.need_async(ctx, st)
                return self.expr(e.value.args[0], env, d, lambda x, t: (
                    "(.awaitPut %s%s%s%s%s)" % (x, ind(d), go(), ind(d), ctx.handler) if t == "item"
                    else self.bad("put of " + t)))
            if self.is_queue_call(e, "task_done", 0):
                if ctx.handler is None:
                    raise Unsupported("task_done() in a synchronous method")
                return "(.taskDone%s%s%s%s)" % (ind(d), go(), ind(d), ctx.handler)
            if isinstance(e, ast.Call) and ast.unparse(e.func) == "asyncio.ensure_future" and len(e.args) == 1 \
                    and not e.keywords and ast.unparse(e.args[0]) == "self._flush_queue()":
                if "_flush_queue" not in self.mod.asyncs or self.mod.async_params["_flush_queue"]:
                    raise Unsupported("_flush_queue is not a parameterless coroutine method")
                return "(.ensureFlush%s%s)" % (ind(d), go())
            if isinstance(e, ast.Call) and self.self_attr(e.func) in self.mod.sync:
                return self.expr(e, env, d, lambda x, t: go())
        raise Unsupported("statement `%s`" % ast.unparse(st).split("\n")[0])

    def need_async(self, ctx, st):
        if not self.is_async or ctx.handler is None:
            raise Unsupported("await in a synchronous method")

    def if_stmt(self, st, rest, env, ctx, d):
        t = st.test
        # the [Async]Iterable dispatch of send_from
        if isinstance(t, ast.Call) and isinstance(t.func, ast.Name) and t.func.id == "isinstance":
            if not (len(t.args) == 2 and isinstance(t.args[0], ast.Name) and env.get(t.args[0].id) == "source"
                    and isinstance(t.args[1], ast.Name) and t.args[1].id == "AsyncIterable" and not t.keywords):
                raise Unsupported("`%s`" % ast.unparse(t))
            src = t.args[0].id
            ok = (len(st.body) == 1 and isinstance(st.body[0], ast.AsyncFor) and len(st.orelse) == 1
                  and isinstance(st.orelse[0], ast.For))
            if ok:
                a, s = st.body[0], st.orelse[0]
                ok = (ast.dump(a.target) == ast.dump(s.target) and ast.dump(a.iter) == ast.dump(s.iter)
                      and isinstance(s.iter, ast.Name) and s.iter.id == src and not a.orelse and not s.orelse
                      and [ast.dump(x) for x in a.body] == [ast.dump(x) for x in s.body])
            if not ok:
                raise Unsupported("the isinstance(source, AsyncIterable) dispatch is not `async for x in source: B` / "
                                  "`for x in source: B` with the same B")
            self.notes.append("def %s_async_branch : String :=\n  \"NOT TRANSLATED (line %d): `async for %s in %s:` with the "
                              "same body as the synchronous `for` that IS translated\"\n"
                              % (self.name, st.body[0].lineno, ast.unparse(st.body[0].target), src))
            return self.for_stmt(st.orelse[0], rest, env, ctx, d)

        def cont(c, tc):
            # what follows the `if` is translated in the environment BEFORE it (a local bound only in a branch is not visible)
            inner = Ctx(lambda dd: self.block(rest, env, ctx, dd), ctx.ret, ctx.exc, ctx.handler, ctx.where)
            a = self.block(list(st.body), env, inner, d + 1)
            b = self.block(list(st.orelse), env, inner, d + 1)
            return "(if %s then%s%s%selse%s%s)" % (self.as_bool(c, tc), ind(d + 1), a, ind(d), ind(d + 1), b)
        return self.expr(t, env, d, cont)

    def try_stmt(self, st, rest, env, ctx, d):
        if st.handlers or st.orelse or not st.finalbody:
            raise Unsupported("try with except / else clauses")
        if ctx.where in ("finally", "loop", "try") or ctx.handler is None:
            raise Unsupported("try inside a %s / a synchronous method" % ctx.where)
        for n in st.finalbody:
            for x in ast.walk(n):
                if isinstance(x, (ast.Await, ast.Return, ast.Try, ast.For, ast.AsyncFor, ast.While, ast.Raise)):
                    raise Unsupported("await / return / raise / loop / try inside a finally block")
        self.nfin += 1
        fin = "fin%d" % self.nfin
        # the finally block, followed by `k`; a command of it that raises replaces the exception in flight
        fctx = Ctx(lambda dd: "k", None, None, ctx.handler, "finally")
        ftext = self.block(list(st.finalbody), env, fctx, d + 1)
        inner = Ctx(lambda dd: "(%s %s)" % (fin, self.block(rest, env, ctx, dd)),
                    lambda v, dd: "(%s %s)" % (fin, ctx.ret(v, dd)),
                    lambda e, dd: "(%s %s)" % (fin, ctx.exc(e, dd)),
                    "(fun e => %s %s)" % (fin, ctx.exc("e", d)), "try")
        body = self.block(list(st.body), env, inner, d)
        return "(let %s : Co → Co := (fun k =>%s%s);%s%s)" % (fin, ind(d + 1), ftext, ind(d), body)

    def for_stmt(self, st, rest, env, ctx, d):
        if st.orelse or not isinstance(st.target, ast.Name):
            raise Unsupported("for ... else / a tuple target")
        if ctx.where != "top" or ctx.handler is None:
            raise Unsupported("a loop inside a %s / a synchronous method" % ctx.where)
        for x in ast.walk(st):
            if isinstance(x, (ast.Break, ast.Continue)):
                raise Unsupported("break / continue")
        x = st.target.id
        if x in RESERVED or x == "self":
            raise Unsupported("loop variable " + x)
        self.nfor += 1
        aux = "%s_for%d" % (self.name, self.nfor)
        it = st.iter
        loop = Ctx(None, None, None, "Co.raise", "loop")
        if isinstance(it, ast.Name) and env.get(it.id) == "source":
            loop.nxt = lambda dd: "(%s k rest)" % aux
            body = self.block(list(st.body), {x: "item"}, loop, 2)
            self.aux.append("/- the loop `for %s in %s:` of %s (line %d): `k` is what follows the loop -/\n"
                            "def %s (k : Co) : List Item → Co\n  | [] => .iter k\n  | %s :: rest => .iter%s%s\n\n"
                            % (x, it.id, self.fn.name, st.lineno, aux, lname(x), ind(2), body))
            return "(%s%s%s%s%s)" % (aux, ind(d + 1), self.block(rest, env, ctx, d + 1), ind(d + 1), lname(it.id))
        if isinstance(it, ast.Call) and isinstance(it.func, ast.Name) and it.func.id == "range" and len(it.args) == 1 \
                and not it.keywords and "range" not in env:
            loop.nxt = lambda dd: "(%s k n)" % aux
            body = self.block(list(st.body), {}, loop, 2)       # the loop variable is NOT in scope: reading it is refused
            self.aux.append("/- the loop `for %s in %s:` of %s (line %d), by the number of iterations left; "
                            "`k` is what follows the loop -/\n"
                            "def %s (k : Co) : Nat → Co\n  | 0 => .iter k\n  | n + 1 => .iter%s%s\n\n"
                            % (x, ast.unparse(it), self.fn.name, st.lineno, aux, ind(2), body))
            return self.expr(it.args[0], env, d, lambda n, t: (
                "(%s%s%s%s(PyChan.rangeCount %s))" % (aux, ind(d + 1), self.block(rest, env, ctx, d + 1), ind(d + 1), n)
                if t == "int" else self.bad("range(%s)" % t)))
        raise Unsupported("for over `%s`" % ast.unparse(it))


class Module:
    def __init__(self, tree):
        self.tree = tree
        cls = [n for n in tree.body if isinstance(n, ast.ClassDef) and n.name == CLASS]
        if len(cls) != 1:
            raise Unsupported("no (single) class " + CLASS)
        self.cls = cls[0]
        if self.cls.decorator_list or self.cls.keywords:
            raise Unsupported(CLASS + " is decorated / has a metaclass")
        self.members = {}
        for n in self.cls.body:
            if isinstance(n, (ast.FunctionDef, ast.AsyncFunctionDef)):
                if n.name in self.members:
                    raise Unsupported("%s is defined twice" % n.name)
                self.members[n.name] = n
        for name in ORDER:
            if name not in self.members and name not in OPTIONAL:
                raise Unsupported("no method %s.%s" % (CLASS, name))
        self.names = [n for n in ORDER if n in self.members]
        self.sync = {n for n in self.names if isinstance(self.members[n], ast.FunctionDef)}
        self.asyncs = {n for n in self.names if isinstance(self.members[n], ast.AsyncFunctionDef)}
        self.sync_params = {n: len(self.members[n].args.args) + len(self.members[n].args.kwonlyargs) - 1 for n in self.sync}
        self.async_params = {n: len(self.members[n].args.args) + len(self.members[n].args.kwonlyargs) - 1 for n in self.asyncs}
        want_async = {"__anext__", "_flush_queue", "receive", "send", "send_from"}
        if self.asyncs != want_async:
            raise Unsupported("the coroutine methods are %s, expected %s" % (sorted(self.asyncs), sorted(want_async)))
        # the sentinel: a fresh object bound once in the class body
        fl = [n for n in self.cls.body if isinstance(n, ast.Assign) and len(n.targets) == 1
              and isinstance(n.targets[0], ast.Name) and n.targets[0].id == "__flush"]
        if len(fl) != 1 or ast.unparse(fl[0].value) != "object()":
            raise Unsupported("`__flush = object()` is not (the only binding of __flush) in the class body")
        # names that must keep their module-level / builtin meaning
        stores = {}
        for n in ast.walk(tree):
            if isinstance(n, ast.Name) and isinstance(n.ctx, (ast.Store, ast.Del)):
                stores[n.id] = stores.get(n.id, 0) + 1
            elif isinstance(n, (ast.FunctionDef, ast.ClassDef, ast.AsyncFunctionDef)):
                stores[n.name] = stores.get(n.name, 0) + 1
            elif isinstance(n, (ast.Import, ast.ImportFrom)):
                for a in n.names:
                    b = (a.asname or a.name).split(".")[0]
                    stores[b] = stores.get(b, 0) + 1
        if not any(isinstance(n, ast.Import) and any(a.name == "asyncio" and a.asname is None for a in n.names)
                   for n in tree.body) or stores.get("asyncio") != 1:
            raise Unsupported("`asyncio` is not (only) the module bound by `import asyncio`")
        if not any(isinstance(n, ast.ImportFrom) and n.module == "typing" and n.level == 0
                   and any(a.name == "AsyncIterable" and a.asname is None for a in n.names) for n in tree.body) \
                or stores.get("AsyncIterable") != 1:
            raise Unsupported("`AsyncIterable` is not (only) typing.AsyncIterable")
        for b in ("max", "range", "isinstance", "object", "StopAsyncIteration"):
            if stores.get(b):
                raise Unsupported("`%s` is rebound" % b)
        for x in ("ChannelClosed", "ChannelDone"):
            c = [n for n in tree.body if isinstance(n, ast.ClassDef) and n.name == x]
            if len(c) != 1 or stores.get(x) != 1 or [ast.unparse(b) for b in c[0].bases] != ["Exception"] \
                    or any(not (isinstance(s, ast.Expr) and isinstance(s.value, ast.Constant)) and not isinstance(s, ast.Pass)
                           for s in c[0].body):
                raise Unsupported("%s is not a plain subclass of Exception" % x)
        # every access `self.<x>` in the class is one the translator knows (a further attribute could carry state)
        known = set(FIELDS) | {"_queue", "__flush"} | set(self.members)
        for n in ast.walk(self.cls):
            if isinstance(n, ast.Attribute) and isinstance(n.value, ast.Name) and n.value.id == "self" and n.attr not in known:
                raise Unsupported("attribute self.%s" % n.attr)

    def translate(self):
        out, notes = [], []
        for name in self.names:
            m = Method(self, self.members[name])
            out.append(m.translate())
            notes += m.notes
        other = [n for n in self.members if n not in self.names]
        if other:
            notes.append("/- members of %s that are not translated (not called by the translated ones): %s -/\n"
                         % (CLASS, ", ".join(other)))
        return out + notes


def translate(path=SRC):
    tree = ast.parse(open(path).read())
    return Module(tree).translate()


HEADER = """import BpProofs.PyPreludeChan
/- GENERATED by harness/extract_srcchan.py from the Python AST of src/betterproto/grpc/util/async_channel.py -- do not edit.
   Each definition is the statement-by-statement translation of the named method of `AsyncChannel` into a resumption
   program `Co` (BpProofs/PyPreludeChan.lean): one command per access to `self._closed` / `_flushed` /
   `_waiting_receivers` and per call on `self._queue`; `h` of a command = what happens when it raises;
   `fin<i> k` = the `finally` block, then `k`. -/
set_option linter.unusedVariables false
namespace Bp.SrcChan
open Bp.Chan Bp.PyChan

"""


def render(path=SRC):
    try:
        defs = translate(path)
        return HEADER + "\n".join(defs) + "\nend Bp.SrcChan\n", None
    except Unsupported as e:
        msg = "the source translator does not support the current source: %s" % e
        return HEADER + "/- TRANSLATION FAILED: %s -/\n\nend Bp.SrcChan\n" % msg.replace("-/", "- /"), msg
    except (OSError, SyntaxError) as e:
        msg = "the source translator could not read the source: %r" % (e,)
        return HEADER + "/- TRANSLATION FAILED: %s -/\n\nend Bp.SrcChan\n" % msg.replace("-/", "- /"), msg


def main(write_if_changed, gen_dir):
    text, err = render()
    target = os.path.join(gen_dir, "..", "..", "BpProofs", "Gen", "SrcChan.lean")
    changed = write_if_changed(os.path.normpath(target), text)
    if err:
        print("extract_srcchan: " + err)
    return ["SrcChan.lean"] if changed else []


if __name__ == "__main__":
    t, e = render()
    print(t)
    if e:
        print("ERROR:", e)
