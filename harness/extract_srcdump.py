"""SOURCE TRANSLATOR, per-field emission decision of `Message.dump` / `Message.__len__` (properties C06 / C09 / C01 /
C02 / C07): Python AST of the BODY of the loop

    for field_name, meta in self._betterproto.meta_by_field_name.items():

of both methods of /repo/src/betterproto/__init__.py -> two Lean definitions `Src.dump_field`, `Src.len_field`.

Same scheme as extract_src.py (whose statement translator `Tr` is subclassed here): on every run the two loop bodies are
read from the WORKING TREE with `ast`, translated statement by statement into pure Lean functions over the vocabulary of
lean/BpProofs/PyPrelude.lean + lean/BpProofs/PyPreludeDyn.lean and written to lean/BpProofs/Gen/SrcDump.lean.
lean/BpProofs/SrcTieDump.lean proves them equal to the model's `dumpSlot` / `lenSlot` for every field descriptor, every
value and both flags; lean/BpProofs/Props/C06Src.lean / C09Src.lean state that as property obligations.

Interface of a translated loop body (one iteration for the field described by `meta`):

    Src.dump_field (S : Schema) (enc : Val → R Bytes) (meta : FieldD) (got : Py.Got) (inclDefaultForOneof : Bool)
                   (stream : Bytes) : Py.Res Bytes          -- the stream after the iteration
    Src.len_field  (S : Schema) (enc : Val → R Bytes) (meta : FieldD) (got : Py.Got) (inclDefaultForOneof : Bool)
                   (size : Int) : Py.Res Int                -- `size` after the iteration

  got                  outcome of `getattr(self, field_name)`: AttributeError, or the value (a model `Val`)
  inclDefaultForOneof  result of `self._include_default_value_for_oneof(field_name=field_name, meta=meta)`
  enc                  `bytes(value)` for a Message instance (the recursive encoder), used by the intrinsics
  `continue` and falling off the end of the body both return the loop-carried variable (stream / size).

Constructs added to those of extract_src.Tr (anything else raises Unsupported -> generated file without definitions):
  `try: <x> = getattr(self, field_name) / except AttributeError: …` (match on `got`); `continue`; `<x> is None`;
  `isinstance(<x>, Message | list | dict | str | bytes | (tuple of these))`; truth value of a field value (`not <x>`); `<x>._serialized_on_wire` (AttributeError on a non-Message);
  `a and <effectful b>` on bools (short circuit); `bool(<x>)`; `meta.group / optional / proto_type / number / wraps /
  map_types[0|1]`; `meta.wraps or ""`; the string `""` as a `wraps` argument and in `<x> == ""`;
  `<x> == self._get_field_default(field_name)`; `self._include_default_value_for_oneof(field_name=field_name,
  meta=meta)`; TYPE_* constants; `assert meta.map_types`; `for item in <x>` inside `if isinstance(<x>, list):` and
  `for k, v in <x>.items()` inside `if isinstance(<x>, dict):` (structural recursion over the items; no return /
  continue / break / nested loop in the body); `<call> or <bytes / int constant>`; the intrinsic calls
  `_preprocess_single(t, wraps, v)`, `_serialize_single(n, t, v, serialize_empty=, wraps=)`, `_len_single(…)` whose
  parameter lists are checked against the definitions in the source.
There is no fuel: every loop is a structural recursion over a model list.
"""
import ast
import os

from extract_src import SRC, Sig, Tr, Unsupported, indent, nm, find_function

LEAN_TY = {"int": "Int", "bytes": "Bytes", "bool": "Bool", "stream": "Bytes", "val": "Val", "vlist": "Val",
           "vdict": "Val", "meta": "FieldD", "ptype": "PType", "wraps": "(Option PType)", "group": "(Option Nat)",
           "nat": "Nat"}
VAL_TYPES = ("val", "vlist", "vdict")
PTYPE_CTOR = {"enum": "enum", "bool": "bool", "int32": "int32", "int64": "int64", "uint32": "uint32", "uint64": "uint64",
              "sint32": "sint32", "sint64": "sint64", "float": "float", "double": "double", "fixed32": "fixed32",
              "sfixed32": "sfixed32", "fixed64": "fixed64", "sfixed64": "sfixed64", "string": "string", "bytes": "bytes",
              "message": "message", "map": "map"}
LOOP_ITER = "self._betterproto.meta_by_field_name.items()"
INCL = "inclDefaultForOneof"
# expected parameter lists of the intrinsics: (positional names, keyword-only names with the source text of their defaults)
INTRINSIC_SIGS = {
    "_preprocess_single": (["proto_type", "wraps", "value"], []),
    "_serialize_single": (["field_number", "proto_type", "value"], [("serialize_empty", "False"), ("wraps", "''")]),
    "_len_single": (["field_number", "proto_type", "value"], [("serialize_empty", "False"), ("wraps", "''")]),
}


def lty(t):
    if isinstance(t, tuple):
        return "(" + " × ".join(lty(x) for x in t) + ")"
    if t not in LEAN_TY:
        raise Unsupported("no Lean type for " + str(t))
    return LEAN_TY[t]


class TrDyn(Tr):
    """translator of one iteration of the field loop"""

    def __init__(self, sig, consts, ptypes, field_var, meta_var, carry, intrinsics):
        super().__init__({}, sig, consts)
        self.ptypes = ptypes            # TYPE_* name -> Lean constructor
        self.field_var, self.meta_var, self.carry = field_var, meta_var, carry
        self.intrinsics = intrinsics    # names of the intrinsics whose definition has the expected parameter list

    # ------------------------------------------------------------------------------------------------ expressions
    def is_self(self, e, env):
        return isinstance(e, ast.Name) and e.id == "self" and "self" not in env

    def is_field_name(self, e, env):
        return isinstance(e, ast.Name) and e.id == self.field_var and e.id not in env

    def is_meta(self, e, env):
        return isinstance(e, ast.Name) and env.get(e.id) == "meta"

    def value_operand(self, e, env):
        """a pure operand of one of the value types -> Lean text"""
        b, t, ty = self.expr(e, env)
        if b or ty not in VAL_TYPES:
            raise Unsupported("expected a field value, got %s of type %s" % (ast.unparse(e), ty))
        return t

    def expr(self, e, env):
        if isinstance(e, ast.Constant) and isinstance(e.value, str):
            if e.value == "":
                return [], "Py.noWraps", "emptystr"
            raise Unsupported("string constant %r" % e.value)
        if isinstance(e, ast.Name) and e.id not in env and e.id in self.ptypes:
            return [], "PType." + self.ptypes[e.id], "ptype"
        if isinstance(e, ast.Attribute):
            if self.is_meta(e.value, env):
                m = nm(e.value.id)
                attr = {"group": ("(Py.metaGroup %s)", "group"), "optional": ("(Py.metaOptional %s)", "bool"),
                        "proto_type": ("(Py.metaProtoType %s)", "ptype"), "number": ("(Py.metaNumber %s)", "nat"),
                        "wraps": ("(Py.metaWraps %s)", "wraps"), "map_types": ("%s", "maptypes")}.get(e.attr)
                if attr is None:
                    raise Unsupported("attribute %s.%s" % (e.value.id, e.attr))
                return [], attr[0] % m, attr[1]
            if e.attr == "_serialized_on_wire":
                v = self.value_operand(e.value, env)
                t = self.tmp()
                return [("bind", t, "Py.serializedOnWire %s" % v)], t, "bool"
            raise Unsupported("attribute " + ast.unparse(e))
        if isinstance(e, ast.Subscript):
            b, t, ty = self.expr(e.value, env)
            if ty == "maptypes" and not b and isinstance(e.slice, ast.Constant) and e.slice.value in (0, 1) \
                    and type(e.slice.value) is int:
                return [], "(Py.%s %s)" % (("metaMapKey", "metaMapValue")[e.slice.value], t), "ptype"
            raise Unsupported("subscript " + ast.unparse(e))
        if isinstance(e, ast.Compare) and len(e.ops) == 1:
            op, right = e.ops[0], e.comparators[0]
            if isinstance(op, (ast.Is, ast.IsNot)):
                if not (isinstance(right, ast.Constant) and right.value is None):
                    raise Unsupported("identity test " + ast.unparse(e))
                v = self.value_operand(e.left, env)
                txt = "(Py.isNone %s)" % v
                return [], txt if isinstance(op, ast.Is) else "(!%s)" % txt, "bool"
            if isinstance(op, ast.Eq):
                # <value> == self._get_field_default(field_name)
                if isinstance(right, ast.Call) and isinstance(right.func, ast.Attribute) and self.is_self(right.func.value, env) \
                        and right.func.attr == "_get_field_default":
                    if len(right.args) != 1 or right.keywords or not self.is_field_name(right.args[0], env):
                        raise Unsupported("arguments of " + ast.unparse(right))
                    v = self.value_operand(e.left, env)
                    return [], "(Py.eqFieldDefault S %s %s)" % (nm(self.meta_var), v), "bool"
                if isinstance(right, ast.Constant) and right.value == "" and isinstance(right.value, str):
                    v = self.value_operand(e.left, env)
                    return [], "(Py.eqEmptyStr %s)" % v, "bool"
        if isinstance(e, ast.BoolOp):
            return self.boolop(e, env)
        return super().expr(e, env)

    def boolop(self, e, env):
        vals = [self.expr(v, env) for v in e.values]
        tys = [ty for _, _, ty in vals]
        is_or = isinstance(e.op, ast.Or)
        # meta.wraps or ""
        if is_or and len(vals) == 2 and tys[0] == "wraps" and tys[1] in ("wraps", "emptystr") and not vals[0][0] and not vals[1][0]:
            return [], "(Py.wrapsOr %s %s)" % (vals[0][1], vals[1][1]), "wraps"
        # <call> or <pure bytes / int>: the second operand has no effect, so evaluating it first changes nothing
        if is_or and len(vals) == 2 and tys[0] == tys[1] and tys[0] in ("bytes", "int") and not vals[1][0]:
            fn = "Py.bytesOr" if tys[0] == "bytes" else "Py.intOr"
            return vals[0][0], "(%s %s %s)" % (fn, vals[0][1], vals[1][1]), tys[0]
        if not any(b for b, _, _ in vals):
            sym = " || " if is_or else " && "
            return [], "(" + sym.join(self.truthy(t, ty) for _, t, ty in vals) + ")", "bool"
        # short circuit with effectful operands: fold from the right into nested conditionals
        if any(ty != "bool" for ty in tys):
            raise Unsupported("and / or with an effectful operand that is not a bool: " + ast.unparse(e))
        b_last, t_last, _ = vals[-1]
        acc = self.wrap(b_last, ".ok %s" % t_last)
        pure = not b_last
        for b, t, _ in reversed(vals[:-1]):
            if is_or:
                inner = "if %s then .ok true else\n%s" % (t, indent(acc))
            else:
                inner = "if %s then\n%s\nelse .ok false" % (t, indent(acc))
            acc = self.wrap(b, inner)
        r = self.tmp()
        return [("bind", r, "(%s)" % acc)], r, "bool"

    def truthy(self, text, ty):
        if ty == "group":
            return "(Py.truthyGroup %s)" % text
        if ty == "wraps":
            return "(%s).isSome" % text
        if ty == "maptypes":
            return "(Py.mapTypesSet %s)" % text
        if ty in VAL_TYPES:
            return "(Py.truthyVal S %s)" % text
        return super().truthy(text, ty)

    def as_value(self, e, env):
        """argument in a `value` position of an intrinsic: a field value, or bytes"""
        b, t, ty = self.expr(e, env)
        if ty in VAL_TYPES:
            return b, t
        if ty == "bytes":
            return b, "(Py.bytesVal %s)" % t
        raise Unsupported("value argument %s of type %s" % (ast.unparse(e), ty))

    def typed(self, e, env, want):
        b, t, ty = self.expr(e, env)
        if want == "wraps" and ty == "emptystr":
            return b, t
        if want == "nat" and ty == "int" and isinstance(e, ast.Constant) and type(e.value) is int and e.value >= 0:
            return b, "(%d : Nat)" % e.value
        if want == "bool" and ty != "bool" and not b:
            return b, self.truthy(t, ty)
        if ty != want:
            raise Unsupported("argument %s has type %s, expected %s" % (ast.unparse(e), ty, want))
        return b, t

    def intrinsic(self, name, e, env):
        if name not in self.intrinsics:
            raise Unsupported("the parameter list of %s is not the expected one" % name)
        pos, kwonly = INTRINSIC_SIGS[name]
        if len(e.args) > len(pos):
            raise Unsupported("too many positional arguments: " + ast.unparse(e))
        given = dict(zip(pos, e.args))
        for k in e.keywords:
            if k.arg is None or k.arg in given or k.arg not in pos + [n for n, _ in kwonly]:
                raise Unsupported("keyword argument of " + ast.unparse(e))
            given[k.arg] = k.value
        if any(p not in given for p in pos):
            raise Unsupported("missing argument: " + ast.unparse(e))
        binds = []

        def arg(pname, want, default=None):
            if pname not in given:
                return default
            if want == "value":
                b, t = self.as_value(given[pname], env)
            else:
                b, t = self.typed(given[pname], env, want)
            binds.extend(b)
            return t
        # Python evaluates the arguments in the order they are written; every argument here is pure except for
        # nested intrinsic calls, which are bound in that order
        order = list(e.args) + [k.value for k in e.keywords]
        names = [p for p in pos[:len(e.args)]] + [k.arg for k in e.keywords]
        vals = {}
        for pname in names:
            want = {"field_number": "nat", "proto_type": "ptype", "value": "value", "serialize_empty": "bool", "wraps": "wraps"}[pname]
            vals[pname] = arg(pname, want)
        t = self.tmp()
        if name == "_preprocess_single":
            call = "Py.preprocessSingle S enc %s %s %s" % (vals["proto_type"], vals["wraps"], vals["value"])
            return binds + [("bind", t, call)], t, "bytes"
        se = vals.get("serialize_empty", "false")
        wr = vals.get("wraps", "Py.noWraps")
        fn, rty = ("Py.serializeSingle", "bytes") if name == "_serialize_single" else ("Py.lenSingle", "int")
        call = "%s S enc %s %s %s %s %s" % (fn, vals["field_number"], vals["proto_type"], vals["value"], se, wr)
        return binds + [("bind", t, call)], t, rty

    def call(self, e, env):
        f = e.func
        if isinstance(f, ast.Name) and f.id not in env:
            if f.id == "isinstance" and len(e.args) == 2 and not e.keywords:
                classes = e.args[1].elts if isinstance(e.args[1], ast.Tuple) else [e.args[1]]
                table = {"Message": "Py.isMessage", "list": "Py.isList", "dict": "Py.isDict", "str": "Py.isStr", "bytes": "Py.isBytes"}
                if not classes or not all(isinstance(c, ast.Name) and c.id in table for c in classes):
                    raise Unsupported("isinstance(…, %s)" % ast.unparse(e.args[1]))
                v = self.value_operand(e.args[0], env)
                tests = ["(%s %s)" % (table[c.id], v) for c in classes]
                return [], tests[0] if len(tests) == 1 else "(" + " || ".join(tests) + ")", "bool"
            if f.id == "bool" and len(e.args) == 1 and not e.keywords:
                b, t, ty = self.expr(e.args[0], env)
                return b, self.truthy(t, ty), "bool"
            if f.id in INTRINSIC_SIGS:
                return self.intrinsic(f.id, e, env)
        if isinstance(f, ast.Attribute) and self.is_self(f.value, env) and f.attr == "_include_default_value_for_oneof":
            kw = {k.arg: k.value for k in e.keywords}
            if e.args or sorted(kw) != ["field_name", "meta"] or not self.is_field_name(kw["field_name"], env) \
                    or not self.is_meta(kw["meta"], env):
                raise Unsupported("arguments of " + ast.unparse(e))
            return [], INCL, "bool"
        return super().call(e, env)

    # -------------------------------------------------------------------------------------------------- statements
    def carried(self):
        return ".ok %s" % nm(self.carry)

    def block(self, stmts, env, k, in_loop):
        if not stmts:
            return k(env)
        st, rest = stmts[0], stmts[1:]
        if isinstance(st, ast.Continue):
            if in_loop:
                raise Unsupported("continue inside an inner loop")
            return self.carried()
        if isinstance(st, (ast.Break, ast.Return)) and in_loop:
            raise Unsupported("break / return inside an inner loop")
        if isinstance(st, ast.Try):
            if in_loop or st.orelse or st.finalbody or len(st.handlers) != 1 or len(st.body) != 1:
                raise Unsupported("try statement")
            h, a = st.handlers[0], st.body[0]
            ok = (isinstance(h.type, ast.Name) and h.type.id == "AttributeError" and h.name is None
                  and isinstance(a, ast.Assign) and len(a.targets) == 1 and isinstance(a.targets[0], ast.Name)
                  and isinstance(a.value, ast.Call) and isinstance(a.value.func, ast.Name) and a.value.func.id == "getattr"
                  and len(a.value.args) == 2 and not a.value.keywords and self.is_self(a.value.args[0], env)
                  and self.is_field_name(a.value.args[1], env))
            if not ok or "got" in self.used_try:
                raise Unsupported("try statement other than `x = getattr(self, %s)` / except AttributeError" % self.field_var)
            self.used_try.add("got")
            var = a.targets[0].id
            handler = self.block(list(h.body) + rest, dict(env), k, in_loop)
            env2 = dict(env)
            env2[var] = "val"
            cont = self.block(rest, env2, k, in_loop)
            return "match got with\n| Py.Got.attrError =>\n%s\n| Py.Got.value %s =>\n%s" % (indent(handler), nm(var), indent(cont))
        if isinstance(st, ast.Assert):
            if st.msg is not None:
                raise Unsupported("assert with a message")
            bc, c, tc = self.expr(st.test, env)
            return self.wrap(bc, "if %s then\n%s\nelse\n  .raise .assertion" % (self.truthy(c, tc), indent(self.block(rest, env, k, in_loop))))
        if isinstance(st, ast.If):
            t = st.test
            if isinstance(t, ast.Call) and isinstance(t.func, ast.Name) and t.func.id == "isinstance" and len(t.args) == 2 \
                    and isinstance(t.args[0], ast.Name) and env.get(t.args[0].id) in VAL_TYPES \
                    and isinstance(t.args[1], ast.Name) and t.args[1].id in ("list", "dict") and not t.keywords:
                # inside the branch the value is known to be a list / dict: `for` loops over it are translated
                bc, c, tc = self.expr(t, env)
                env2 = dict(env)
                env2[t.args[0].id] = "vlist" if t.args[1].id == "list" else "vdict"
                thn = self.block(list(st.body) + rest, env2, k, in_loop)
                els = self.block(list(st.orelse) + rest, dict(env), k, in_loop)
                return "if %s then\n%s\nelse\n%s" % (c, indent(thn), indent(els))
        return super().block(stmts, env, k, in_loop)

    def loop(self, st, rest, env, k, in_loop):
        if not isinstance(st, ast.For) or st.orelse or in_loop:
            raise Unsupported("while loop / for-else / nested loop")
        env = dict(env)
        it = st.iter
        benv = dict(env)
        if isinstance(it, ast.Name) and env.get(it.id) == "vlist" and isinstance(st.target, ast.Name):
            seq, ety, pat = "(Py.listItems %s)" % nm(it.id), "Val", nm(st.target.id)
            benv[st.target.id] = "val"
            targets = [st.target.id]
        elif isinstance(it, ast.Call) and isinstance(it.func, ast.Attribute) and it.func.attr == "items" and not it.args \
                and not it.keywords and isinstance(it.func.value, ast.Name) and env.get(it.func.value.id) == "vdict" \
                and isinstance(st.target, ast.Tuple) and len(st.target.elts) == 2 and all(isinstance(x, ast.Name) for x in st.target.elts):
            seq, ety = "(Py.dictItems %s)" % nm(it.func.value.id), "(Val × Val)"
            targets = [x.id for x in st.target.elts]
            pat = "(%s, %s)" % tuple(nm(x) for x in targets)
            for x in targets:
                benv[x] = "val"
        else:
            raise Unsupported("for over " + ast.unparse(it) + " (not a value known to be a list / the items of a dict)")
        if len(set(targets)) != len(targets):
            raise Unsupported("loop targets")
        body = list(st.body)
        state = [v for v in self.assigned(body, env) if v not in targets]
        if any(t in env for t in targets):
            raise Unsupported("loop target shadows a variable")
        if not state:
            raise Unsupported("loop without effect")
        used = self.used(body)
        ro = [v for v in env if v not in state and v in used]
        self.nloop += 1
        lname = "%s.loop%d" % (self.sig.name, self.nloop)
        stup = "(" + ", ".join(nm(v) for v in state) + ")" if len(state) != 1 else nm(state[0])
        sty = "(" + " × ".join(lty(env[v]) for v in state) + ")" if len(state) != 1 else lty(env[state[0]])
        uses_incl = any(isinstance(x, ast.Attribute) and x.attr == "_include_default_value_for_oneof" for s in body for x in ast.walk(s))
        fixed = "S enc" + (" " + INCL if uses_incl else "")
        fixed_sig = "(S : Schema) (enc : Val → R Bytes)" + (" (%s : Bool)" % INCL if uses_incl else "")
        roargs = "".join(" " + nm(v) for v in ro)

        def again(env2):
            return "%s %s%s items' %s" % (lname, fixed, roargs, stup)
        btxt = self.block(body, benv, again, True)
        sig_params = "".join(" (%s : %s)" % (nm(v), lty(env[v])) for v in ro)
        d = "def %s %s%s : List %s → %s → Py.Res %s\n  | [], %s => .ok %s\n  | %s :: items', %s =>\n%s" % (
            lname, fixed_sig, sig_params, ety, sty, sty, stup, stup, pat, stup, indent(btxt, 4))
        self.aux.append(d)
        after = self.block(rest, env, k, in_loop)
        return "(%s %s%s %s %s).bind fun %s =>\n%s" % (lname, fixed, roargs, seq, stup, stup, after)

    def body_def(self, stmts):
        """Lean definition(s) of one iteration"""
        self.fresh_stream = {}
        self.used_try = set()
        env = {self.meta_var: "meta", self.carry: "stream" if self.sig.stream else "int"}

        def fall_off(env2):
            return self.carried()
        txt = self.block(stmts, env, fall_off, False)
        cty = "Bytes" if self.sig.stream else "Int"
        d = "def %s (S : Schema) (enc : Val → R Bytes) (%s : FieldD) (got : Py.Got) (%s : Bool) (%s : %s) : Py.Res %s :=\n%s" % (
            self.sig.name, nm(self.meta_var), INCL, nm(self.carry), cty, cty, indent(txt))
        return "\n\n".join(self.aux + [d])


# ------------------------------------------------------------------------------------------------ what is translated
def find_method(tree, cls, name):
    hits = [m for c in tree.body if isinstance(c, ast.ClassDef) and c.name == cls
            for m in c.body if isinstance(m, ast.FunctionDef) and m.name == name]
    if len(hits) != 1:
        raise Unsupported("method %s.%s found %d times" % (cls, name, len(hits)))
    return hits[0]


def field_loop(fn):
    """the `for <field_name>, <meta> in self._betterproto.meta_by_field_name.items():` statement of the method"""
    hits = [n for n in ast.walk(fn) if isinstance(n, ast.For) and ast.unparse(n.iter) == LOOP_ITER]
    if len(hits) != 1 or hits[0] not in fn.body:
        raise Unsupported("field loop of %s found %d times at the top level" % (fn.name, len(hits)))
    lp = hits[0]
    if lp.orelse or not (isinstance(lp.target, ast.Tuple) and len(lp.target.elts) == 2 and all(isinstance(x, ast.Name) for x in lp.target.elts)):
        raise Unsupported("target of the field loop of " + fn.name)
    return lp, lp.target.elts[0].id, lp.target.elts[1].id


def check_intrinsics(tree):
    ok = set()
    for name, (pos, kwonly) in INTRINSIC_SIGS.items():
        try:
            fn = find_function(tree, name)
        except Unsupported:
            continue
        a = fn.args
        if [x.arg for x in a.args] == pos and not a.defaults and not a.vararg and not a.kwarg and not a.posonlyargs \
                and [(x.arg, ast.unparse(d) if d is not None else None) for x, d in zip(a.kwonlyargs, a.kw_defaults)] == kwonly:
            ok.add(name)
    return ok


def translate(path=SRC):
    tree = ast.parse(open(path).read())
    consts, ptypes = {}, {}
    for n in tree.body:  # module-level integer constants and the TYPE_* strings
        if isinstance(n, ast.Assign) and len(n.targets) == 1 and isinstance(n.targets[0], ast.Name) and isinstance(n.value, ast.Constant):
            if type(n.value.value) is int:
                consts[n.targets[0].id] = n.value.value
            elif type(n.value.value) is str and n.targets[0].id.startswith("TYPE_") and n.value.value in PTYPE_CTOR:
                ptypes[n.targets[0].id] = PTYPE_CTOR[n.value.value]
    intrinsics = check_intrinsics(tree)
    out = []
    # ---- Message.dump: the stream parameter is the loop-carried variable
    fn = find_method(tree, "Message", "dump")
    lp, field_var, meta_var = field_loop(fn)
    params = [a.arg for a in fn.args.args]
    if len(params) < 2 or params[0] != "self":
        raise Unsupported("parameters of Message.dump")
    stream = params[1]
    sg = Sig("dump_field", [], "none", stream)
    tr = TrDyn(sg, consts, ptypes, field_var, meta_var, stream, intrinsics)
    out.append("/- body of the field loop of Message.dump  (src/betterproto/__init__.py, line %d) -/\n%s" % (lp.lineno, tr.body_def(list(lp.body))))
    # ---- Message.__len__: the variable that is returned is the loop-carried variable
    fn = find_method(tree, "Message", "__len__")
    lp, field_var, meta_var = field_loop(fn)
    last = fn.body[-1]
    if not (isinstance(last, ast.Return) and isinstance(last.value, ast.Name)):
        raise Unsupported("Message.__len__ does not end in `return <variable>`")
    carry = last.value.id
    init = [s for s in fn.body[:fn.body.index(lp)] if isinstance(s, ast.Assign) and len(s.targets) == 1
            and isinstance(s.targets[0], ast.Name) and s.targets[0].id == carry]
    if len(init) != 1 or not (isinstance(init[0].value, ast.Constant) and type(init[0].value.value) is int):
        raise Unsupported("Message.__len__: `%s` is not initialised to an int constant before the field loop" % carry)
    sg = Sig("len_field", [], "int", None)
    tr = TrDyn(sg, consts, ptypes, field_var, meta_var, carry, intrinsics)
    out.append("/- body of the field loop of Message.__len__  (src/betterproto/__init__.py, line %d) -/\n%s" % (lp.lineno, tr.body_def(list(lp.body))))
    return out


HEADER = """import BpProofs.PyPreludeDyn
import BpModel.Gen.WireTables
/- GENERATED by harness/extract_srcdump.py from the Python AST of src/betterproto/__init__.py -- do not edit.
   Each definition is the statement-by-statement translation of ONE ITERATION of the field loop of Message.dump /
   Message.__len__ (`got` = outcome of getattr(self, field_name), `inclDefaultForOneof` = result of
   self._include_default_value_for_oneof(...), `enc` = bytes(<Message>), the loop-carried stream / size is returned). -/
set_option linter.unusedVariables false
namespace Bp.Src
open Bp

"""


def render(path=SRC):
    try:
        defs = translate(path)
        return HEADER + "\n\n".join(defs) + "\n\nend Bp.Src\n", None
    except Unsupported as e:
        msg = "the source translator does not support the current source: %s" % e
        return HEADER + "/- TRANSLATION FAILED: %s -/\n\nend Bp.Src\n" % msg, msg
    except (OSError, SyntaxError) as e:
        msg = "the source translator could not read the source: %r" % (e,)
        return HEADER + "/- TRANSLATION FAILED: %s -/\n\nend Bp.Src\n" % msg, msg


def main(write_if_changed, gen_dir):
    text, err = render()
    target = os.path.join(gen_dir, "..", "..", "BpProofs", "Gen", "SrcDump.lean")
    changed = write_if_changed(os.path.normpath(target), text)
    if err:
        print("extract_srcdump: " + err)
    return ["SrcDump.lean"] if changed else []


if __name__ == "__main__":
    t, e = render()
    print(t)
    if e:
        print("ERROR:", e)
