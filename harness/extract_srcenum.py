"""SOURCE TRANSLATOR (C20): Python AST of the methods of `EnumType` / `Enum` of /repo/src/betterproto/enum.py -> Lean
definitions.

Same scheme as extract_src.py (whose statement translator `Tr` is subclassed here): on every run the methods listed in
METHODS and the member loop of `EnumType.__new__` are read from the WORKING TREE with `ast`, translated statement by
statement into pure Lean functions over the vocabulary of lean/BpProofs/PyPrelude.lean (`Py.Res`) +
lean/BpProofs/PyPreludeEnum.lean and written to lean/BpProofs/Gen/SrcEnum.lean.  lean/BpProofs/SrcTieEnum.lean proves
each translated function equal to the hand-written model function of lean/BpModel/EnumM.lean (`declare`, `mk`, `call`,
`getitem`, `fromString`, `tryValue`, `iter`, `len`, `contains`, the results of `step`) for every declaration list,
class state and argument; lean/BpProofs/Props/C20Src.lean states that as property obligations.

What is produced (ν = the type of names; `PyEnum.ClsObj ν` = the class object, see the prelude):

    Src.EnumType.new_step (cls) (name : ν) (value : Int) : Py.Res (ClsObj ν)    one turn of `for name, value in members.items():`
    Src.EnumType.new_loop (cls) : List (ν × Int) → Py.Res (ClsObj ν)            the loop (structural recursion over the items)
    Src.EnumType.new (members : List (ν × Int)) : Py.Res (ClsObj ν)             `__new__` from `value_map = {}` to `return cls`
    Src.EnumType.call / getitem / iter / reversed / len / contains / setattr / delattr
    Src.Enum.try_value / from_string / getnewargs_ex / setattr / delattr / copy / deepcopy

  A method that allocates an object or stores into a dict of the class THREADS the class object (like the `stream`
  parameter of extract_src.py): it returns `Py.Res (result × ClsObj ν)`; a method that does neither returns
  `Py.Res result`, so that "does not change the class" is visible in its type.  A method annotated `-> Never`
  returns `Py.Res Empty`.

`EnumType.__new__`: its body must consist of exactly — in this order, other statements are Unsupported —
    VM = {} ; MM = {}                       (either order)
    NM = type(…, …, {"_value_map_": VM, "_member_map_": MM})
    M = {… dict comprehension …}            (the `members` dict: the parameter of the translated function; which
                                             entries of the class namespace are members is outside the model)
    C = type.__new__(NM, …)
    for <name>, <value> in M.items(): …     (translated)
    return C
  and VM / MM / C are mentioned nowhere else outside the loop.  Inside the loop VM, MM and NM are the class's
  `_value_map_`, `_member_map_` and metaclass attributes.  All local names are read from the source.

Supported in method bodies (anything else raises Unsupported: the generated file then holds no definition and every tie
theorem fails to compile):
  `cls._value_map_` / `cls._member_map_` (and the locals VM / MM inside the loop); `d.get(k)`; `d[k]`; `d[k] = v`;
  `d.setdefault(k, v)`; `<d.get(k)> or <member>` (None is false, a member is false exactly when its int value is 0);
  `len(d)`; `d.values()`; `reversed(d.values())`; `k in d`; `x is None` / `x is not None` on the result of `d.get`, as an
  `if` test (the variable is a member in the other branch); `cls.__new__(cls, name=<name | None>, value=<int>)`;
  `type.__setattr__(NM, name, member)`; `try: return <lookup> / except <classes> [as e]: …` with one or more handlers;
  `raise X(<message>) [from None | from e]` with a message built from names, `.__name__`, `.__class__.__name__`;
  `isinstance(<object argument>, cls)`; `<object argument>.name`; `self.name` / `self.value`; `and` / `or` / `not` on bools
  (short circuit when an operand can raise); `if` on a bool; assignment of a member / int / bool to a local;
  `return`; `return (), {"name": …, "value": …}`; `yield from <values>` as the whole body of a generator.
`if not TYPE_CHECKING:` blocks in a class body are containers of method definitions.  A method that is defined twice,
conditionally, or assigned at class level, and a class that defines one of the hooks in FORBIDDEN (which would change
what the prelude assumes about attribute lookup, isinstance or pickling) are Unsupported.
"""
import ast
import os

from extract_src import Tr, Sig, Unsupported, EXC, indent, nm

REPO = os.environ.get("VERIF_REPO", "/repo")
SRC = os.path.join(REPO, "src", "betterproto", "enum.py")
REL = "src/betterproto/enum.py"

LEAN_TY = {"cls": "(PyEnum.ClsObj ν)", "int": "Int", "name": "ν", "member": "(Member ν)",
           "optmember": "(Option (Member ν))", "optname": "(Option ν)", "obj": "(PyEnum.Obj ν)", "any": "PyEnum.AnyVal",
           "bool": "Bool", "members": "(List (Member ν))", "newargs": "(PyEnum.NewArgs ν)", "never": "Empty",
           "none": "Unit", "decl": "(List (ν × Int))"}
PARAM_ANN = {"int": "int", "str": "name", "Optional[str]": "optname", "Any": "any", "object": "obj"}
RET_ANN = {"Enum": "member", "Self": "member", "int": "int", "bool": "bool", "Never": "never", "None": "none",
           "Generator[Enum, None, None]": "members", "Tuple[Tuple[()], Dict[str, Any]]": "newargs"}
DICT_TYS = {"vmap": ("PyEnum.valueMap", "PyEnum.setValueMap", "int"), "mmap": ("PyEnum.memberMap", "PyEnum.setMemberMap", "name")}
CLASS_ATTR = {"_value_map_": "vmap", "_member_map_": "mmap"}

# (class, python method, lean name, is classmethod)
METHODS = [
    ("EnumType", "__call__", "EnumType.call", False),
    ("EnumType", "__iter__", "EnumType.iter", False),
    ("EnumType", "__reversed__", "EnumType.reversed", False),
    ("EnumType", "__getitem__", "EnumType.getitem", False),
    ("EnumType", "__len__", "EnumType.len", False),
    ("EnumType", "__setattr__", "EnumType.setattr", False),
    ("EnumType", "__delattr__", "EnumType.delattr", False),
    ("EnumType", "__contains__", "EnumType.contains", False),
    ("Enum", "__getnewargs_ex__", "Enum.getnewargs_ex", False),
    ("Enum", "__setattr__", "Enum.setattr", False),
    ("Enum", "__delattr__", "Enum.delattr", False),
    ("Enum", "__copy__", "Enum.copy", False),
    ("Enum", "__deepcopy__", "Enum.deepcopy", False),
    ("Enum", "try_value", "Enum.try_value", True),
    ("Enum", "from_string", "Enum.from_string", True),
]
# hooks whose presence would change what the prelude assumes
FORBIDDEN = {
    "EnumType": ["__getattribute__", "__getattr__", "__instancecheck__", "__subclasscheck__", "__prepare__", "__init__", "mro"],
    "Enum": ["__getattribute__", "__getattr__", "__reduce__", "__reduce_ex__", "__getstate__", "__setstate__",
             "__getnewargs__", "__init__", "__init_subclass__", "__class_getitem__", "__eq__", "__hash__", "__index__", "__int__",
             "__bool__", "__len__"],
}
CLASS_BASES = {"EnumType": ("EnumMeta if TYPE_CHECKING else type", []),
               "Enum": ("IntEnum if TYPE_CHECKING else int", [("metaclass", "EnumType")])}
ENUM_NEW_PARAMS = (["cls"], ["name", "value"])   # Enum.__new__(cls, *, name, value)


def lty(t):
    if isinstance(t, tuple):
        return "(" + " × ".join(lty(x) for x in t) + ")"
    if t not in LEAN_TY:
        raise Unsupported("no Lean type for " + str(t))
    return LEAN_TY[t]


class TrE(Tr):
    """translator of one method body / of the body of the member loop"""

    def __init__(self, sig, aliases):
        Tr.__init__(self, {}, sig, {})
        self.aliases = aliases          # local name -> ("vmap" | "mmap" | "meta", name of the class variable)
        self.exc_names = []             # names bound by `except … as e` around the current statement

    # ------------------------------------------------------------------------------------------------ expressions
    def dict_ref(self, e, env):
        """e denotes a dict of the class -> (kind, class variable) or None"""
        if isinstance(e, ast.Name) and e.id in self.aliases and e.id not in env and self.aliases[e.id][0] in DICT_TYS:
            return self.aliases[e.id]
        if isinstance(e, ast.Attribute) and isinstance(e.value, ast.Name) and env.get(e.value.id) == "cls" and e.attr in CLASS_ATTR:
            return CLASS_ATTR[e.attr], e.value.id
        return None

    def pure(self, e, env, want):
        b, t, ty = self.expr(e, env)
        if ty not in want:
            raise Unsupported("%s has type %s, expected %s" % (ast.unparse(e), ty, " / ".join(want)))
        return b, t, ty

    def expr(self, e, env):
        ref = self.dict_ref(e, env)
        if ref is not None:
            return [], "(%s %s)" % (DICT_TYS[ref[0]][0], nm(ref[1])), ref[0]
        if isinstance(e, ast.Constant):
            if e.value is None or isinstance(e.value, bool):
                return Tr.expr(self, e, env)
            if type(e.value) is int:
                return [], "(%d : Int)" % e.value, "int"
            raise Unsupported("constant %r" % (e.value,))
        if isinstance(e, ast.Name):
            if e.id in env:
                return [], nm(e.id), env[e.id]
            raise Unsupported("unknown name %s" % e.id)
        if isinstance(e, ast.Attribute):
            if isinstance(e.value, ast.Name) and e.value.id in env:
                ty = env[e.value.id]
                v = nm(e.value.id)
                if ty == "member" and e.attr == "name":
                    return [], "(%s).name" % v, "optname"
                if ty == "member" and e.attr == "value":
                    return [], "(%s).number" % v, "int"
                if ty == "obj" and e.attr == "name":
                    t = self.tmp()
                    return [("bind", t, "PyEnum.objName %s" % v)], t, "optname"
            raise Unsupported("attribute " + ast.unparse(e))
        if isinstance(e, ast.Subscript):
            b0, d, td = self.pure(e.value, env, tuple(DICT_TYS))
            b1, k, _ = self.pure(e.slice, env, (DICT_TYS[td][2],))
            t = self.tmp()
            return b0 + b1 + [("bind", t, "PyEnum.dictItem %s %s" % (d, k))], t, "member"
        if isinstance(e, ast.Compare):
            if len(e.ops) != 1:
                raise Unsupported("chained comparison")
            op, right = e.ops[0], e.comparators[0]
            if isinstance(op, (ast.Is, ast.IsNot)):
                if not (isinstance(right, ast.Constant) and right.value is None):
                    raise Unsupported("identity test " + ast.unparse(e))
                b, t, _ = self.pure(e.left, env, ("optmember", "optname"))
                txt = "(%s).isNone" % t
                return b, txt if isinstance(op, ast.Is) else "(!%s)" % txt, "bool"
            if isinstance(op, (ast.In, ast.NotIn)):
                b1, d, td = self.pure(right, env, tuple(DICT_TYS))
                b0, k, tk = self.expr(e.left, env)
                if tk == DICT_TYS[td][2]:
                    txt = "(PyEnum.keyIn %s %s)" % (k, d)
                elif tk == "optname" and td == "mmap":
                    txt = "(PyEnum.nameIn %s %s)" % (k, d)
                else:
                    raise Unsupported("membership test of %s in %s" % (tk, td))
                return b0 + b1, txt if isinstance(op, ast.In) else "(!%s)" % txt, "bool"
            raise Unsupported("comparison " + ast.unparse(e))
        if isinstance(e, ast.UnaryOp) and isinstance(e.op, ast.Not):
            b, t, _ = self.pure(e.operand, env, ("bool",))
            return b, "(!%s)" % t, "bool"
        if isinstance(e, ast.BoolOp):
            return self.boolop(e, env)
        if isinstance(e, ast.Call):
            return self.call(e, env)
        raise Unsupported("expression " + ast.unparse(e))

    def boolop(self, e, env):
        if isinstance(e.op, ast.Or) and len(e.values) == 2:
            snap = self.ntmp
            ba, a, ta = self.expr(e.values[0], env)
            if ta == "optmember" and not ba:
                # <d.get(k)> or <member>: None is false, a member is false exactly when its int value is 0
                bb, b, _ = self.pure(e.values[1], env, ("member",))
                c = nm(self.sig.stream) if self.sig.stream else None
                pair = (lambda x: "(%s, %s)" % (x, c)) if c else (lambda x: x)
                alt = indent(self.wrap(bb, ".ok %s" % pair(b)), 4)
                r = self.tmp()
                txt = "match %s with\n| some m_ =>\n  if PyEnum.memberTruthy m_ then .ok %s else\n%s\n| none =>\n%s" % (a, pair("m_"), alt, alt)
                rty = lty(("member", "cls")) if c else lty("member")
                return [("bind", pair(r), "(%s : Py.Res %s)" % (txt, rty))], r, "member"
            self.ntmp = snap
        vals = [self.pure(v, env, ("bool",)) for v in e.values]      # other truth values are not translated
        is_or = isinstance(e.op, ast.Or)
        if not any(b for b, _, _ in vals[1:]):
            sym = " || " if is_or else " && "
            return vals[0][0], "(" + sym.join(t for _, t, _ in vals) + ")", "bool"
        # short circuit: an operand that can raise is evaluated only when the ones before it do not decide
        b_last, t_last, _ = vals[-1]
        acc = self.wrap(b_last, ".ok %s" % t_last)
        for b, t, _ in reversed(vals[:-1]):
            inner = ("if %s then .ok true else\n%s" % (t, indent(acc))) if is_or else ("if %s then\n%s\nelse .ok false" % (t, indent(acc)))
            acc = self.wrap(b, inner)
        r = self.tmp()
        return [("bind", r, "(%s)" % acc)], r, "bool"

    def truthy(self, text, ty):
        if ty != "bool":
            raise Unsupported("truth value of a %s" % ty)
        return text

    def call(self, e, env):
        f = e.func
        if isinstance(f, ast.Attribute) and f.attr == "__new__":
            # cls.__new__(cls, name=…, value=…)
            kw = {k.arg: k.value for k in e.keywords}
            if not (isinstance(f.value, ast.Name) and env.get(f.value.id) == "cls" and len(e.args) == 1
                    and isinstance(e.args[0], ast.Name) and e.args[0].id == f.value.id and sorted(kw) == ["name", "value"]
                    and len(e.keywords) == 2):
                raise Unsupported("call " + ast.unparse(e))
            if isinstance(kw["name"], ast.Constant) and kw["name"].value is None:
                bn, n = [], "none"
            else:
                bn, n, tn = self.pure(kw["name"], env, ("name", "optname"))
                n = "(some %s)" % n if tn == "name" else n
            bv, v, _ = self.pure(kw["value"], env, ("int",))
            if e.keywords[0].arg != "name":      # evaluation order of the two (pure) arguments is irrelevant
                bn, bv = bv, bn
            c = nm(f.value.id)
            t = self.tmp()
            return bn + bv + [("let", "(%s, %s)" % (t, c), "PyEnum.newMember %s %s %s" % (c, n, v))], t, "member"
        if e.keywords:
            raise Unsupported("call " + ast.unparse(e))
        if isinstance(f, ast.Attribute) and f.attr == "setdefault" and len(e.args) == 2:
            ref = self.dict_ref(f.value, env)
            if ref is None or self.sig.stream != ref[1]:
                raise Unsupported("call " + ast.unparse(e))
            getter, setter, kty = DICT_TYS[ref[0]]
            bk, key, _ = self.pure(e.args[0], env, (kty,))
            bv, val, _ = self.pure(e.args[1], env, ("member",))
            c = nm(ref[1])
            t = self.tmp()
            return bk + bv + [("let", "(%s, d_)" % t, "PyEnum.dictSetdefault (%s %s) %s %s" % (getter, c, key, val)),
                              ("let", c, "%s %s d_" % (setter, c))], t, "member"
        if isinstance(f, ast.Attribute) and f.attr == "get" and len(e.args) == 1:
            b0, d, td = self.pure(f.value, env, tuple(DICT_TYS))
            b1, k, _ = self.pure(e.args[0], env, (DICT_TYS[td][2],))
            return b0 + b1, "(PyEnum.dictGet %s %s)" % (d, k), "optmember"
        if isinstance(f, ast.Attribute) and f.attr == "values" and not e.args:
            b0, d, _ = self.pure(f.value, env, tuple(DICT_TYS))
            return b0, "(PyEnum.dictValues %s)" % d, "members"
        if isinstance(f, ast.Name) and f.id not in env and f.id not in self.aliases:
            if f.id == "len" and len(e.args) == 1:
                b0, d, _ = self.pure(e.args[0], env, tuple(DICT_TYS))
                return b0, "(PyEnum.dictLen %s)" % d, "int"
            if f.id == "reversed" and len(e.args) == 1:
                b0, xs, _ = self.pure(e.args[0], env, ("members",))
                return b0, "(PyEnum.reversedL %s)" % xs, "members"
            if f.id == "isinstance" and len(e.args) == 2:
                b0, o, _ = self.pure(e.args[0], env, ("obj",))
                b1, c, _ = self.pure(e.args[1], env, ("cls",))
                return b0 + b1, "(PyEnum.isInstance %s %s)" % (o, c), "bool"
        raise Unsupported("call " + ast.unparse(e))

    # ------------------------------------------------------------------------------------------------ statements
    def message_ok(self, e):
        """an exception message: a str constant or an f-string over names / .__name__ / .__class__.__name__"""
        if isinstance(e, ast.Constant) and isinstance(e.value, str):
            return True
        if isinstance(e, ast.JoinedStr):
            for v in e.values:
                if isinstance(v, ast.Constant):
                    continue
                x = v.value
                while isinstance(x, ast.Attribute) and x.attr in ("__name__", "__class__"):
                    x = x.value
                if not (isinstance(v, ast.FormattedValue) and v.format_spec is None and isinstance(x, ast.Name)):
                    return False
            return True
        return False

    def block(self, stmts, env, k, in_loop):
        if not stmts:
            return k(env)
        st, rest = stmts[0], stmts[1:]
        env = dict(env)

        def go(env2):
            return self.block(rest, env2, k, in_loop)

        if isinstance(st, ast.Pass) or (isinstance(st, ast.Expr) and isinstance(st.value, ast.Constant) and isinstance(st.value.value, str)):
            return go(env)
        if isinstance(st, ast.Raise):
            x = st.exc
            if not (isinstance(x, ast.Call) and isinstance(x.func, ast.Name) and x.func.id in EXC and x.func.id not in env
                    and not x.keywords and len(x.args) <= 1 and all(self.message_ok(a) for a in x.args)):
                raise Unsupported("raise " + (ast.unparse(x) if x is not None else ""))
            c = st.cause
            if not (c is None or (isinstance(c, ast.Constant) and c.value is None) or (isinstance(c, ast.Name) and c.id in self.exc_names)):
                raise Unsupported("raise … from " + ast.unparse(c))
            return ".raise " + EXC[x.func.id]
        if isinstance(st, ast.Try):
            return self.try_stmt(st, rest, env, k, in_loop)
        if isinstance(st, ast.If):
            t = st.test
            if isinstance(t, ast.Compare) and len(t.ops) == 1 and isinstance(t.ops[0], (ast.Is, ast.IsNot)) \
                    and isinstance(t.left, ast.Name) and env.get(t.left.id) == "optmember" \
                    and isinstance(t.comparators[0], ast.Constant) and t.comparators[0].value is None:
                var = t.left.id
                none_br, some_br = (st.body, st.orelse) if isinstance(t.ops[0], ast.Is) else (st.orelse, st.body)
                env_none = dict(env)
                env_none[var] = "none"
                env_some = dict(env)
                env_some[var] = "member"
                a = self.block(list(none_br) + rest, env_none, k, in_loop)
                b = self.block(list(some_br) + rest, env_some, k, in_loop)
                return "match %s with\n| none =>\n%s\n| some %s =>\n%s" % (nm(var), indent(a), nm(var), indent(b))
            bc, c, tc = self.expr(t, env)
            if tc != "bool":
                raise Unsupported("`if` on a %s" % tc)
            thn = self.block(list(st.body) + rest, env, k, in_loop)
            els = self.block(list(st.orelse) + rest, env, k, in_loop)
            return self.wrap(bc, "if %s then\n%s\nelse\n%s" % (c, indent(thn), indent(els)))
        if isinstance(st, ast.Assign):
            if len(st.targets) != 1:
                raise Unsupported("chained assignment")
            tgt = st.targets[0]
            if isinstance(tgt, ast.Subscript):
                ref = self.dict_ref(tgt.value, env)
                if ref is None:
                    raise Unsupported("store " + ast.unparse(tgt))
                kind, cvar = ref
                if self.sig.stream != cvar:
                    raise Unsupported("store into a dict of a class that is not threaded")
                getter, setter, kty = DICT_TYS[kind]
                bk, key, _ = self.pure(tgt.slice, env, (kty,))
                bv, val, _ = self.pure(st.value, env, ("member",))
                c = nm(cvar)
                # Python evaluates the value, then the container and the key: all pure here
                return self.wrap(bv + bk + [("let", c, "%s %s (PyEnum.dictSet (%s %s) %s %s)" % (setter, c, getter, c, key, val))], go(env))
            if isinstance(tgt, ast.Name):
                if tgt.id in self.aliases or env.get(tgt.id) in ("cls", "obj", "any") or tgt.id == self.sig.stream:
                    raise Unsupported("assignment to " + tgt.id)
                b, t, ty = self.expr(st.value, env)
                if ty not in ("member", "optmember", "int", "bool", "optname", "name"):
                    raise Unsupported("assignment of a %s to a local (aliasing)" % ty)
                env[tgt.id] = ty
                return self.wrap(b + [("let", nm(tgt.id), t)], go(env))
            raise Unsupported("assignment target " + ast.unparse(tgt))
        if isinstance(st, ast.Expr) and isinstance(st.value, ast.Call) and ast.unparse(st.value.func) == "type.__setattr__":
            c = st.value
            a0 = c.args[0] if c.args else None
            if not (len(c.args) == 3 and not c.keywords and isinstance(a0, ast.Name) and a0.id not in env
                    and self.aliases.get(a0.id, ("", ""))[0] == "meta" and "type" not in env):
                raise Unsupported("call " + ast.unparse(c))
            cvar = self.aliases[a0.id][1]
            if self.sig.stream != cvar:
                raise Unsupported("type.__setattr__ on a class that is not threaded")
            bn, n, _ = self.pure(c.args[1], env, ("name",))
            bm, m, _ = self.pure(c.args[2], env, ("member",))
            return self.wrap(bn + bm + [("let", nm(cvar), "PyEnum.setClassVar %s %s %s" % (nm(cvar), n, m))], go(env))
        if isinstance(st, ast.Expr) and isinstance(st.value, ast.Call) and isinstance(st.value.func, ast.Attribute) \
                and st.value.func.attr == "setdefault":
            b, _, _ = self.expr(st.value, env)
            return self.wrap(b, go(env))
        if isinstance(st, ast.Return):
            if st.value is None:
                raise Unsupported("bare return")
            if self.sig.ret == "newargs":
                b, t = self.newargs(st.value, env)
                return self.wrap(b, self.ret_text(t, env, in_loop))
            b, t, ty = self.expr(st.value, env)
            if ty != self.sig.ret:
                raise Unsupported("return of a %s, declared %s" % (ty, self.sig.ret))
            return self.wrap(b, self.ret_text(t, env, in_loop))
        raise Unsupported("statement " + ast.unparse(st).split("\n")[0])

    def newargs(self, e, env):
        """`(), {"name": <optname>, "value": <int>}`"""
        if not (isinstance(e, ast.Tuple) and len(e.elts) == 2 and isinstance(e.elts[0], ast.Tuple) and not e.elts[0].elts
                and isinstance(e.elts[1], ast.Dict)):
            raise Unsupported("return " + ast.unparse(e))
        d = e.elts[1]
        keys = [k.value if isinstance(k, ast.Constant) else None for k in d.keys]
        if sorted(map(str, keys)) != ["name", "value"] or len(keys) != 2:
            raise Unsupported("keyword arguments of __getnewargs_ex__: " + ast.unparse(d))
        kv = dict(zip(keys, d.values))
        bn, n, tn = self.pure(kv["name"], env, ("optname", "name"))
        n = "(some %s)" % n if tn == "name" else n
        bv, v, _ = self.pure(kv["value"], env, ("int",))
        return bn + bv, "({ name := %s, value := %s } : PyEnum.NewArgs ν)" % (n, v)

    def try_stmt(self, st, rest, env, k, in_loop):
        if st.orelse or st.finalbody or not st.handlers or len(st.body) != 1 or not isinstance(st.body[0], ast.Return) \
                or st.body[0].value is None:
            raise Unsupported("try statement whose body is not a single `return <lookup>`")
        b, t, ty = self.expr(st.body[0].value, env)
        if ty != self.sig.ret:
            raise Unsupported("return of a %s, declared %s" % (ty, self.sig.ret))
        if any(kind != "bind" or not txt.startswith("PyEnum.dictItem ") for kind, _, txt in b):
            raise Unsupported("try body with an effect other than a dict lookup")
        tried = self.wrap(b, ".ok %s" % t)
        chain = ".raise exc_"
        for h in reversed(st.handlers):
            if h.type is None:
                raise Unsupported("bare except")
            classes = h.type.elts if isinstance(h.type, ast.Tuple) else [h.type]
            if not classes or not all(isinstance(c, ast.Name) and c.id in EXC and c.id not in env for c in classes):
                raise Unsupported("except " + ast.unparse(h.type))
            if h.name is not None and (h.name in env or h.name in self.aliases):
                raise Unsupported("except … as %s shadows a variable" % h.name)
            if h.name is not None and any(isinstance(x, ast.Name) and x.id == h.name and not self.is_cause(h, x) for s in h.body for x in ast.walk(s)):
                raise Unsupported("the exception object %s is used other than as a cause" % h.name)
            self.exc_names.append(h.name)
            body = self.block(list(h.body) + rest, env, k, in_loop)
            self.exc_names.pop()
            chain = "if PyEnum.catches [%s] exc_ then\n%s\nelse\n%s" % (", ".join(EXC[c.id] for c in classes), indent(body), indent(chain))
        ok = self.ret_text("ret_", env, in_loop)
        return "match (%s) with\n| .ok ret_ => %s\n| .diverge => .diverge\n| .raise exc_ =>\n%s" % (tried, ok, indent(chain))

    @staticmethod
    def is_cause(handler, name):
        return any(isinstance(x, ast.Raise) and x.cause is name for s in handler.body for x in ast.walk(s))

    def define(self, body, env, lean_name, comment):
        never = self.sig.ret == "never"

        def fall_off(env2):
            if self.sig.ret != "none":
                raise Unsupported("control reaches the end of a function that returns a value / never returns")
            return self.ret_text(None, env2, False)
        gen = [x for s in body for x in ast.walk(s) if isinstance(x, (ast.Yield, ast.YieldFrom))]
        if gen:
            # a generator: only `yield from <members>` as the whole body
            stmts = [s for s in body if not (isinstance(s, ast.Expr) and isinstance(s.value, ast.Constant))]
            if self.sig.ret != "members" or len(stmts) != 1 or not (isinstance(stmts[0], ast.Expr) and isinstance(stmts[0].value, ast.YieldFrom)):
                raise Unsupported("generator other than a single `yield from`")
            b, t, _ = self.pure(stmts[0].value.value, env, ("members",))
            txt = self.wrap(b, ".ok %s" % t)
        else:
            if self.sig.ret == "members":
                raise Unsupported("a function annotated Generator that does not yield")
            txt = self.block(body, env, fall_off, False)
        params = " ".join("(%s : %s)" % (nm(p), lty(t)) for p, t, _ in self.sig.params)
        if self.sig.stream is None:
            rty = lty(self.sig.ret)
        elif self.sig.ret == "none":
            rty = lty("cls")
        else:
            rty = "(%s × %s)" % (lty(self.sig.ret), lty("cls"))
        return "/- %s -/\ndef %s %s : Py.Res %s :=\n%s" % (comment, lean_name, params, rty, indent(txt))


# ------------------------------------------------------------------------------------------------ the source
def find_class(tree, name):
    hits = [c for c in tree.body if isinstance(c, ast.ClassDef) and c.name == name]
    if len(hits) != 1:
        raise Unsupported("class %s found %d times" % (name, len(hits)))
    c = hits[0]
    bases, kws = CLASS_BASES[name]
    if [ast.unparse(b) for b in c.bases] != [bases] or [(k.arg, ast.unparse(k.value)) for k in c.keywords] != kws or c.decorator_list:
        raise Unsupported("bases / metaclass / decorators of class " + name)
    return c


def class_methods(c):
    """name -> FunctionDef for the methods defined directly in the class body or in an `if not TYPE_CHECKING:` block;
    anything that could define a method another way is Unsupported"""
    out, dup = {}, set()

    def scan(stmts, top):
        for s in stmts:
            if isinstance(s, ast.FunctionDef):
                if s.name in out:
                    dup.add(s.name)
                out[s.name] = s
            elif isinstance(s, ast.If) and top and ast.unparse(s.test) == "not TYPE_CHECKING" and not s.orelse:
                scan(s.body, False)
            elif isinstance(s, ast.AnnAssign) and s.value is None:
                continue          # `name: Optional[str]`: a declaration
            elif isinstance(s, ast.Expr) and isinstance(s.value, ast.Constant):
                continue          # docstring
            elif isinstance(s, ast.Pass):
                continue
            else:
                raise Unsupported("statement in the body of class %s: %s" % (c.name, ast.unparse(s).split("\n")[0]))
    scan(c.body, True)
    if dup:
        raise Unsupported("methods defined twice in class %s: %s" % (c.name, sorted(dup)))
    bad = [n for n in FORBIDDEN[c.name] if n in out]
    if bad:
        raise Unsupported("class %s defines %s" % (c.name, bad))
    return out


def names_in(node, name):
    return [x for x in ast.walk(node) if isinstance(x, ast.Name) and x.id == name]


def method_sig(cname, fn, lean, is_cm):
    a = fn.args
    decos = [ast.unparse(d) for d in fn.decorator_list]
    if decos != (["classmethod"] if is_cm else []):
        raise Unsupported("decorators of %s.%s: %r" % (cname, fn.name, decos))
    if a.posonlyargs or a.kwonlyargs or a.vararg or a.kwarg or not a.args:
        raise Unsupported("parameter list of %s.%s" % (cname, fn.name))
    first = a.args[0]
    if first.annotation is not None:
        raise Unsupported("annotated first parameter of %s.%s" % (cname, fn.name))
    params = [(first.arg, "cls" if (cname == "EnumType" or is_cm) else "member", None)]
    for x in a.args[1:]:
        s = ast.unparse(x.annotation).strip("\"'") if x.annotation is not None else None
        if s not in PARAM_ANN:
            raise Unsupported("parameter %s of %s.%s: annotation %s" % (x.arg, cname, fn.name, s))
        params.append((x.arg, PARAM_ANN[s], None))
    if len({p for p, _, _ in params}) != len(params):
        raise Unsupported("parameter names of %s.%s" % (cname, fn.name))
    r = ast.unparse(fn.returns).strip("\"'") if fn.returns is not None else None
    if r not in RET_ANN:
        raise Unsupported("return annotation of %s.%s: %s" % (cname, fn.name, r))
    mutates = any((isinstance(x, ast.Attribute) and x.attr in ("__new__", "setdefault"))
                  or (isinstance(x, ast.Assign) and any(isinstance(t, ast.Subscript) for t in x.targets))
                  for s in fn.body for x in ast.walk(s))
    stream = first.arg if (mutates and params[0][1] == "cls") else None
    return Sig(lean, params, RET_ANN[r], stream, "cls")


def translate_new(fn):
    """EnumType.__new__ -> [new_step, new_loop, new]"""
    body = [s for s in fn.body if not (isinstance(s, ast.Expr) and isinstance(s.value, ast.Constant) and isinstance(s.value.value, str))]
    if fn.decorator_list:
        raise Unsupported("decorators of EnumType.__new__")

    def assign_name(s):
        return isinstance(s, ast.Assign) and len(s.targets) == 1 and isinstance(s.targets[0], ast.Name)
    if len(body) != 7:
        raise Unsupported("EnumType.__new__ has %d statements, expected 7 (see the module docstring)" % len(body))
    e1, e2, s_meta, s_members, s_cls, s_loop, s_ret = body
    for s in (e1, e2):
        if not (assign_name(s) and isinstance(s.value, ast.Dict) and not s.value.keys):
            raise Unsupported("EnumType.__new__: expected `<dict> = {}`, found " + ast.unparse(s))
    empties = {e1.targets[0].id, e2.targets[0].id}
    if len(empties) != 2:
        raise Unsupported("EnumType.__new__: the two dicts are one variable")
    v = s_meta.value if assign_name(s_meta) else None
    if not (isinstance(v, ast.Call) and isinstance(v.func, ast.Name) and v.func.id == "type" and len(v.args) == 3 and not v.keywords
            and isinstance(v.args[2], ast.Dict)):
        raise Unsupported("EnumType.__new__: expected `<metaclass> = type(…, …, {…})`, found " + ast.unparse(s_meta).split("\n")[0])
    ns = v.args[2]
    keys = [k.value if isinstance(k, ast.Constant) else None for k in ns.keys]
    if sorted(map(str, keys)) != ["_member_map_", "_value_map_"] or not all(isinstance(x, ast.Name) for x in ns.values):
        raise Unsupported("EnumType.__new__: namespace of the metaclass: " + ast.unparse(ns))
    by_key = {k: x.id for k, x in zip(keys, ns.values)}
    vm, mm, meta = by_key["_value_map_"], by_key["_member_map_"], s_meta.targets[0].id
    if {vm, mm} != empties:
        raise Unsupported("EnumType.__new__: `_value_map_` / `_member_map_` are not the two dicts created empty")
    if not (assign_name(s_members) and isinstance(s_members.value, ast.DictComp)):
        raise Unsupported("EnumType.__new__: expected `<members> = {… dict comprehension …}`")
    members = s_members.targets[0].id
    c = s_cls.value if assign_name(s_cls) else None
    if not (isinstance(c, ast.Call) and ast.unparse(c.func) == "type.__new__" and c.args and isinstance(c.args[0], ast.Name)
            and c.args[0].id == meta):
        raise Unsupported("EnumType.__new__: expected `<cls> = type.__new__(<metaclass>, …)`")
    cls = s_cls.targets[0].id
    if not (isinstance(s_loop, ast.For) and not s_loop.orelse and isinstance(s_loop.iter, ast.Call)
            and isinstance(s_loop.iter.func, ast.Attribute) and s_loop.iter.func.attr == "items"
            and isinstance(s_loop.iter.func.value, ast.Name) and s_loop.iter.func.value.id == members
            and not s_loop.iter.args and not s_loop.iter.keywords
            and isinstance(s_loop.target, ast.Tuple) and len(s_loop.target.elts) == 2
            and all(isinstance(x, ast.Name) for x in s_loop.target.elts)):
        raise Unsupported("EnumType.__new__: expected `for <name>, <value> in <members>.items():`")
    name_v, value_v = (x.id for x in s_loop.target.elts)
    if not (isinstance(s_ret, ast.Return) and isinstance(s_ret.value, ast.Name) and s_ret.value.id == cls):
        raise Unsupported("EnumType.__new__: expected `return <cls>` as the last statement")
    locs = [vm, mm, meta, members, cls, name_v, value_v]
    if len(set(locs)) != len(locs) or "type" in locs:
        raise Unsupported("EnumType.__new__: local names are not distinct")
    # the dicts, the metaclass and the class are mentioned nowhere else outside the loop
    outside = [e1, e2, s_meta, s_members, s_cls, s_ret]
    count = {n: sum(len(names_in(s, n)) for s in outside) for n in (vm, mm, meta, cls)}
    if count != {vm: 2, mm: 2, meta: 2, cls: 2}:
        raise Unsupported("EnumType.__new__: the dicts / metaclass / class are used outside the loop: %r" % count)
    if names_in(s_members, members)[1:]:
        raise Unsupported("EnumType.__new__: the members dict is used in its own definition")
    if any(isinstance(x, (ast.Return, ast.Break, ast.Continue, ast.For, ast.While, ast.Yield, ast.YieldFrom, ast.Try))
           for s in s_loop.body for x in ast.walk(s)):
        raise Unsupported("EnumType.__new__: return / break / continue / loop / try inside the member loop")
    if any(names_in(s, members) for s in s_loop.body):
        raise Unsupported("EnumType.__new__: the members dict is used inside the loop over it")
    sg = Sig("EnumType.new_step", [(cls, "cls", None), (name_v, "name", None), (value_v, "int", None)], "none", cls, "cls")
    tr = TrE(sg, {vm: ("vmap", cls), mm: ("mmap", cls), meta: ("meta", cls)})
    env = {cls: "cls", name_v: "name", value_v: "int"}
    step = tr.define(list(s_loop.body), env, "EnumType.new_step",
                     "body of `for %s, %s in %s.items():` of EnumType.__new__  (%s, line %d)" % (name_v, value_v, members, REL, s_loop.lineno))
    c_, n_, v_, m_ = nm(cls), nm(name_v), nm(value_v), nm(members)
    loop = ("/- the loop `for %s, %s in %s.items():` (structural recursion over the items of the dict) -/\n"
            "def EnumType.new_loop (%s : %s) : %s → Py.Res %s\n  | [] => .ok %s\n  | (%s, %s) :: items' =>\n"
            "    (EnumType.new_step %s %s %s).bind fun %s =>\n    EnumType.new_loop %s items'") % (
        name_v, value_v, members, c_, lty("cls"), lty("decl"), lty("cls"), c_, n_, v_, c_, n_, v_, c_, c_)
    new = ("/- EnumType.__new__  (%s, line %d): `%s = {}`, `%s = {}`, the metaclass `%s` holding them as `_value_map_` /\n"
           "   `_member_map_`, `%s = type.__new__(%s, …)`, the member loop, `return %s` -/\n"
           "def EnumType.new (%s : %s) : Py.Res %s :=\n  let %s : %s := PyEnum.newClass\n"
           "  (EnumType.new_loop %s %s).bind fun %s =>\n  .ok %s") % (
        REL, fn.lineno, vm, mm, meta, cls, meta, cls, m_, lty("decl"), lty("cls"), c_, lty("cls"), c_, m_, c_, c_)
    return [step, loop, new]


def check_enum_new(methods):
    fn = methods.get("__new__")
    if fn is None:
        raise Unsupported("Enum.__new__ not found")
    a = fn.args
    if ([x.arg for x in a.args], [x.arg for x in a.kwonlyargs]) != ENUM_NEW_PARAMS or a.vararg or a.kwarg or a.posonlyargs \
            or any(d is not None for d in a.kw_defaults) or a.defaults or fn.decorator_list:
        raise Unsupported("parameter list of Enum.__new__")


def translate(path=SRC):
    tree = ast.parse(open(path).read())
    classes = {n: find_class(tree, n) for n in ("EnumType", "Enum")}
    methods = {n: class_methods(c) for n, c in classes.items()}
    check_enum_new(methods["Enum"])
    if "__new__" not in methods["EnumType"]:
        raise Unsupported("EnumType.__new__ not found")
    out = translate_new(methods["EnumType"]["__new__"])
    for cname, pyname, lean, is_cm in METHODS:
        fn = methods[cname].get(pyname)
        if fn is None:
            raise Unsupported("method %s.%s not found" % (cname, pyname))
        sg = method_sig(cname, fn, lean, is_cm)
        tr = TrE(sg, {})
        env = {p: t for p, t, _ in sg.params}
        out.append(tr.define(list(fn.body), env, lean, "%s.%s  (%s, line %d)" % (cname, pyname, REL, fn.lineno)))
    return out


HEADER = """import BpProofs.PyPreludeEnum
/- GENERATED by harness/extract_srcenum.py from the Python AST of src/betterproto/enum.py -- do not edit.
   Each definition is the statement-by-statement translation of the named method / loop body. -/
set_option linter.unusedVariables false
namespace Bp.Src
open Bp Bp.EnumM

variable {ν : Type} [DecidableEq ν]

"""


def render(path=SRC):
    try:
        defs = translate(path)
        return HEADER + "\n\n".join(defs) + "\n\nend Bp.Src\n", None
    except Unsupported as e:
        msg = "the source translator does not support the current source: %s" % e
        return HEADER + "/- TRANSLATION FAILED: %s -/\n\nend Bp.Src\n" % msg, msg
    except (OSError, SyntaxError) as e:
        msg = "the source translator could not read the source: %r" % (e,)
        return HEADER + "/- TRANSLATION FAILED: %s -/\n\nend Bp.Src\n" % msg, msg


def main(write_if_changed, gen_dir):
    text, err = render()
    target = os.path.join(gen_dir, "..", "..", "BpProofs", "Gen", "SrcEnum.lean")
    changed = write_if_changed(os.path.normpath(target), text)
    if err:
        print("extract_srcenum: " + err)
    return ["SrcEnum.lean"] if changed else []


if __name__ == "__main__":
    t, e = render()
    print(t)
    if e:
        print("ERROR:", e)
