"""SOURCE TRANSLATOR, the JSON / dict reader (properties C04 / C19 / C05): Python AST of the BODY of the loop

    for key, value in mapping.items():

of `Message._from_dict_init` of /repo/src/betterproto/__init__.py and the bodies of both forms of `Message.from_dict`
-> three Lean definitions `Src.from_dict_key`, `Src.from_dict_cls`, `Src.from_dict_inst`.

Same scheme as extract_src.py / extract_srcdump.py (whose statement translators `Tr` / `TrDyn` are subclassed here): on
every run the bodies are read from the WORKING TREE with `ast`, translated statement by statement into pure Lean functions
over the vocabulary of lean/BpProofs/PyPrelude.lean + PyPreludeDyn.lean + PyPreludeFromDict.lean and written to
lean/BpProofs/Gen/SrcFromDict.lean.  lean/BpProofs/SrcTieFromDict.lean proves them equal to the model's per-pair action of
`fromDictKV` / to `fromDictC` / `fromDictI` (lean/BpModel/Json.lean); lean/BpProofs/Props/C19Src.lean states that as
property obligations.

Interface of the translated loop body (one iteration for the pair `key, value` of the mapping):

    Src.from_dict_key (S : Schema) (E : Enums) (c : Nat) (dec : Nat → JVal → R Val) (key : JKey) (value : JVal)
                      (init_kwargs : Py.Kwargs) : Py.Res Py.Kwargs          -- `init_kwargs` after the iteration

  S c          the class `cls` (schema, index);  E  the enum classes
  dec c' j     `<message class c'>.from_dict(j)` (class form), the recursive reader
  init_kwargs  the dict built so far: ordered association list field name -> value
  `continue` and falling off the end of the body both return the loop-carried `init_kwargs`.

    Src.from_dict_cls  (S) (c) (fromDictInit : Py.Res Py.Kwargs) : Py.Res Val                 -- Cls.from_dict(value)
    Src.from_dict_inst (S) (fromDictInit : Py.Res Py.Kwargs) (self : Val) : Py.Res Val        -- instance.from_dict(value)

  fromDictInit = outcome of `cls._from_dict_init(value)` / `self._from_dict_init(value)`.

Constructs added to those of extract_srcdump.TrDyn (anything else raises Unsupported -> generated file without
definitions -> every tie theorem fails to compile):
  `safe_snake_case(<key>)` (only when the module imports it from .casing); `try: <meta> = cls._betterproto.
  meta_by_field_name[<field_name>] / except KeyError: …` (a match on the lookup); `cls._betterproto.cls_by_field[<field_name>]`
  and `cls._betterproto.cls_by_field[f"{<field_name>}.value"]`; `<sub_cls> == datetime / timedelta` (only when the module
  imports them from datetime); `<value> is None`; `isinstance(<value>, list)` (which narrows the value to a list in the
  branch); `<x> = <a> if <test> else <b>` with effectful branches (as the `if` statement it abbreviates); list
  comprehensions `[<e(item)> for item in <value known to be a list>]`; dict comprehensions `{k: <e(v)> for k, v in
  <value>.items()}` whose key expression is the bare key target; the intrinsic calls `int(…)`, `b64decode(…)`,
  `_parse_enum(<cls>, …)`, `_parse_float(…)`, `isoparse(…)`, `_Duration.delta_from_json(…)`, `<sub_cls>.from_dict(…)` on a
  JSON-side value; `meta.proto_type == TYPE_X`, `meta.proto_type in (TYPE_X, TYPE_Y)`, `meta.proto_type in INT_64_TYPES`,
  `meta.map_types and meta.map_types[1] == TYPE_X`, `not meta.wraps`; `init_kwargs[<field_name>] = <value>` (a JSON-side
  value that no branch converted is stored as it is: `Py.asFieldValue`).
  from_dict: `self = cls(**cls._from_dict_init(value))`, `self._serialized_on_wire = True`, `for field, value in
  self._from_dict_init(value).items(): setattr(self, field, value)`, `return self`.
There is no fuel: every loop is a structural recursion over a model list.
"""
import ast
import os

from extract_src import SRC, Sig, Unsupported, indent, nm, TYPE_TABLES
from extract_srcdump import TrDyn, PTYPE_CTOR, find_method
import extract_srcdump

LEAN_TY = dict(extract_srcdump.LEAN_TY)
LEAN_TY.update({"jkey": "JKey", "jval": "JVal", "jlist": "JVal", "fname": "(List Char)", "cls": "Py.Cls",
                "kwargs": "Py.Kwargs"})
JVAL_TYPES = ("jval", "jlist")
LOOP_ITER = "mapping.items()"
# module-level names the loop body uses as they are imported: name -> module it must be imported from
IMPORTED = {"safe_snake_case": "casing", "datetime": "datetime", "timedelta": "datetime", "isoparse": "dateutil.parser",
            "b64decode": "base64"}
# leaf conversions (one JSON-side argument): source text of the callee -> (Lean function, names that must be imported /
# defined at module level with this parameter list)
LEAF = {"int": "Py.intOf", "b64decode": "Py.b64decode", "isoparse": "Py.isoparse",
        "_Duration.delta_from_json": "Py.deltaFromJson"}
MODULE_FUNCS = {"_parse_float": ["value"], "_parse_enum": ["enum_class", "value"]}


class TrFD(TrDyn):
    """translator of one iteration of the key loop of `_from_dict_init` (and of the bodies of `from_dict`)"""

    def __init__(self, sig, consts, ptypes, meta_var, carry, ok_names, cls_var="cls"):
        super().__init__(sig, consts, ptypes, None, meta_var, carry, set())
        self.ok_names = ok_names     # imported / module-level names verified against the module
        self.cls_var = cls_var

    # ------------------------------------------------------------------------------------------------ helpers
    def is_cls(self, e, env):
        return isinstance(e, ast.Name) and e.id == self.cls_var and e.id not in env

    def bp_table(self, e, env, table):
        """`cls._betterproto.<table>`"""
        return (isinstance(e, ast.Attribute) and e.attr == table and isinstance(e.value, ast.Attribute)
                and e.value.attr == "_betterproto" and self.is_cls(e.value.value, env))

    def free_name(self, e, env, name):
        return isinstance(e, ast.Name) and e.id == name and e.id not in env

    def need(self, name):
        if name not in self.ok_names:
            raise Unsupported("`%s` is not the imported / module-level function the translator knows" % name)

    def jval_operand(self, e, env):
        b, t, ty = self.expr(e, env)
        if b or ty not in JVAL_TYPES:
            raise Unsupported("expected a JSON-side value, got %s of type %s" % (ast.unparse(e), ty))
        return t

    def res_of(self, e, env, want):
        """Lean text of type `Py.Res <want>` for the (possibly effectful) expression e"""
        b, t, ty = self.expr(e, env)
        if ty != want:
            raise Unsupported("expression %s has type %s, expected %s" % (ast.unparse(e), ty, want))
        return self.wrap(b, ".ok %s" % t)

    # ------------------------------------------------------------------------------------------------ expressions
    def expr(self, e, env):
        if isinstance(e, ast.Subscript):
            # cls._betterproto.cls_by_field[field_name] / [f"{field_name}.value"]
            if self.bp_table(e.value, env, "cls_by_field"):
                k = e.slice
                if isinstance(k, ast.Name) and env.get(k.id) == "fname":
                    t = self.tmp()
                    return [("bind", t, "Py.fdClsByField S E c %s" % nm(k.id))], t, "cls"
                if isinstance(k, ast.JoinedStr) and len(k.values) == 2 and isinstance(k.values[0], ast.FormattedValue) \
                        and isinstance(k.values[0].value, ast.Name) and env.get(k.values[0].value.id) == "fname" \
                        and k.values[0].conversion == -1 and k.values[0].format_spec is None \
                        and isinstance(k.values[1], ast.Constant) and k.values[1].value == ".value":
                    t = self.tmp()
                    return [("bind", t, "Py.clsByFieldMapValue S E c %s" % nm(k.values[0].value.id))], t, "cls"
                raise Unsupported("key of cls_by_field: " + ast.unparse(k))
        if isinstance(e, ast.Compare) and len(e.ops) == 1:
            op, right = e.ops[0], e.comparators[0]
            if isinstance(op, (ast.Is, ast.IsNot)) and isinstance(right, ast.Constant) and right.value is None:
                b, t, ty = self.expr(e.left, env)
                if not b and ty in JVAL_TYPES:
                    txt = "(Py.jIsNone %s)" % t
                    return [], txt if isinstance(op, ast.Is) else "(!%s)" % txt, "bool"
            if isinstance(op, (ast.Eq, ast.NotEq)):
                b1, a, ta = self.expr(e.left, env)
                if ta == "cls" and not b1 and isinstance(right, ast.Name) and right.id not in env and right.id in ("datetime", "timedelta"):
                    self.need(right.id)
                    txt = "(Py.%s %s)" % ("fdClsIsDatetime" if right.id == "datetime" else "fdClsIsTimedelta", a)
                    return [], txt if isinstance(op, ast.Eq) else "(!%s)" % txt, "bool"
                if ta == "ptype":
                    b2, b, tb = self.expr(right, env)
                    if tb != "ptype" or b1 or b2:
                        raise Unsupported("comparison " + ast.unparse(e))
                    return [], "(%s %s %s)" % (a, "==" if isinstance(op, ast.Eq) else "!=", b), "bool"
            if isinstance(op, ast.In) and isinstance(right, ast.Tuple):
                b1, a, ta = self.expr(e.left, env)
                elts = [self.expr(x, env) for x in right.elts]
                if ta != "ptype" or b1 or not elts or any(b or ty != "ptype" for b, _, ty in elts):
                    raise Unsupported("membership test " + ast.unparse(e))
                return [], "(" + " || ".join("%s == %s" % (a, t) for _, t, _ in elts) + ")", "bool"
        if isinstance(e, ast.ListComp):
            if len(e.generators) != 1:
                raise Unsupported("comprehension " + ast.unparse(e))
            g = e.generators[0]
            if g.ifs or g.is_async or not isinstance(g.target, ast.Name) or not isinstance(g.iter, ast.Name) \
                    or env.get(g.iter.id) != "jlist" or g.target.id in env:
                raise Unsupported("list comprehension over something that is not a value known to be a list: " + ast.unparse(e))
            env2 = dict(env)
            env2[g.target.id] = "jval"
            body = self.res_of(e.elt, env2, "val")
            t = self.tmp()
            return [("bind", t, "Py.listComp (fun %s =>\n%s) %s" % (nm(g.target.id), indent(body), nm(g.iter.id)))], t, "val"
        if isinstance(e, ast.DictComp):
            g = e.generators[0] if len(e.generators) == 1 else None
            it = g.iter if g else None
            ok = (g is not None and not g.ifs and not g.is_async and isinstance(g.target, ast.Tuple) and len(g.target.elts) == 2
                  and all(isinstance(x, ast.Name) and x.id not in env for x in g.target.elts)
                  and g.target.elts[0].id != g.target.elts[1].id
                  and isinstance(it, ast.Call) and isinstance(it.func, ast.Attribute) and it.func.attr == "items"
                  and not it.args and not it.keywords and isinstance(it.func.value, ast.Name)
                  and env.get(it.func.value.id) == "jval"
                  and isinstance(e.key, ast.Name) and e.key.id == g.target.elts[0].id)
            if not ok:
                raise Unsupported("dict comprehension " + ast.unparse(e))
            kvar, vvar = g.target.elts[0].id, g.target.elts[1].id
            if any(isinstance(x, ast.Name) and x.id == kvar for x in ast.walk(e.value)):
                raise Unsupported("dict comprehension whose value expression uses the key: " + ast.unparse(e))
            env2 = dict(env)
            env2[vvar] = "jval"
            body = self.res_of(e.value, env2, "val")
            t = self.tmp()
            return [("bind", t, "Py.dictCompValues (fun %s =>\n%s) %s" % (nm(vvar), indent(body), nm(it.func.value.id)))], t, "val"
        return super().expr(e, env)

    def call(self, e, env):
        f = e.func
        src = ast.unparse(f)
        if isinstance(f, ast.Name) and f.id not in env:
            if f.id == "isinstance" and len(e.args) == 2 and not e.keywords and isinstance(e.args[1], ast.Name) \
                    and e.args[1].id in ("list", "dict") and e.args[1].id not in env:
                b, t, ty = self.expr(e.args[0], env)
                if not b and ty in JVAL_TYPES:
                    return [], "(Py.%s %s)" % ("jIsList" if e.args[1].id == "list" else "jIsDict", t), "bool"
            if f.id == "safe_snake_case" and len(e.args) == 1 and not e.keywords:
                self.need("safe_snake_case")
                b, t, ty = self.expr(e.args[0], env)
                if b or ty != "jkey":
                    raise Unsupported("safe_snake_case of " + str(ty))
                r = self.tmp()
                return [("bind", r, "Py.safeSnakeCase %s" % t)], r, "fname"
            if f.id == "_parse_enum" and len(e.args) == 2 and not e.keywords:
                self.need("_parse_enum")
                b1, a, ta = self.expr(e.args[0], env)
                if b1 or ta != "cls":
                    raise Unsupported("first argument of " + ast.unparse(e))
                j = self.jval_operand(e.args[1], env)
                r = self.tmp()
                return [("bind", r, "Py.parseEnum %s %s" % (a, j))], r, "val"
            if f.id == "_parse_float" and len(e.args) == 1 and not e.keywords:
                self.need("_parse_float")
                if env.get(self.meta_var) != "meta":
                    raise Unsupported("_parse_float before the field is known")
                j = self.jval_operand(e.args[0], env)
                r = self.tmp()
                return [("bind", r, "Py.parseFloat %s %s" % (nm(self.meta_var), j))], r, "val"
        if src in LEAF and len(e.args) == 1 and not e.keywords and not (isinstance(f, ast.Name) and f.id in env):
            b, t, ty = self.expr(e.args[0], env)
            if not b and ty in JVAL_TYPES:
                self.need(src)
                r = self.tmp()
                return [("bind", r, "%s %s" % (LEAF[src], t))], r, "val"
        if isinstance(f, ast.Attribute) and f.attr == "from_dict" and isinstance(f.value, ast.Name) and env.get(f.value.id) == "cls" \
                and len(e.args) == 1 and not e.keywords:
            j = self.jval_operand(e.args[0], env)
            r = self.tmp()
            return [("bind", r, "Py.clsFromDict dec %s %s" % (nm(f.value.id), j))], r, "val"
        return super().call(e, env)

    # -------------------------------------------------------------------------------------------------- statements
    def block(self, stmts, env, k, in_loop):
        if not stmts:
            return k(env)
        st, rest = stmts[0], stmts[1:]
        if isinstance(st, ast.Try):
            # try: <meta> = cls._betterproto.meta_by_field_name[<field_name>] / except KeyError: …
            if in_loop or st.orelse or st.finalbody or len(st.handlers) != 1 or len(st.body) != 1:
                raise Unsupported("try statement")
            h, a = st.handlers[0], st.body[0]
            ok = (isinstance(h.type, ast.Name) and h.type.id == "KeyError" and h.name is None
                  and isinstance(a, ast.Assign) and len(a.targets) == 1 and isinstance(a.targets[0], ast.Name)
                  and a.targets[0].id == self.meta_var and self.meta_var not in env
                  and isinstance(a.value, ast.Subscript) and self.bp_table(a.value.value, env, "meta_by_field_name")
                  and isinstance(a.value.slice, ast.Name) and env.get(a.value.slice.id) == "fname")
            if not ok:
                raise Unsupported("try statement other than `%s = cls._betterproto.meta_by_field_name[<field name>]` / except KeyError" % self.meta_var)
            self.field_var = a.value.slice.id
            handler = self.block(list(h.body) + rest, dict(env), k, in_loop)
            env2 = dict(env)
            env2[self.meta_var] = "meta"
            cont = self.block(rest, env2, k, in_loop)
            return "match Py.metaByFieldName S c %s with\n| Option.none =>\n%s\n| some %s =>\n%s" % (
                nm(a.value.slice.id), indent(handler), nm(self.meta_var), indent(cont))
        if isinstance(st, ast.Assign) and len(st.targets) == 1:
            tgt = st.targets[0]
            # x = a if test else b   ==   if test: x = a / else: x = b
            if isinstance(st.value, ast.IfExp) and isinstance(tgt, ast.Name):
                iff = ast.If(test=st.value.test, body=[ast.Assign(targets=[tgt], value=st.value.body)],
                             orelse=[ast.Assign(targets=[tgt], value=st.value.orelse)])
                return self.block([iff] + rest, env, k, in_loop)
            # init_kwargs[field_name] = value
            if isinstance(tgt, ast.Subscript) and isinstance(tgt.value, ast.Name) and env.get(tgt.value.id) == "kwargs" \
                    and isinstance(tgt.slice, ast.Name) and env.get(tgt.slice.id) == "fname":
                if env.get(self.meta_var) != "meta" or tgt.slice.id != self.field_var:
                    raise Unsupported("store under a name that did not pass the meta_by_field_name lookup")
                b, t, ty = self.expr(st.value, env)
                if ty in JVAL_TYPES:
                    r = self.tmp()
                    b, t = b + [("bind", r, "Py.asFieldValue %s" % t)], r
                elif ty != "val":
                    raise Unsupported("stored value of type " + str(ty))
                d = nm(tgt.value.id)
                return self.wrap(b + [("let", d, "Py.dictSet %s %s %s" % (d, nm(tgt.slice.id), t))], self.block(rest, env, k, in_loop))
        if isinstance(st, ast.If):
            t = st.test
            if isinstance(t, ast.Call) and isinstance(t.func, ast.Name) and t.func.id == "isinstance" and len(t.args) == 2 \
                    and isinstance(t.args[0], ast.Name) and env.get(t.args[0].id) == "jval" \
                    and isinstance(t.args[1], ast.Name) and t.args[1].id == "list" and not t.keywords:
                bc, c, tc = self.expr(t, env)
                env2 = dict(env)
                env2[t.args[0].id] = "jlist"
                thn = self.block(list(st.body) + rest, env2, k, in_loop)
                els = self.block(list(st.orelse) + rest, dict(env), k, in_loop)
                return "if %s then\n%s\nelse\n%s" % (c, indent(thn), indent(els))
        return super().block(stmts, env, k, in_loop)

    def join_if(self, st, env, bc, c, tc):
        return None     # every branch here is effectful: both branches continue with the rest of the block

    def key_body_def(self, stmts, key_var, value_var):
        self.fresh_stream = {}
        self.used_try = set()
        env = {key_var: "jkey", value_var: "jval", self.carry: "kwargs"}

        def fall_off(env2):
            return self.carried()
        txt = self.block(stmts, env, fall_off, False)
        d = ("def %s (S : Schema) (E : Enums) (c : Nat) (dec : Nat → JVal → R Val) (%s : JKey) (%s : JVal) (%s : Py.Kwargs) : "
             "Py.Res Py.Kwargs :=\n%s") % (self.sig.name, nm(key_var), nm(value_var), nm(self.carry), indent(txt))
        return "\n\n".join(self.aux + [d])


# ------------------------------------------------------------------------------------------------ from_dict, both forms
def strip_doc(body):
    if body and isinstance(body[0], ast.Expr) and isinstance(body[0].value, ast.Constant) and isinstance(body[0].value.value, str):
        return body[1:]
    return body


def is_init_call(e, recv, arg):
    """`<recv>._from_dict_init(<arg>)`"""
    return (isinstance(e, ast.Call) and isinstance(e.func, ast.Attribute) and e.func.attr == "_from_dict_init"
            and isinstance(e.func.value, ast.Name) and e.func.value.id == recv and len(e.args) == 1 and not e.keywords
            and isinstance(e.args[0], ast.Name) and e.args[0].id == arg)


def is_onwire_store(st, var):
    return (isinstance(st, ast.Assign) and len(st.targets) == 1 and isinstance(st.targets[0], ast.Attribute)
            and st.targets[0].attr == "_serialized_on_wire" and isinstance(st.targets[0].value, ast.Name)
            and st.targets[0].value.id == var and isinstance(st.value, ast.Constant) and st.value.value is True)


def from_dict_forms(tree):
    """-> [(lean name, def text, line)] for the class form and the instance form of Message.from_dict"""
    hits = [m for c in tree.body if isinstance(c, ast.ClassDef) and c.name == "Message"
            for m in c.body if isinstance(m, ast.FunctionDef) and m.name == "from_dict"]
    if len(hits) != 2:
        raise Unsupported("Message.from_dict found %d times (expected the hybridmethod pair)" % len(hits))
    cform = [m for m in hits if any(ast.unparse(d) == "hybridmethod" for d in m.decorator_list)]
    iform = [m for m in hits if any(ast.unparse(d) == "from_dict.instancemethod" for d in m.decorator_list)]
    if len(cform) != 1 or len(iform) != 1:
        raise Unsupported("decorators of the two forms of Message.from_dict")
    out = []
    # ---- class form: straight-line statements over one local that holds the instance
    fn = cform[0]
    ps = [a.arg for a in fn.args.args]
    if len(ps) != 2:
        raise Unsupported("parameters of the class form of from_dict")
    clsv, arg = ps
    lines, obj, n, used_init = [], None, 0, False
    body = strip_doc(list(fn.body))
    for i, st in enumerate(body):
        last = i == len(body) - 1
        if last:
            if isinstance(st, ast.Return) and obj is None and isinstance(st.value, ast.Call) and isinstance(st.value.func, ast.Name) \
                    and st.value.func.id == clsv and not st.value.args and len(st.value.keywords) == 1 \
                    and st.value.keywords[0].arg is None and is_init_call(st.value.keywords[0].value, clsv, arg):
                used_init = True       # return cls(**cls._from_dict_init(value))
                lines.append("fromDictInit.bind fun t1 =>")
                lines.append(".ok (Py.construct S c t1)")
            elif not (isinstance(st, ast.Return) and isinstance(st.value, ast.Name) and st.value.id == obj):
                raise Unsupported("class form of from_dict does not end in `return <the instance>`: " + ast.unparse(st))
            else:
                lines.append(".ok %s" % nm(obj))
        elif isinstance(st, ast.Assign) and len(st.targets) == 1 and isinstance(st.targets[0], ast.Name) and obj is None \
                and isinstance(st.value, ast.Call) and isinstance(st.value.func, ast.Name) and st.value.func.id == clsv \
                and not st.value.args and len(st.value.keywords) == 1 and st.value.keywords[0].arg is None \
                and is_init_call(st.value.keywords[0].value, clsv, arg):
            obj = st.targets[0].id
            used_init = True
            lines.append("fromDictInit.bind fun t1 =>")
            lines.append("let %s := Py.construct S c t1" % nm(obj))
        elif obj is not None and is_onwire_store(st, obj):
            lines.append("let %s := Py.setSerializedOnWire %s" % (nm(obj), nm(obj)))
        else:
            raise Unsupported("statement of the class form of from_dict: " + ast.unparse(st))
    if not used_init:
        raise Unsupported("class form of from_dict does not construct the instance from _from_dict_init")
    out.append(("from_dict_cls", "def from_dict_cls (S : Schema) (c : Nat) (fromDictInit : Py.Res Py.Kwargs) : Py.Res Val :=\n"
                + indent("\n".join(lines)), fn.lineno))
    # ---- instance form: stores into `self`, one loop `for field, value in self._from_dict_init(value).items(): setattr(self, field, value)`
    fn = iform[0]
    ps = [a.arg for a in fn.args.args]
    if len(ps) != 2:
        raise Unsupported("parameters of the instance form of from_dict")
    selfv, arg = ps
    lines, nloop = [], 0
    body = strip_doc(list(fn.body))
    for i, st in enumerate(body):
        last = i == len(body) - 1
        if last:
            if not (isinstance(st, ast.Return) and isinstance(st.value, ast.Name) and st.value.id == selfv):
                raise Unsupported("instance form of from_dict does not end in `return self`: " + ast.unparse(st))
            lines.append(".ok %s" % nm(selfv))
        elif is_onwire_store(st, selfv):
            lines.append("let %s := Py.setSerializedOnWire %s" % (nm(selfv), nm(selfv)))
        elif isinstance(st, ast.For) and nloop == 0 and not st.orelse:
            it, tg = st.iter, st.target
            ok = (isinstance(it, ast.Call) and isinstance(it.func, ast.Attribute) and it.func.attr == "items" and not it.args
                  and not it.keywords and is_init_call(it.func.value, selfv, arg)
                  and isinstance(tg, ast.Tuple) and len(tg.elts) == 2 and all(isinstance(x, ast.Name) for x in tg.elts)
                  and len({x.id for x in tg.elts} | {selfv}) == 3 and len(st.body) == 1)
            b = st.body[0] if ok else None
            ok = ok and (isinstance(b, ast.Expr) and isinstance(b.value, ast.Call) and isinstance(b.value.func, ast.Name)
                         and b.value.func.id == "setattr" and not b.value.keywords
                         and [ast.unparse(x) for x in b.value.args] == [selfv, tg.elts[0].id, tg.elts[1].id])
            if not ok:
                raise Unsupported("loop of the instance form of from_dict: " + ast.unparse(st))
            nloop += 1
            lines.append("fromDictInit.bind fun t1 =>")
            lines.append("let %s := t1.foldl (fun %s (item : List Char × Val) => Py.setattrField S %s item.1 item.2) %s" % (
                nm(selfv), nm(selfv), nm(selfv), nm(selfv)))
        else:
            raise Unsupported("statement of the instance form of from_dict: " + ast.unparse(st))
    if nloop != 1:
        raise Unsupported("instance form of from_dict has no setattr loop")
    out.append(("from_dict_inst", "def from_dict_inst (S : Schema) (fromDictInit : Py.Res Py.Kwargs) (%s : Val) : Py.Res Val :=\n" % nm(selfv)
                + indent("\n".join(lines)), fn.lineno))
    return out


# ------------------------------------------------------------------------------------------------ what is translated
def imported_names(tree):
    """names bound at module level by `from <module> import <name>` (not renamed), and module-level functions with
    their positional parameter lists; a name bound twice at module level is dropped"""
    seen, count = {}, {}
    for n in tree.body:
        if isinstance(n, ast.ImportFrom):
            for a in n.names:
                nme = a.asname or a.name
                count[nme] = count.get(nme, 0) + 1
                if a.asname is None or a.asname == a.name:
                    seen[nme] = n.module or ""
        elif isinstance(n, (ast.FunctionDef, ast.ClassDef)):
            count[n.name] = count.get(n.name, 0) + 1
        elif isinstance(n, ast.Assign):
            for t in n.targets:
                for x in ast.walk(t):
                    if isinstance(x, ast.Name):
                        count[x.id] = count.get(x.id, 0) + 1
    ok = set()
    for name, mod in IMPORTED.items():
        if seen.get(name) == mod and count.get(name) == 1:
            ok.add(name)
    for name, params in MODULE_FUNCS.items():
        fns = [n for n in tree.body if isinstance(n, ast.FunctionDef) and n.name == name]
        if len(fns) == 1 and count.get(name) == 1 and [a.arg for a in fns[0].args.args] == params and not fns[0].args.defaults \
                and not fns[0].args.vararg and not fns[0].args.kwarg and not fns[0].args.kwonlyargs:
            ok.add(name)
    # `int` is the builtin unless the module rebinds it; `_Duration.delta_from_json` must be a staticmethod of the module's class
    if count.get("int", 0) == 0:
        ok.add("int")
    dur = [c for c in tree.body if isinstance(c, ast.ClassDef) and c.name == "_Duration"]
    if len(dur) == 1 and count.get("_Duration") == 1:
        ms = [m for m in dur[0].body if isinstance(m, ast.FunctionDef) and m.name == "delta_from_json"]
        if len(ms) == 1 and [a.arg for a in ms[0].args.args] == ["value"] and any(ast.unparse(d) == "staticmethod" for d in ms[0].decorator_list):
            ok.add("_Duration.delta_from_json")
    return ok


def translate(path=SRC):
    tree = ast.parse(open(path).read())
    consts, ptypes = {}, {}
    for n in tree.body:
        if isinstance(n, ast.Assign) and len(n.targets) == 1 and isinstance(n.targets[0], ast.Name) and isinstance(n.value, ast.Constant):
            if type(n.value.value) is int:
                consts[n.targets[0].id] = n.value.value
            elif type(n.value.value) is str and n.targets[0].id.startswith("TYPE_") and n.value.value in PTYPE_CTOR:
                ptypes[n.targets[0].id] = PTYPE_CTOR[n.value.value]
    ok_names = imported_names(tree)
    out = []
    fn = find_method(tree, "Message", "_from_dict_init")
    if not any(ast.unparse(d) == "classmethod" for d in fn.decorator_list):
        raise Unsupported("Message._from_dict_init is not a classmethod")
    ps = [a.arg for a in fn.args.args]
    if len(ps) != 2:
        raise Unsupported("parameters of Message._from_dict_init")
    clsv, mapping = ps
    body = strip_doc(list(fn.body))
    # shape of the function: <carry> = {} ; for key, value in <mapping>.items(): … ; return <carry>
    if len(body) != 3:
        raise Unsupported("Message._from_dict_init is not `<d> = {}` / the key loop / `return <d>` (%d statements)" % len(body))
    ini, lp, ret = body
    tgt = ini.target if isinstance(ini, ast.AnnAssign) else (ini.targets[0] if isinstance(ini, ast.Assign) and len(ini.targets) == 1 else None)
    if not (isinstance(tgt, ast.Name) and isinstance(ini.value, ast.Dict) and not ini.value.keys):
        raise Unsupported("first statement of _from_dict_init is not `<d> = {}`")
    carry = tgt.id
    if not (isinstance(ret, ast.Return) and isinstance(ret.value, ast.Name) and ret.value.id == carry):
        raise Unsupported("_from_dict_init does not end in `return %s`" % carry)
    if not (isinstance(lp, ast.For) and not lp.orelse and ast.unparse(lp.iter) == "%s.items()" % mapping
            and isinstance(lp.target, ast.Tuple) and len(lp.target.elts) == 2 and all(isinstance(x, ast.Name) for x in lp.target.elts)):
        raise Unsupported("key loop of _from_dict_init")
    key_var, value_var = lp.target.elts[0].id, lp.target.elts[1].id
    if len({key_var, value_var, carry, clsv, mapping}) != 5:
        raise Unsupported("variables of the key loop are not distinct")
    # the variable bound by the meta_by_field_name lookup
    tries = [s for s in lp.body if isinstance(s, ast.Try)]
    if len(tries) != 1 or len(tries[0].body) != 1 or not isinstance(tries[0].body[0], ast.Assign) \
            or not isinstance(tries[0].body[0].targets[0], ast.Name):
        raise Unsupported("the key loop does not look the field up with try: <meta> = …meta_by_field_name[…] / except KeyError")
    meta_var = tries[0].body[0].targets[0].id
    sg = Sig("from_dict_key", [], "none", None)
    tr = TrFD(sg, consts, ptypes, meta_var, carry, ok_names, clsv)
    out.append("/- body of the key loop of Message._from_dict_init  (src/betterproto/__init__.py, line %d) -/\n%s" % (
        lp.lineno, tr.key_body_def(list(lp.body), key_var, value_var)))
    for name, txt, line in from_dict_forms(tree):
        out.append("/- body of Message.from_dict, %s  (src/betterproto/__init__.py, line %d) -/\n%s" % (
            "class form" if name == "from_dict_cls" else "instance form", line, txt))
    return out


HEADER = """import BpProofs.PyPreludeFromDict
import BpModel.Gen.WireTables
/- GENERATED by harness/extract_srcfromdict.py from the Python AST of src/betterproto/__init__.py -- do not edit.
   `from_dict_key` is the statement-by-statement translation of ONE ITERATION of the key loop of
   Message._from_dict_init (`S c` = cls, `dec` = <message class>.from_dict, the loop-carried init_kwargs is returned);
   `from_dict_cls` / `from_dict_inst` are the bodies of the two forms of Message.from_dict (`fromDictInit` = outcome of
   the call of _from_dict_init). -/
set_option linter.unusedVariables false
namespace Bp.Src
open Bp

"""


def render(path=SRC):
    try:
        defs = translate(path)
        return HEADER + "\n\n".join(defs) + "\n\nend Bp.Src\n", None
    except Unsupported as e:
        msg = "the source translator does not support the current source: %s" % e
        return HEADER + "/- TRANSLATION FAILED: %s -/\n\nend Bp.Src\n" % msg, msg
    except (OSError, SyntaxError) as e:
        msg = "the source translator could not read the source: %r" % (e,)
        return HEADER + "/- TRANSLATION FAILED: %s -/\n\nend Bp.Src\n" % msg, msg


def main(write_if_changed, gen_dir):
    text, err = render()
    target = os.path.join(gen_dir, "..", "..", "BpProofs", "Gen", "SrcFromDict.lean")
    changed = write_if_changed(os.path.normpath(target), text)
    if err:
        print("extract_srcfromdict: " + err)
    return ["SrcFromDict.lean"] if changed else []


if __name__ == "__main__":
    t, e = render()
    print(t)
    if e:
        print("ERROR:", e)
