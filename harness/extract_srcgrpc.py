"""SOURCE TRANSLATOR (C11, call protocol): grpclib_client.py, grpclib_server.py and the RENDERED service part of
template.py.j2 -> Lean definitions over lean/BpProofs/PyPreludeGrpc.lean.

On every run the Python AST of the working tree's

  * src/betterproto/grpc/grpclib_client.py: `ServiceStub.__resolve_request_kwargs`, `_send_messages`, `_unary_unary`,
    `_unary_stream`, `_stream_unary`, `_stream_stream`;
  * src/betterproto/grpc/grpclib_server.py: `ServiceBase._call_rpc_handler_server_stream`;
  * the probe service of harness/extract_stub.py rendered by the working tree's plugin + template under the six
    option sets (the six renderings must translate to the same text): the four stub methods, the four default Base
    methods, the four `__rpc_*` adapters, `__mapping__`

is translated statement by statement into lean/BpProofs/Gen/SrcGrpc.lean (namespace Bp.SrcGrpc):

  client helpers   -> `PyG.Helper` = the `channel.request` arguments (route, Cardinality constant, request / response
                      type argument, `**kwargs`) + the list of stream operations inside and after the `async with`
  _send_messages   -> list of `SOp` (send_message / end), `for` / `async for` over the source = `PyG.forEach`
  server glue      -> `VProg` in continuation-passing style (`PyG.recvMessage`, `PyG.awaitHandler`, `PyG.asyncFor`, …)
  default methods  -> `Handler` (`isGen` = the body contains a `yield`; the body up to the first `raise`)

Anything outside the subset -> Unsupported: the generated file then holds no definition and every tie theorem of
lean/BpProofs/SrcTieGrpc.lean / Props/C11Src.lean fails to compile.  Locals and parameters keep their names (escaped
when they are Lean keywords), so a renaming translates to an alpha-equivalent definition.
"""
import ast
import concurrent.futures
import hashlib
import os
import re
import sys

HERE = os.path.dirname(os.path.abspath(__file__))
sys.path.insert(0, HERE)

REPO = os.environ.get("VERIF_REPO", "/repo")
CLIENT = os.path.join(REPO, "src", "betterproto", "grpc", "grpclib_client.py")
SERVER = os.path.join(REPO, "src", "betterproto", "grpc", "grpclib_server.py")

KW3 = ("timeout", "deadline", "metadata")
CARDS = ("UNARY_UNARY", "UNARY_STREAM", "STREAM_UNARY", "STREAM_STREAM")
HELPERS = {"_unary_unary": ("unary_unary", False), "_unary_stream": ("unary_stream", False),
           "_stream_unary": ("stream_unary", True), "_stream_stream": ("stream_stream", True)}
SUFFIX = ["uu", "us", "su", "ss"]          # the probe's RPCs in declaration order

LEAN_WORDS = set("""at by do else end export extends fun from have if import in instance let match mut namespace of
open private protected section show structure then theorem universe variable where with deriving def abbrev example
inductive class axiom macro syntax notation prefix infix infixl infixr postfix set_option using calc return for
unless try catch finally nomatch nofun suffices obtain mutual partial unsafe noncomputable Type Sort Prop""".split())


class Unsupported(Exception):
    pass


def ln(x):
    """a Python identifier as a Lean local"""
    if not re.match(r"^[A-Za-z_][A-Za-z0-9_]*$", x):
        raise Unsupported("identifier %r" % x)
    return "«%s»" % x if x in LEAN_WORDS or x.startswith("__") else x


def lean_str(s):
    if not all(32 <= ord(c) < 127 for c in s):
        raise Unsupported("non-ASCII string constant")
    return '"' + s.replace("\\", "\\\\").replace('"', '\\"') + '"'


def dotted(node):
    if isinstance(node, ast.Name):
        return node.id
    if isinstance(node, ast.Attribute):
        d = dotted(node.value)
        return None if d is None else d + "." + node.attr
    return None


def strip_doc(body):
    if body and isinstance(body[0], ast.Expr) and isinstance(body[0].value, ast.Constant) \
            and isinstance(body[0].value.value, str):
        return body[1:]
    return body


def no_nested(fn):
    for n in ast.walk(fn):
        if n is not fn and isinstance(n, (ast.FunctionDef, ast.AsyncFunctionDef, ast.ClassDef, ast.Lambda,
                                          ast.Global, ast.Nonlocal)):
            raise Unsupported("%s: nested definition / global" % fn.name)


def plain_args(fn, what):
    a = fn.args
    if a.vararg or a.kwarg or a.posonlyargs:
        raise Unsupported("%s: *args / **kwargs / positional-only parameters" % what)
    return a


def is_await_call(node, name):
    """`await <name>(...)` -> the Call"""
    if isinstance(node, ast.Await) and isinstance(node.value, ast.Call) and dotted(node.value.func) == name:
        return node.value
    return None


def mangled(cls, attr):
    return "_%s%s" % (cls.lstrip("_"), attr) if attr.startswith("__") and not attr.endswith("__") else attr


# ---------------------------------------------------------------------------------------------------------------
# grpclib_client.py

class ClientModule:
    def __init__(self, tree):
        cls = [n for n in tree.body if isinstance(n, ast.ClassDef) and n.name == "ServiceStub"]
        if len(cls) != 1:
            raise Unsupported("class ServiceStub not found once")
        self.cls = cls[0]
        self.funcs = {}
        for n in self.cls.body:
            if isinstance(n, (ast.FunctionDef, ast.AsyncFunctionDef)):
                if n.name in self.funcs:
                    raise Unsupported("ServiceStub.%s defined twice" % n.name)
                self.funcs[n.name] = n
        # the names the translation gives a fixed meaning must have it
        mods = {}
        for n in tree.body:
            if isinstance(n, ast.Import):
                for a in n.names:
                    mods[(a.asname or a.name).split(".")[0]] = a.name
            elif isinstance(n, ast.ImportFrom):
                for a in n.names:
                    mods[a.asname or a.name] = (n.module or "") + "." + a.name
        if mods.get("grpclib") != "grpclib.const" or mods.get("asyncio") != "asyncio":
            raise Unsupported("`import grpclib.const` / `import asyncio` missing")
        if mods.get("AsyncIterable") != "typing.AsyncIterable":
            raise Unsupported("AsyncIterable is not typing.AsyncIterable")
        for n in ast.walk(tree):
            if isinstance(n, ast.Name) and isinstance(n.ctx, ast.Store) and n.id in ("grpclib", "asyncio", "AsyncIterable",
                                                                                       "isinstance", "type"):
                raise Unsupported("%s is rebound" % n.id)
        init = self.funcs.get("__init__")
        if init is None:
            raise Unsupported("ServiceStub.__init__ missing")
        # __init__ stores its three keyword parameters under the same attribute names
        stored = {}
        for st in strip_doc(init.body):
            if isinstance(st, ast.Assign) and len(st.targets) == 1 and dotted(st.targets[0]) in (
                    "self.channel", "self.timeout", "self.deadline", "self.metadata") and isinstance(st.value, ast.Name):
                stored[dotted(st.targets[0])[5:]] = st.value.id
            else:
                raise Unsupported("ServiceStub.__init__: statement `%s`" % ast.unparse(st))
        if stored != {"channel": "channel", "timeout": "timeout", "deadline": "deadline", "metadata": "metadata"}:
            raise Unsupported("ServiceStub.__init__ does not store channel / timeout / deadline / metadata as given")
        a = plain_args(init, "__init__")
        if [x.arg for x in a.args] != ["self", "channel"] or [x.arg for x in a.kwonlyargs] != list(KW3) \
                or any(not (isinstance(d, ast.Constant) and d.value is None) for d in a.kw_defaults):
            raise Unsupported("ServiceStub.__init__ signature")
        self.out = []

    # -- __resolve_request_kwargs ---------------------------------------------------------------------------
    def resolve(self):
        fn = self.funcs.get("__resolve_request_kwargs")
        if fn is None or not isinstance(fn, ast.FunctionDef) or fn.decorator_list:
            raise Unsupported("__resolve_request_kwargs missing / async / decorated")
        no_nested(fn)
        a = plain_args(fn, fn.name)
        if a.kwonlyargs or a.defaults or len(a.args) != 4 or a.args[0].arg != "self":
            raise Unsupported("__resolve_request_kwargs signature")
        params = [x.arg for x in a.args[1:]]
        env = {p: "opt" for p in params}
        body = strip_doc(fn.body)
        if len(body) != 1 or not isinstance(body[0], ast.Return) or not isinstance(body[0].value, ast.Dict):
            raise Unsupported("__resolve_request_kwargs is not a single `return {…}`")
        d = body[0].value
        items = []
        for k, v in zip(d.keys, d.values):
            if not (isinstance(k, ast.Constant) and k.value in KW3):
                raise Unsupported("dict key `%s`" % (ast.unparse(k) if k is not None else "**"))
            items.append("(%s, %s)" % (lean_str(k.value), self.opt_expr(v, env)))
        if len({k.value for k in d.keys}) != len(d.keys):
            raise Unsupported("duplicate dict key")
        self.resolve_params = params
        self.out.append(
            "/- ServiceStub.__resolve_request_kwargs  (grpclib_client.py, line %d) -/\n" % fn.lineno
            + "def resolve_request_kwargs {α : Type} (self : Kw α) %s : Kw α :=\n  PyG.kwDict [%s]"
            % (" ".join("(%s : Option α)" % ln(p) for p in params), ", ".join(items)))

    def opt_expr(self, e, env):
        """an expression whose value is a request keyword value (None / set)"""
        if isinstance(e, ast.Name) and env.get(e.id) == "opt":
            return ln(e.id)
        if isinstance(e, ast.Attribute) and isinstance(e.value, ast.Name) and e.value.id == "self" \
                and e.attr in KW3 and "self" not in env:
            return "self.%s" % e.attr
        if isinstance(e, ast.IfExp):
            return "(if %s then %s else %s)" % (self.bool_expr(e.test, env), self.opt_expr(e.body, env),
                                                self.opt_expr(e.orelse, env))
        raise Unsupported("expression `%s`" % ast.unparse(e))

    def bool_expr(self, e, env):
        if isinstance(e, ast.Compare) and len(e.ops) == 1 and isinstance(e.comparators[0], ast.Constant) \
                and e.comparators[0].value is None and isinstance(e.ops[0], (ast.Is, ast.IsNot)):
            x = "PyG.isNone %s" % self.opt_expr(e.left, env)
            return "(%s)" % x if isinstance(e.ops[0], ast.Is) else "(!%s)" % x
        raise Unsupported("condition `%s`" % ast.unparse(e))

    # -- _send_messages ----------------------------------------------------------------------------------------
    def send_messages(self):
        fn = self.funcs.get("_send_messages")
        if fn is None or not isinstance(fn, ast.AsyncFunctionDef) \
                or [ast.unparse(d) for d in fn.decorator_list] != ["staticmethod"]:
            raise Unsupported("_send_messages is not an async staticmethod")
        no_nested(fn)
        a = plain_args(fn, fn.name)
        if a.kwonlyargs or a.defaults or len(a.args) != 2:
            raise Unsupported("_send_messages signature")
        stream, src = a.args[0].arg, a.args[1].arg
        env = {stream: "stream", src: "source"}
        body = self.sops(strip_doc(fn.body), env)
        self.out.append(
            "/- ServiceStub._send_messages  (grpclib_client.py, line %d) -/\n" % fn.lineno
            + "def send_messages {Req : Type} (%s : PyG.Source Req) : List (SOp Req) :=\n  %s" % (ln(src), body))

    def sops(self, stmts, env):
        """statements of `_send_messages` -> a List (SOp Req) expression"""
        parts = []
        for st in stmts:
            parts.append(self.sop(st, env))
        return "(" + " ++ ".join(parts) + ")" if parts else "[]"

    def stream_call(self, st, env):
        """`await <stream>.<method>(...)` -> (method, Call)"""
        if isinstance(st, ast.Expr) and isinstance(st.value, ast.Await) and isinstance(st.value.value, ast.Call):
            c = st.value.value
            if isinstance(c.func, ast.Attribute) and isinstance(c.func.value, ast.Name) \
                    and env.get(c.func.value.id) == "stream":
                return c.func.attr, c
        return None, None

    def send_message_op(self, c, env):
        """`stream.send_message(m, end=<const>)` -> SOp"""
        if len(c.args) != 1 or any(k.arg != "end" for k in c.keywords) or len(c.keywords) > 1:
            raise Unsupported("call `%s`" % ast.unparse(c))
        m = c.args[0]
        if not (isinstance(m, ast.Name) and env.get(m.id) == "msg"):
            raise Unsupported("send_message of `%s`" % ast.unparse(m))
        end = "false"
        if c.keywords:
            v = c.keywords[0].value
            if not (isinstance(v, ast.Constant) and isinstance(v.value, bool)):
                raise Unsupported("end=%s" % ast.unparse(v))
            end = "true" if v.value else "false"
        return "SOp.message %s %s" % (ln(m.id), end)

    def sop(self, st, env):
        meth, c = self.stream_call(st, env)
        if meth == "send_message":
            return "[%s]" % self.send_message_op(c, env)
        if meth == "end" and not c.args and not c.keywords:
            return "[SOp.endStream]"
        if isinstance(st, (ast.For, ast.AsyncFor)) and not st.orelse and isinstance(st.target, ast.Name) \
                and isinstance(st.iter, ast.Name) and env.get(st.iter.id) == "source":
            v = st.target.id
            if v in env:
                raise Unsupported("loop variable %s shadows" % v)
            inner = dict(env)
            inner[v] = "msg"
            return "PyG.forEach %s (fun %s => %s)" % (ln(st.iter.id), ln(v), self.sops(st.body, inner))
        if isinstance(st, ast.If):
            t = st.test
            if isinstance(t, ast.Call) and dotted(t.func) == "isinstance" and len(t.args) == 2 and not t.keywords \
                    and isinstance(t.args[0], ast.Name) and env.get(t.args[0].id) == "source" \
                    and dotted(t.args[1]) == "AsyncIterable":
                # the kind of loop must fit the kind of source on each branch
                self.loops_fit(st.body, True)
                self.loops_fit(st.orelse, False)
                return "(if PyG.isAsyncIterable %s then %s else %s)" % (
                    ln(t.args[0].id), self.sops(st.body, env), self.sops(st.orelse, env))
        if isinstance(st, (ast.For, ast.AsyncFor)):
            raise Unsupported("loop `%s`" % ast.unparse(st).splitlines()[0])
        raise Unsupported("statement `%s`" % ast.unparse(st).splitlines()[0])

    def loops_fit(self, stmts, is_async):
        for st in stmts:
            for n in ast.walk(st):
                if isinstance(n, ast.AsyncFor) and not is_async or isinstance(n, ast.For) and is_async:
                    raise Unsupported("`%s` over a source that is %san AsyncIterable"
                                      % ("async for" if isinstance(n, ast.AsyncFor) else "for", "" if is_async else "not "))

    # -- the four helpers --------------------------------------------------------------------------------------
    def helper(self, name):
        lean_name, streaming = HELPERS[name]
        fn = self.funcs.get(name)
        if fn is None or not isinstance(fn, ast.AsyncFunctionDef) or fn.decorator_list:
            raise Unsupported("%s missing / not async / decorated" % name)
        no_nested(fn)
        a = plain_args(fn, name)
        pos = [x.arg for x in a.args]
        kwo = [x.arg for x in a.kwonlyargs]
        if a.defaults or len(pos) != (5 if streaming else 4) or pos[0] != "self" or len(kwo) != 3 \
                or any(not (isinstance(d, ast.Constant) and d.value is None) for d in a.kw_defaults):
            raise Unsupported("%s signature" % name)
        if len(set(pos + kwo)) != len(pos + kwo):
            raise Unsupported("%s: duplicate parameter" % name)
        env = {pos[1]: "route"}
        if streaming:
            env[pos[2]] = "source"
            env[pos[3]] = "ty"
            env[pos[4]] = "ty"
            binder = "(%s : Str) (%s : PyG.Source Req) (%s : PyG.Ty) (%s : PyG.Ty)" % tuple(ln(p) for p in pos[1:])
        else:
            env[pos[2]] = "msg"
            env[pos[3]] = "ty"
            binder = "(%s : Str) (%s : Req) (%s : PyG.Ty)" % tuple(ln(p) for p in pos[1:])
        for k in kwo:
            env[k] = "opt"
        binder += " " + " ".join("(%s : Option α)" % ln(k) for k in kwo)
        self.kwonly = getattr(self, "kwonly", {})
        self.kwonly[name] = kwo
        body = strip_doc(fn.body)
        if not body or not isinstance(body[0], ast.AsyncWith):
            raise Unsupported("%s does not start with `async with`" % name)
        w = body[0]
        if len(w.items) != 1 or not isinstance(w.items[0].optional_vars, ast.Name):
            raise Unsupported("%s: `async with` items" % name)
        stream = w.items[0].optional_vars.id
        if stream in env:
            raise Unsupported("%s: stream variable shadows a parameter" % name)
        opened = self.open_expr(w.items[0].context_expr, env)
        st = {"resp": None, "task": None, "yields": False}
        env2 = dict(env)
        env2[stream] = "stream"
        inside = self.cops(w.body, env2, st, True)
        after = self.cops(body[1:], env, st, False)
        is_gen = any(isinstance(n, (ast.Yield, ast.YieldFrom)) for n in ast.walk(fn))
        if is_gen != st["yields"]:
            raise Unsupported("%s: a `yield` outside `async for … in stream: yield …`" % name)
        self.helper_is_gen = getattr(self, "helper_is_gen", {})
        self.helper_is_gen[name] = is_gen
        self.out.append(
            "/- ServiceStub.%s  (grpclib_client.py, line %d) -/\n" % (name, fn.lineno)
            + "def %s {Req α : Type} (self : Kw α) %s : PyG.Helper Req α :=\n  PyG.asyncWith %s\n    %s\n    %s"
            % (lean_name, binder, opened, inside, after))

    def open_expr(self, e, env):
        """`self.channel.request(route, grpclib.const.Cardinality.X, req_type, resp_type, **kwargs)`"""
        if not (isinstance(e, ast.Call) and dotted(e.func) == "self.channel.request" and "self" not in env):
            raise Unsupported("context manager `%s`" % ast.unparse(e))
        if len(e.args) != 4 or len(e.keywords) != 1 or e.keywords[0].arg is not None:
            raise Unsupported("channel.request arguments `%s`" % ast.unparse(e))
        route = e.args[0]
        if not (isinstance(route, ast.Name) and env.get(route.id) == "route"):
            raise Unsupported("route argument `%s`" % ast.unparse(route))
        card = dotted(e.args[1]) or ""
        if not card.startswith("grpclib.const.Cardinality.") or card.rsplit(".", 1)[1] not in CARDS:
            raise Unsupported("cardinality argument `%s`" % ast.unparse(e.args[1]))
        kw = e.keywords[0].value
        if not (isinstance(kw, ast.Call) and dotted(kw.func) in ("self.__resolve_request_kwargs",
                                                                 "self." + mangled("ServiceStub", "__resolve_request_kwargs"))
                and not kw.keywords and len(kw.args) == 3):
            raise Unsupported("**kwargs argument `%s`" % ast.unparse(kw))
        kwargs = "(resolve_request_kwargs self %s)" % " ".join(self.opt_expr(x, env) for x in kw.args)
        return "(PyG.channelRequest %s PyG.Cardinality.%s %s %s %s)" % (
            ln(route.id), card.rsplit(".", 1)[1], self.ty_expr(e.args[2], env), self.ty_expr(e.args[3], env), kwargs)

    def ty_expr(self, e, env):
        if isinstance(e, ast.Name) and env.get(e.id) == "ty":
            return ln(e.id)
        if isinstance(e, ast.Call) and dotted(e.func) == "type" and len(e.args) == 1 and not e.keywords \
                and isinstance(e.args[0], ast.Name) and env.get(e.args[0].id) == "msg":
            return "(PyG.typeOf %s)" % ln(e.args[0].id)
        raise Unsupported("type argument `%s`" % ast.unparse(e))

    def send_messages_call(self, c, env):
        """`self._send_messages(stream, it)` -> the List (SOp Req) expression"""
        if isinstance(c, ast.Call) and dotted(c.func) == "self._send_messages" and len(c.args) == 2 and not c.keywords \
                and isinstance(c.args[0], ast.Name) and env.get(c.args[0].id) == "stream" \
                and isinstance(c.args[1], ast.Name) and env.get(c.args[1].id) == "source":
            return "(send_messages %s)" % ln(c.args[1].id)
        return None

    def cops(self, stmts, env, st, inside):
        parts = [self.cop(s, env, st, inside) for s in stmts]
        return "(" + " ++ ".join(parts) + ")" if parts else "[]"

    def cop(self, s, env, st, inside):
        if inside:
            meth, c = self.stream_call(s, env)
            if meth == "send_request" and not c.args and not c.keywords:
                return "[COp.sendRequest]"
            if meth == "send_message":
                return "[COp.send (%s)]" % self.send_message_op(c, env)
            if meth == "end" and not c.args and not c.keywords:
                return "[COp.send SOp.endStream]"
            if isinstance(s, ast.Expr) and isinstance(s.value, ast.Await):
                ops = self.send_messages_call(s.value.value, env)
                if ops:
                    return "PyG.awaitInline %s" % ops
            if isinstance(s, ast.Assign) and len(s.targets) == 1 and isinstance(s.targets[0], ast.Name):
                x, v = s.targets[0].id, s.value
                if x in env:
                    raise Unsupported("assignment to %s" % x)
                # response = await stream.recv_message()
                if isinstance(v, ast.Await) and isinstance(v.value, ast.Call) and isinstance(v.value.func, ast.Attribute) \
                        and isinstance(v.value.func.value, ast.Name) and env.get(v.value.func.value.id) == "stream" \
                        and v.value.func.attr == "recv_message" and not v.value.args and not v.value.keywords:
                    if st["resp"] not in (None, x):
                        raise Unsupported("two response locals")
                    st["resp"] = x
                    return "[COp.recvMessage]"
                # sending_task = asyncio.ensure_future(self._send_messages(stream, it))
                if isinstance(v, ast.Call) and dotted(v.func) == "asyncio.ensure_future" and len(v.args) == 1 \
                        and not v.keywords:
                    ops = self.send_messages_call(v.args[0], env)
                    if ops and st["task"] is None:
                        st["task"] = x
                        return "[COp.spawn %s]" % ops
            # async for x in stream: yield x
            if isinstance(s, ast.AsyncFor) and not s.orelse and isinstance(s.target, ast.Name) \
                    and isinstance(s.iter, ast.Name) and env.get(s.iter.id) == "stream" and len(s.body) == 1 \
                    and isinstance(s.body[0], ast.Expr) and isinstance(s.body[0].value, ast.Yield) \
                    and isinstance(s.body[0].value.value, ast.Name) and s.body[0].value.value.id == s.target.id \
                    and s.target.id not in env:
                st["yields"] = True
                return "[COp.iterYield]"
            # try: BODY except: task.cancel(); raise
            if isinstance(s, ast.Try) and not s.orelse and not s.finalbody and len(s.handlers) == 1 \
                    and s.handlers[0].type is None and s.handlers[0].name is None:
                hb = s.handlers[0].body
                ok = (len(hb) == 2 and isinstance(hb[1], ast.Raise) and hb[1].exc is None and hb[1].cause is None
                      and isinstance(hb[0], ast.Expr) and isinstance(hb[0].value, ast.Call)
                      and isinstance(hb[0].value.func, ast.Attribute) and hb[0].value.func.attr == "cancel"
                      and isinstance(hb[0].value.func.value, ast.Name) and st["task"] is not None
                      and hb[0].value.func.value.id == st["task"] and not hb[0].value.args and not hb[0].value.keywords)
                if ok:
                    return "PyG.tryCancel %s" % self.cops(s.body, env, st, True)
        else:
            # assert response is not None
            if isinstance(s, ast.Assert) and s.msg is None and isinstance(s.test, ast.Compare) and len(s.test.ops) == 1 \
                    and isinstance(s.test.ops[0], ast.IsNot) and isinstance(s.test.left, ast.Name) \
                    and s.test.left.id == st["resp"] and isinstance(s.test.comparators[0], ast.Constant) \
                    and s.test.comparators[0].value is None:
                return "[COp.assertResponse]"
            if isinstance(s, ast.Return) and isinstance(s.value, ast.Name) and s.value.id == st["resp"]:
                return "[COp.returnResponse]"
        raise Unsupported("statement `%s`" % ast.unparse(s).splitlines()[0])


# ---------------------------------------------------------------------------------------------------------------
# server side: continuation-passing translation into VProg

class ServerCtx:
    """env: name -> 'stream' | 'reqarg' | 'handler' | 'hobj' | 'oresp'"""

    def __init__(self, self_handler=None, has_helper=False):
        self.self_handler = self_handler      # name of the Base method `self.<m>` stands for the handler
        self.has_helper = has_helper

    def handler_ref(self, e, env):
        if isinstance(e, ast.Name) and env.get(e.id) == "handler":
            return ln(e.id)
        if self.self_handler and dotted(e) == "self." + self.self_handler and "self" not in env:
            return "handler"
        raise Unsupported("handler reference `%s`" % ast.unparse(e))

    def name_of(self, e, env, kind):
        if isinstance(e, ast.Name) and env.get(e.id) == kind:
            return ln(e.id)
        raise Unsupported("`%s` is not a %s" % (ast.unparse(e), kind))

    def block(self, stmts, env, k):
        if not stmts:
            return k
        st, rest = stmts[0], stmts[1:]
        # X = ...
        if isinstance(st, ast.Assign) and len(st.targets) == 1 and isinstance(st.targets[0], ast.Name):
            x, v = st.targets[0].id, st.value
            if x in env or x == "self":
                raise Unsupported("assignment to %s" % x)
            env2 = dict(env)
            if isinstance(v, ast.Await) and isinstance(v.value, ast.Call):
                c = v.value
                f = c.func
                if isinstance(f, ast.Attribute) and isinstance(f.value, ast.Name) and env.get(f.value.id) == "stream" \
                        and f.attr == "recv_message" and not c.args and not c.keywords:
                    env2[x] = "reqarg"
                    return "PyG.recvMessage (fun %s => %s)" % (ln(x), self.block(rest, env2, k))
                if len(c.args) == 1 and not c.keywords:
                    h = self.handler_ref(f, env)
                    a = self.name_of(c.args[0], env, "reqarg")
                    env2[x] = "oresp"
                    return "PyG.awaitHandler %s %s (fun %s => %s)" % (h, a, ln(x), self.block(rest, env2, k))
            if isinstance(v, ast.Call) and not v.keywords:
                f = v.func
                if isinstance(f, ast.Attribute) and isinstance(f.value, ast.Name) and env.get(f.value.id) == "stream" \
                        and f.attr == "__aiter__" and not v.args:
                    env2[x] = "reqarg"
                    return "(let %s := PyG.aiter; %s)" % (ln(x), self.block(rest, env2, k))
                if len(v.args) == 1 and not isinstance(f, ast.Attribute):
                    h = self.handler_ref(f, env)
                    a = self.name_of(v.args[0], env, "reqarg")
                    env2[x] = "hobj"
                    return "(let %s := PyG.callHandler %s %s; %s)" % (ln(x), h, a, self.block(rest, env2, k))
        # await stream.send_message(x) / await self._call_rpc_handler_server_stream(self.m, stream, request)
        if isinstance(st, ast.Expr) and isinstance(st.value, ast.Await) and isinstance(st.value.value, ast.Call):
            c = st.value.value
            f = c.func
            if isinstance(f, ast.Attribute) and isinstance(f.value, ast.Name) and env.get(f.value.id) == "stream" \
                    and f.attr == "send_message" and len(c.args) == 1 and not c.keywords:
                return "PyG.serverSend %s (%s)" % (self.name_of(c.args[0], env, "oresp"), self.block(rest, env, k))
            if self.has_helper and dotted(f) == "self._call_rpc_handler_server_stream" and len(c.args) == 3 \
                    and not c.keywords and "self" not in env:
                h = self.handler_ref(c.args[0], env)
                self.name_of(c.args[1], env, "stream")
                a = self.name_of(c.args[2], env, "reqarg")
                return "call_rpc_handler_server_stream %s %s (%s)" % (h, a, self.block(rest, env, k))
        # X.close()
        if isinstance(st, ast.Expr) and isinstance(st.value, ast.Call) and isinstance(st.value.func, ast.Attribute) \
                and st.value.func.attr == "close" and not st.value.args and not st.value.keywords:
            o = self.name_of(st.value.func.value, env, "hobj")
            return "PyG.close %s (%s)" % (o, self.block(rest, env, k))
        # if isinstance(X, AsyncIterable): A else: B
        if isinstance(st, ast.If):
            t = st.test
            if isinstance(t, ast.Call) and dotted(t.func) == "isinstance" and len(t.args) == 2 and not t.keywords \
                    and dotted(t.args[1]) == "AsyncIterable":
                o = self.name_of(t.args[0], env, "hobj")
                after = self.block(rest, env, k)
                return "(if PyG.isAsyncIterableObj %s then %s else %s)" % (
                    o, self.block(st.body, env, after), self.block(st.orelse, env, after))
        # async for V in X: BODY
        if isinstance(st, ast.AsyncFor) and not st.orelse and isinstance(st.target, ast.Name):
            o = self.name_of(st.iter, env, "hobj")
            v = st.target.id
            if v in env or v == "self":
                raise Unsupported("loop variable %s shadows" % v)
            for n in ast.walk(st):
                if isinstance(n, (ast.Break, ast.Continue, ast.Return)):
                    raise Unsupported("break / continue / return in a loop")
            env2 = dict(env)
            env2[v] = "oresp"
            return "PyG.asyncFor %s (fun %s k' => %s) (%s)" % (o, ln(v), self.block(st.body, env2, "k'"),
                                                              self.block(rest, env, k))
        raise Unsupported("statement `%s`" % ast.unparse(st).splitlines()[0])


def server_helper(tree):
    cls = [n for n in tree.body if isinstance(n, ast.ClassDef) and n.name == "ServiceBase"]
    if len(cls) != 1:
        raise Unsupported("class ServiceBase not found once")
    fns = [n for n in cls[0].body if isinstance(n, (ast.FunctionDef, ast.AsyncFunctionDef))
           and n.name == "_call_rpc_handler_server_stream"]
    if len(fns) != 1 or not isinstance(fns[0], ast.AsyncFunctionDef) or fns[0].decorator_list:
        raise Unsupported("_call_rpc_handler_server_stream missing / not async / decorated")
    ok = any(isinstance(n, ast.ImportFrom) and n.module in ("collections.abc", "typing")
             and any(a.name == "AsyncIterable" and a.asname is None for a in n.names) for n in tree.body)
    if not ok:
        raise Unsupported("AsyncIterable is not imported from collections.abc / typing")
    for n in ast.walk(tree):
        if isinstance(n, ast.Name) and isinstance(n.ctx, ast.Store) and n.id in ("AsyncIterable", "isinstance"):
            raise Unsupported("%s is rebound" % n.id)
    fn = fns[0]
    no_nested(fn)
    if any(isinstance(n, (ast.Yield, ast.YieldFrom, ast.Return, ast.Try, ast.With, ast.AsyncWith)) for n in ast.walk(fn)):
        raise Unsupported("_call_rpc_handler_server_stream: yield / return / try / with")
    a = plain_args(fn, fn.name)
    pos = [x.arg for x in a.args]
    if a.kwonlyargs or a.defaults or len(pos) != 4 or pos[0] != "self" or len(set(pos)) != 4:
        raise Unsupported("_call_rpc_handler_server_stream signature")
    env = {pos[1]: "handler", pos[2]: "stream", pos[3]: "reqarg"}
    body = ServerCtx().block(strip_doc(fn.body), env, "k")
    return ("/- ServiceBase._call_rpc_handler_server_stream  (grpclib_server.py, line %d) -/\n" % fn.lineno
            + "def call_rpc_handler_server_stream {Req Resp : Type} (%s : Handler Req Resp) (%s : PyG.ReqArg Req) "
              "(k : VProg Req Resp) : VProg Req Resp :=\n  %s" % (ln(pos[1]), ln(pos[3]), body))


# ---------------------------------------------------------------------------------------------------------------
# the rendered probe service

def find_class(tree, name):
    cs = [n for n in tree.body if isinstance(n, ast.ClassDef) and n.name == name]
    if len(cs) != 1:
        raise Unsupported("class %s not rendered once" % name)
    return cs[0]


def rendered(tree, client):
    """the Stub / Base classes of the probe service -> list of definitions"""
    import extract_stub as ES
    from betterproto.compile.naming import pythonize_class_name
    svc = pythonize_class_name(ES.PROBE_SVC)
    stub, base = find_class(tree, svc + "Stub"), find_class(tree, svc + "Base")
    if [dotted(b) for b in stub.bases] != ["betterproto.ServiceStub"] or [dotted(b) for b in base.bases] != ["ServiceBase"]:
        raise Unsupported("bases of the rendered classes")
    TY = {"ProbeReq": "PyG.Ty.req", "ProbeRep": "PyG.Ty.resp"}
    out = []
    # --- stub methods
    smeths = [n for n in stub.body if not (isinstance(n, ast.Expr) and isinstance(n.value, ast.Constant))]
    if len(smeths) != 4 or not all(isinstance(n, ast.AsyncFunctionDef) and not n.decorator_list for n in smeths):
        raise Unsupported("the rendered Stub class does not consist of 4 async methods")
    routes = []
    for fn, suf, (proto, cs, ss) in zip(smeths, SUFFIX, ES.PROBE_METHODS):
        no_nested(fn)
        a = plain_args(fn, fn.name)
        pos = [x.arg for x in a.args]
        kwo = [x.arg for x in a.kwonlyargs]
        if a.defaults or len(pos) != 2 or pos[0] != "self" or len(kwo) != 3 or len(set(pos + kwo)) != 5 \
                or any(not (isinstance(d, ast.Constant) and d.value is None) for d in a.kw_defaults):
            raise Unsupported("stub method %s signature" % fn.name)
        env = {pos[1]: "arg"}
        for k in kwo:
            env[k] = "opt"
        body = strip_doc(fn.body)
        if len(body) != 1:
            raise Unsupported("stub method %s: %d statements" % (fn.name, len(body)))
        st = body[0]
        if isinstance(st, ast.Return) and isinstance(st.value, ast.Await):
            call, wrap = st.value.value, "PyG.returnAwait"
        elif isinstance(st, ast.AsyncFor) and not st.orelse and isinstance(st.target, ast.Name) and len(st.body) == 1 \
                and isinstance(st.body[0], ast.Expr) and isinstance(st.body[0].value, ast.Yield) \
                and isinstance(st.body[0].value.value, ast.Name) and st.body[0].value.value.id == st.target.id \
                and st.target.id not in env:
            call, wrap = st.iter, "PyG.asyncForYield"
        else:
            raise Unsupported("stub method %s: statement `%s`" % (fn.name, ast.unparse(st).splitlines()[0]))
        if any(isinstance(n, (ast.Yield, ast.YieldFrom)) for n in ast.walk(fn)) != (wrap == "PyG.asyncForYield"):
            raise Unsupported("stub method %s: stray yield" % fn.name)
        d = dotted(call.func) if isinstance(call, ast.Call) else None
        if not d or not d.startswith("self.") or d[5:] not in HELPERS:
            raise Unsupported("stub method %s calls `%s`" % (fn.name, ast.unparse(call)))
        hname = d[5:]
        lean_name, streaming = HELPERS[hname]
        # `return await` needs a coroutine helper, `async for` an async generator helper
        if client.helper_is_gen[hname] != (wrap == "PyG.asyncForYield"):
            raise Unsupported("stub method %s: %s on %s" % (fn.name, wrap, hname))
        if len(call.args) != (4 if streaming else 3):
            raise Unsupported("stub method %s: %d positional arguments" % (fn.name, len(call.args)))
        r = call.args[0]
        if not (isinstance(r, ast.Constant) and isinstance(r.value, str)):
            raise Unsupported("route `%s`" % ast.unparse(r))
        routes.append(r.value)
        args = ["%s.toList" % lean_str(r.value)]
        x = call.args[1]
        if not (isinstance(x, ast.Name) and env.get(x.id) == "arg"):
            raise Unsupported("request argument `%s`" % ast.unparse(x))
        args.append(ln(x.id))
        for t in call.args[2:]:
            if dotted(t) not in TY:
                raise Unsupported("type argument `%s`" % ast.unparse(t))
            args.append(TY[dotted(t)])
        kws = {k.arg: k.value for k in call.keywords}
        if len(kws) != len(call.keywords) or set(kws) != set(client.kwonly[hname]):
            raise Unsupported("stub method %s: keywords of the helper call" % fn.name)
        for k in client.kwonly[hname]:
            v = kws[k]
            if not (isinstance(v, ast.Name) and env.get(v.id) == "opt"):
                raise Unsupported("keyword value `%s`" % ast.unparse(v))
            args.append(ln(v.id))
        argty = "PyG.Source Req" if streaming else "Req"
        out.append("/- %sStub.%s  (rendered template.py.j2: rpc %s) -/\n" % (svc, fn.name, proto)
                   + "def stub_%s {Req α : Type} (self : Kw α) (%s : %s) %s : PyG.Helper Req α :=\n  %s (%s self %s)"
                   % (suf, ln(pos[1]), argty, " ".join("(%s : Option α)" % ln(k) for k in kwo), wrap, lean_name,
                      " ".join(args)))
    # --- base class: default methods, adapters, mapping
    bmeths = [n for n in base.body if not (isinstance(n, ast.Expr) and isinstance(n.value, ast.Constant))]
    if len(bmeths) != 9 or not all(isinstance(n, ast.AsyncFunctionDef) and not n.decorator_list for n in bmeths[:8]) \
            or not isinstance(bmeths[8], ast.FunctionDef) or bmeths[8].name != "__mapping__" or bmeths[8].decorator_list:
        raise Unsupported("the rendered Base class is not 4 methods + 4 adapters + __mapping__")
    names = []
    for fn, suf, (proto, cs, ss) in zip(bmeths[:4], SUFFIX, ES.PROBE_METHODS):
        no_nested(fn)
        a = plain_args(fn, fn.name)
        pos = [x.arg for x in a.args]
        if a.kwonlyargs or a.defaults or len(pos) != 2 or pos[0] != "self" or fn.name.startswith("__"):
            raise Unsupported("base method %s signature" % fn.name)
        names.append(fn.name)
        body = strip_doc(fn.body)
        if not body or not isinstance(body[0], ast.Raise) or body[0].cause is not None:
            raise Unsupported("base method %s does not start with `raise`" % fn.name)
        exc = body[0].exc
        if not (isinstance(exc, ast.Call) and dotted(exc.func) == "grpclib.GRPCError" and len(exc.args) == 1
                and not exc.keywords and dotted(exc.args[0]) == "grpclib.const.Status.UNIMPLEMENTED"):
            raise Unsupported("base method %s raises `%s`" % (fn.name, ast.unparse(exc) if exc else ""))
        is_gen = any(isinstance(n, (ast.Yield, ast.YieldFrom)) for n in ast.walk(fn))
        out.append("/- %sBase.%s  (rendered template.py.j2: the default body) -/\n" % (svc, fn.name)
                   + "def base_%s {Req Resp : Type} : Handler Req Resp :=\n  ⟨%s, fun %s => "
                     "HProg.raise (PyG.grpcError PyG.Status.UNIMPLEMENTED)⟩"
                   % (suf, "true" if is_gen else "false", ln(pos[1])))
    if len(set(names)) != 4:
        raise Unsupported("base method names not distinct")
    rpc_names = []
    for fn, suf, name in zip(bmeths[4:8], SUFFIX, names):
        no_nested(fn)
        a = plain_args(fn, fn.name)
        pos = [x.arg for x in a.args]
        if a.kwonlyargs or a.defaults or len(pos) != 2 or pos[0] != "self" or not fn.name.startswith("__rpc_"):
            raise Unsupported("adapter %s signature" % fn.name)
        if any(isinstance(n, (ast.Yield, ast.YieldFrom, ast.Return, ast.Try, ast.With, ast.AsyncWith)) for n in ast.walk(fn)):
            raise Unsupported("adapter %s: yield / return / try / with" % fn.name)
        rpc_names.append(fn.name)
        body = ServerCtx(self_handler=name, has_helper=True).block(strip_doc(fn.body), {pos[1]: "stream"}, "PyG.adapterReturn")
        out.append("/- %sBase.%s  (rendered template.py.j2; `self.%s` is `handler`) -/\n" % (svc, fn.name, name)
                   + "def rpc_%s {Req Resp : Type} (handler : Handler Req Resp) : VProg Req Resp :=\n  %s" % (suf, body))
    mp = bmeths[8]
    body = strip_doc(mp.body)
    if len(mp.args.args) != 1 or len(body) != 1 or not isinstance(body[0], ast.Return) or not isinstance(body[0].value, ast.Dict):
        raise Unsupported("__mapping__ is not `return {…}`")
    rows = []
    for k, v in zip(body[0].value.keys, body[0].value.values):
        if not (isinstance(k, ast.Constant) and isinstance(k.value, str)):
            raise Unsupported("__mapping__ key")
        if not (isinstance(v, ast.Call) and dotted(v.func) == "grpclib.const.Handler" and len(v.args) == 4 and not v.keywords):
            raise Unsupported("__mapping__ value `%s`" % ast.unparse(v))
        f = dotted(v.args[0]) or ""
        if not f.startswith("self.") or f[5:] not in rpc_names:
            raise Unsupported("__mapping__ adapter `%s`" % ast.unparse(v.args[0]))
        card = dotted(v.args[1]) or ""
        if not card.startswith("grpclib.const.Cardinality.") or card.rsplit(".", 1)[1] not in CARDS:
            raise Unsupported("__mapping__ cardinality `%s`" % ast.unparse(v.args[1]))
        if dotted(v.args[2]) not in TY or dotted(v.args[3]) not in TY:
            raise Unsupported("__mapping__ types")
        rows.append("(%s.toList, %d, PyG.Cardinality.%s, %s, %s)" % (
            lean_str(k.value), rpc_names.index(f[5:]), card.rsplit(".", 1)[1], TY[dotted(v.args[2])], TY[dotted(v.args[3])]))
    out.append("/- %sBase.__mapping__: (route, index of the bound `__rpc_*` adapter, Cardinality, request type, reply type) -/\n" % svc
               + "def mapping : List (Str × Nat × Card × PyG.Ty × PyG.Ty) :=\n  [%s]" % ",\n   ".join(rows))
    return out


def render_probe(opts):
    import pluginrun
    import extract_stub as ES
    g = pluginrun.generate({"probe.proto": ES.PROBE}, opts)
    try:
        if not g.ok:
            raise Unsupported("the plugin failed on the probe service: " + g.log[-200:].replace("\n", " "))
        src = g.files().get(os.path.join("probe", "v1", "__init__.py"))
        if src is None:
            raise Unsupported("no output module for the probe service")
        return src
    finally:
        g.cleanup()


def translate():
    try:
        ctree = ast.parse(open(CLIENT).read())
        stree = ast.parse(open(SERVER).read())
    except (OSError, SyntaxError) as e:
        raise Unsupported("cannot read the source: %r" % (e,))
    client = ClientModule(ctree)
    client.resolve()
    client.send_messages()
    for name in HELPERS:
        client.helper(name)
    defs = list(client.out)
    defs.append(server_helper(stree))
    import extract_stub as ES
    with concurrent.futures.ThreadPoolExecutor(max_workers=3) as ex:
        texts = list(ex.map(lambda lo: render_probe(lo[1]), ES.OPTION_SETS))
    per_opt = []
    for (label, _), src in zip(ES.OPTION_SETS, texts):
        try:
            tree = ast.parse(src)
        except SyntaxError as e:
            raise Unsupported("the module rendered under %s does not parse: %s" % (label, e.msg))
        per_opt.append((label, rendered(tree, client)))
    for label, d in per_opt[1:]:
        if d != per_opt[0][1]:
            raise Unsupported("the service part rendered under option set %s translates differently from %s"
                              % (label, per_opt[0][0]))
    return defs + per_opt[0][1]


HEADER = """import BpProofs.PyPreludeGrpc
/- GENERATED by harness/extract_srcgrpc.py from the Python AST of src/betterproto/grpc/grpclib_client.py,
   src/betterproto/grpc/grpclib_server.py and of the probe service rendered by the plugin + template.py.j2 of the
   working tree (all six option sets translate to this text) -- do not edit.
   source-hash: %s -/
set_option linter.unusedVariables false
namespace Bp.SrcGrpc
open Bp Bp.Grpc Bp.GrpcCall

"""


def tree_hash():
    root = os.path.join(REPO, "src", "betterproto")
    h = hashlib.sha1()
    for dp, dn, fn in sorted(os.walk(root)):
        dn.sort()
        if "__pycache__" in dp:
            continue
        for f in sorted(fn):
            if f.endswith((".py", ".j2")):
                p = os.path.join(dp, f)
                h.update(os.path.relpath(p, root).encode())
                with open(p, "rb") as fh:
                    h.update(fh.read())
    for p in (os.path.abspath(__file__), os.path.join(HERE, "extract_stub.py"), os.path.join(HERE, "pluginrun.py")):
        with open(p, "rb") as fh:
            h.update(fh.read())
    return h.hexdigest()[:16]


def render():
    stamp = tree_hash()
    head = HEADER % stamp
    try:
        defs = translate()
        return head + "\n\n".join(defs) + "\n\nend Bp.SrcGrpc\n", None
    except Unsupported as e:
        msg = "the source translator does not support the current source: %s" % e
        return head + "/- TRANSLATION FAILED: %s -/\n\nend Bp.SrcGrpc\n" % msg.replace("-/", "- /"), msg


def main(write_if_changed, gen_dir):
    target = os.path.normpath(os.path.join(gen_dir, "..", "..", "BpProofs", "Gen", "SrcGrpc.lean"))
    stamp = tree_hash()
    if os.path.exists(target):
        with open(target) as f:
            m = re.search(r"source-hash: ([0-9a-f]+)", f.read(1200))
        if m and m.group(1) == stamp:
            return []
    text, err = render()
    changed = write_if_changed(target, text)
    if err:
        print("extract_srcgrpc: " + err)
    return ["SrcGrpc.lean"] if changed else []


if __name__ == "__main__":
    t, e = render()
    print(t)
    if e:
        print("ERROR:", e)
