"""SOURCE TRANSLATOR (C13): `parse_source_type_name` of src/betterproto/compile/importing.py -> Lean.

The one piece of importing.py that harness/extract_srcimp.py leaves out: the function that splits a fully qualified
proto type name into (package, type name) with a regular expression.  On every run the function is read with `ast`:

  * the regex string handed to `re.match` is PARSED (the parser of harness/extract_srccasing.py, extended here by the
    two atoms this pattern needs: `\\.` — an escaped literal character — and `.` — any character but a newline, no DOTALL
    flag) into the regex AST of lean/BpProofs/PyRegex.lean;
  * the body is translated statement by statement.  Supported, and nothing else:
        <m> = re.match(<str constant>, <the parameter>)          (no flags argument)
        if <m>: <assignments> else: <assignments>                (both branches bind the same names)
        <x> = <m>.group(<int constant>)                          (only where <m> is known to be a match: the `if <m>` branch;
                                                                  the group must lie on every path of the pattern)
        <x> = <str constant>
        <x> = <the parameter>.lstrip(<one-character str constant>)
        return <x>, <y>
    Anything else -> Unsupported: the generated file then holds no definition and the tie theorems do not compile.

Output: lean/BpProofs/Gen/SrcImportingRe.lean.  What `re.match` means is `PyRe.reMatch` of
lean/BpProofs/PyPreludeImpRe.lean (one match attempt at position 0, no search).  lean/BpProofs/SrcTieImpRe.lean proves
the translated function equal to the model's `parseSourceTypeName` on every string without a newline;
lean/BpProofs/Props/C13SrcParse.lean states that.
"""
import ast
import os

from extract_src import Unsupported
import extract_srccasing as casing_tr

REPO = os.environ.get("VERIF_REPO", "/repo")
SRC = os.path.join(REPO, "src", "betterproto", "compile", "importing.py")
REL = "src/betterproto/compile/importing.py"
FUNC = "parse_source_type_name"


class RegexParser(casing_tr.RegexParser):
    """+ `\\.` (escaped punctuation = that literal character) and `.` (any character except '\\n')"""

    def atom(self):
        c = self.peek()
        if c == "\\":
            nxt = self.s[self.i + 1] if self.i + 1 < len(self.s) else None
            if nxt is None or nxt not in ".":
                self.fail("escape \\%s" % nxt)
            self.i += 2
            return ("set", False, [(nxt, nxt)])
        if c == ".":
            self.i += 1
            return ("set", True, [("\\n", "\\n")])
        return super().atom()


def parse_regex(src):
    p = RegexParser(src)
    return p.parse(), p.ngroups


def lean_chars(s):
    return casing_tr.lean_str(s)


class Fn:
    def __init__(self, fn):
        self.fn = fn
        a = fn.args
        if a.posonlyargs or a.kwonlyargs or a.vararg or a.kwarg or a.defaults or len(a.args) != 1:
            raise Unsupported("signature of %s" % FUNC)
        self.param = a.args[0].arg
        self.match_var = None
        self.pattern = None
        self.always = set()
        self.out = []

    def is_param(self, e):
        return isinstance(e, ast.Name) and e.id == self.param

    def re_match(self, e):
        if not (isinstance(e, ast.Call) and isinstance(e.func, ast.Attribute) and e.func.attr == "match"
                and isinstance(e.func.value, ast.Name) and e.func.value.id == "re"):
            return None
        if e.keywords or len(e.args) != 2:
            raise Unsupported("re.match with flags / keywords")
        pat, subj = e.args
        if not (isinstance(pat, ast.Constant) and isinstance(pat.value, str)):
            raise Unsupported("re.match pattern is not a str constant")
        if not self.is_param(subj):
            raise Unsupported("re.match subject is not the parameter")
        return pat.value

    def value(self, e, matched):
        """right-hand side of an assignment inside a branch; `matched`: True in `if m`, False in `else`"""
        if isinstance(e, ast.Constant) and isinstance(e.value, str):
            return lean_chars(e.value)
        if isinstance(e, ast.Call) and isinstance(e.func, ast.Attribute) and not e.keywords:
            f = e.func
            if f.attr == "group" and isinstance(f.value, ast.Name) and f.value.id == self.match_var:
                if not matched:
                    raise Unsupported("%s.group() where %s is None" % (self.match_var, self.match_var))
                if len(e.args) != 1 or not (isinstance(e.args[0], ast.Constant) and type(e.args[0].value) is int):
                    raise Unsupported("group() argument")
                g = e.args[0].value
                if g not in self.always:
                    raise Unsupported("group %d does not lie on every path of the pattern" % g)
                return "(mt.str %d)" % g
            if f.attr == "lstrip" and self.is_param(f.value):
                if len(e.args) != 1 or not (isinstance(e.args[0], ast.Constant) and isinstance(e.args[0].value, str)
                                            and len(e.args[0].value) == 1):
                    raise Unsupported("lstrip argument")
                ch = e.args[0].value
                if not (32 <= ord(ch) < 127) or ch in "'\\":
                    raise Unsupported("lstrip character")
                return "(Py.lstripChar '%s' %s)" % (ch, self.param)
        raise Unsupported("expression `%s`" % ast.unparse(e))

    def branch(self, stmts, matched):
        env = {}
        for st in stmts:
            if not (isinstance(st, ast.Assign) and len(st.targets) == 1 and isinstance(st.targets[0], ast.Name)):
                raise Unsupported("statement `%s`" % ast.unparse(st))
            name = st.targets[0].id
            if name in (self.param, self.match_var):
                raise Unsupported("assignment to %s" % name)
            env[name] = self.value(st.value, matched)
        return env

    def translate(self):
        body = list(self.fn.body)
        if body and isinstance(body[0], ast.Expr) and isinstance(body[0].value, ast.Constant) \
                and isinstance(body[0].value.value, str):
            body = body[1:]                                   # docstring
        if len(body) != 3:
            raise Unsupported("%s: expected `m = re.match(…)`, `if m: … else: …`, `return a, b`" % FUNC)
        asg, cond, ret = body
        if not (isinstance(asg, ast.Assign) and len(asg.targets) == 1 and isinstance(asg.targets[0], ast.Name)):
            raise Unsupported("first statement")
        pat = self.re_match(asg.value)
        if pat is None:
            raise Unsupported("first statement is not `m = re.match(…)`")
        self.match_var = asg.targets[0].id
        if self.match_var == self.param:
            raise Unsupported("match object stored in the parameter")
        tree, _ = parse_regex(pat)
        self.pattern = pat
        self.always = casing_tr.always_groups(tree)
        if not (isinstance(cond, ast.If) and isinstance(cond.test, ast.Name) and cond.test.id == self.match_var
                and cond.orelse):
            raise Unsupported("second statement is not `if %s: … else: …`" % self.match_var)
        yes = self.branch(cond.body, True)
        no = self.branch(cond.orelse, False)
        if not (isinstance(ret, ast.Return) and isinstance(ret.value, ast.Tuple) and len(ret.value.elts) == 2
                and all(isinstance(x, ast.Name) for x in ret.value.elts)):
            raise Unsupported("return statement")
        names = [x.id for x in ret.value.elts]
        for n in names:
            if n not in yes or n not in no:
                raise Unsupported("`%s` is not bound on both branches" % n)
        doc = pat.replace("-/", "- /")
        self.out.append("/-- the pattern of %s: %s -/\ndef %s.pattern : PyRe.Re :=\n  %s" % (
            FUNC, doc, FUNC, casing_tr.lean_re(tree)))
        self.out.append(
            "/- %s  (%s, line %d) -/\ndef %s (%s : Str) : Str × Str :=\n"
            "  match PyRe.reMatch %s.pattern %s with\n"
            "  | some mt => (%s, %s)\n"
            "  | none => (%s, %s)" % (
                FUNC, REL, self.fn.lineno, FUNC, self.param, FUNC, self.param,
                yes[names[0]], yes[names[1]], no[names[0]], no[names[1]]))
        return self.out


def translate(path=SRC):
    tree = ast.parse(open(path).read())
    fns = [n for n in tree.body if isinstance(n, ast.FunctionDef) and n.name == FUNC]
    if len(fns) != 1:
        raise Unsupported("%s is not defined exactly once at module level" % FUNC)
    if fns[0].decorator_list:
        raise Unsupported("%s is decorated" % FUNC)
    # `re` must be the standard module, bound once by `import re`
    binds = [n for n in ast.walk(tree) if isinstance(n, (ast.Import, ast.ImportFrom))
             and any((a.asname or a.name) == "re" for a in n.names)]
    if not (len(binds) == 1 and isinstance(binds[0], ast.Import)
            and any(a.name == "re" and a.asname is None for a in binds[0].names)):
        raise Unsupported("`re` is not bound exactly once by `import re`")
    for n in ast.walk(tree):
        if isinstance(n, ast.Name) and n.id == "re" and isinstance(n.ctx, (ast.Store, ast.Del)):
            raise Unsupported("`re` is rebound")
    return Fn(fns[0]).translate()


HEADER = """import BpProofs.PyPreludeImpRe
/- GENERATED by harness/extract_srcimpre.py from the Python AST of src/betterproto/compile/importing.py -- do not edit.
   `parse_source_type_name.pattern` is the regex string handed to `re.match`, parsed into the regex AST of
   BpProofs/PyRegex.lean; `parse_source_type_name` is the statement-by-statement translation of the function. -/
set_option linter.unusedVariables false
namespace Bp.Src
open Bp
open Bp.Importing (Str)

"""


def render(path=SRC):
    try:
        defs = translate(path)
        return HEADER + "\n\n".join(defs) + "\n\nend Bp.Src\n", None
    except Unsupported as e:
        msg = "the source translator does not support the current source: %s" % e
        return HEADER + "/- TRANSLATION FAILED: %s -/\n\nend Bp.Src\n" % msg.replace("-/", "- /"), msg
    except (OSError, SyntaxError) as e:
        msg = "the source translator could not read the source: %r" % (e,)
        return HEADER + "/- TRANSLATION FAILED: %s -/\n\nend Bp.Src\n" % msg.replace("-/", "- /"), msg


def main(write_if_changed, gen_dir):
    text, err = render()
    target = os.path.join(gen_dir, "..", "..", "BpProofs", "Gen", "SrcImportingRe.lean")
    changed = write_if_changed(os.path.normpath(target), text)
    if err:
        print("extract_srcimpre: " + err)
    return ["SrcImportingRe.lean"] if changed else []


if __name__ == "__main__":
    t, e = render()
    print(t)
    if e:
        print("ERROR:", e)
