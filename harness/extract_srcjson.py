"""SOURCE TRANSLATOR, per-field step of `Message.to_dict` (properties C04 / C05 / C07) and `_dump_float`: Python AST of
the BODY of the loop

    for field_name, meta in self._betterproto.meta_by_field_name.items():

of `Message.to_dict` of /repo/src/betterproto/__init__.py -> the Lean definition `Src.to_dict_field`, and of the whole
function `_dump_float` -> `Src.dump_float`.

Same scheme as extract_src.py / extract_srcdump.py (whose translators `Tr` / `TrDyn` are subclassed here): on every run
the code is read from the WORKING TREE with `ast`, translated statement by statement into pure Lean functions over the
vocabulary of lean/BpProofs/PyPrelude.lean + PyPreludeDyn.lean + PyPreludeJson.lean and written to
lean/BpProofs/Gen/SrcJson.lean.  lean/BpProofs/SrcTieJson.lean proves `Src.to_dict_field` equal to the model's
`toDictSlot` (and `Src.dump_float` to `dumpFloat`); lean/BpProofs/Props/C04Src.lean states that as property obligations.

Interface of the translated loop body (one iteration for the field described by `meta`):

    Src.to_dict_field (S : Schema) (E : Enums) (enc : Val → JVal) (casing : KeyCase) (include_default_values : Bool)
                      (meta : FieldD) (got : Py.Got) (inclDefaultForOneof : Bool) (output : Py.JDict) : Py.Res Py.JDict

  enc                  `x.to_dict(casing, include_default_values)` of a sub-message (the recursive call)
  casing / include_default_values   the two parameters of `to_dict` (their source names are kept)
  got                  outcome of `getattr(self, field_name)`: AttributeError, or the value (a model `Val`)
  inclDefaultForOneof  result of `self._include_default_value_for_oneof(field_name=field_name, meta=meta)`
  output               the items of the output dict so far, in insertion order; the result is the dict after the iteration

What must surround the loop (checked, anything else raises Unsupported): `<output> = {}` (the variable the method
returns), `<field_types> = self._type_hints()`, `<defaults> = self._betterproto.default_gen`, the loop, `return <output>`.

Constructs added to those of TrDyn (anything else raises Unsupported -> generated file without definitions):
  `try: <x> = getattr(self, field_name) / except AttributeError: <x> = self._get_field_default(field_name)` (one `let`
  with a match on `got`); `<defaults>[field_name] is list`; `casing(field_name).rstrip("_")`; `a == b` / `a != b` on
  proto types, `<x> != DATETIME_ZERO`, `<x> != timedelta(0)`, `<x> != self._get_field_default(field_name)`,
  `cls == datetime / timedelta`, `<x> == float("inf")`, `<x> == -float("inf")`; `t in (TYPE_A, TYPE_B)`;
  `isinstance(<x>, datetime | timedelta | float | typing.Iterable)`; `hasattr(<x>, "to_dict")`; `math.isnan(<x>)`;
  `self._betterproto.cls_by_field[field_name]`; `<field_types>[field_name]`, `….__args__[0]`; `<x>[<k>]`;
  `<d>[<k>] = <e>` on the output dict / a dict built with `{**<x>}`; list comprehensions `[<e> for <i> in <x>]` and list
  displays `[<e>]`; `for <k> in <x>:` (structural recursion over the items; no return / continue / break / nested
  loop in the body); `<x>.to_dict(casing, include_default_values)`; the intrinsic calls `str(<x>)`,
  `b64encode(<x>).decode("utf8")`, `_Timestamp.timestamp_to_json(<x>)`, `_Duration.delta_to_json(<x>)`,
  `_dump_enum(<cls>, <x>)` (parameter list checked against the source), calls of the translated `_dump_float`;
  `return <string constant INFINITY / NEG_INFINITY / NAN>`, `return <x>`.
"""
import ast
import os

from extract_src import SRC, Sig, Tr, Unsupported, indent, nm
import extract_src
from extract_srcdump import TrDyn, PTYPE_CTOR, INCL, find_method, field_loop, VAL_TYPES

LEAN_TY = {"bool": "Bool", "val": "Val", "vlist": "Val", "vdict": "Val", "meta": "FieldD", "ptype": "PType",
           "jval": "JVal", "jlist": "(List JVal)", "jdict": "Py.JDict", "jkey": "JKey", "cls": "MsgKind",
           "hint": "Py.Hint", "enumcls": "EnumDef", "casing": "KeyCase"}
JSON_STRINGS = {"Infinity": "(JVal.fstr 0)", "-Infinity": "(JVal.fstr 1)", "NaN": "(JVal.fstr 2)"}
DATETIME_ZERO_SRC = ("DATETIME_ZERO = datetime_default_gen()", "return datetime(1970, 1, 1, tzinfo=timezone.utc)")
DUMP_ENUM_PARAMS = ["enum_class", "value"]
DUMP_FLOAT = "_dump_float"
DUMP_FLOAT_LEAN = "dump_float"


def lty(t):
    if t not in LEAN_TY:
        raise Unsupported("no Lean type for " + str(t))
    return LEAN_TY[t]


class TrJson(TrDyn):
    """translator of one iteration of the field loop of to_dict / of `_dump_float`"""

    def __init__(self, sig, consts, ptypes, field_var, meta_var, carry, mod, casing_var=None, incl_var=None,
                 pre=None):
        super().__init__(sig, consts, ptypes, field_var, meta_var, carry, set())
        self.mod = mod                  # facts about the module: string constants, checked definitions
        self.casing_var, self.incl_var = casing_var, incl_var
        self.pre = pre or {}            # pre-loop pseudo variables: name -> "fieldtypes" | "defaultgen"
        self.used_try = set()
        self.fresh_stream = {}

    # ------------------------------------------------------------------------------------------------ expressions
    def pure(self, e, env, want=None):
        b, t, ty = self.expr(e, env)
        if b:
            raise Unsupported("expected an expression without effects: " + ast.unparse(e))
        if want is not None and ty not in (want if isinstance(want, tuple) else (want,)):
            raise Unsupported("%s has type %s, expected %s" % (ast.unparse(e), ty, want))
        return t, ty

    def is_pre(self, e, env, kind):
        return isinstance(e, ast.Name) and e.id not in env and self.pre.get(e.id) == kind

    def is_field_subscript(self, e, env, kind):
        """<pre-loop variable of that kind>[field_name]"""
        return isinstance(e, ast.Subscript) and self.is_pre(e.value, env, kind) and self.is_field_name(e.slice, env)

    def get_default(self, e, env):
        """self._get_field_default(field_name) -> Lean text or None"""
        if isinstance(e, ast.Call) and isinstance(e.func, ast.Attribute) and self.is_self(e.func.value, env) \
                and e.func.attr == "_get_field_default":
            if len(e.args) != 1 or e.keywords or not self.is_field_name(e.args[0], env):
                raise Unsupported("arguments of " + ast.unparse(e))
            return "(Py.getFieldDefault S %s)" % nm(self.meta_var)
        return None

    def float_inf(self, e):
        """float("inf") -> False, -float("inf") -> True, anything else -> None"""
        neg = False
        if isinstance(e, ast.UnaryOp) and isinstance(e.op, ast.USub):
            neg, e = True, e.operand
        if isinstance(e, ast.Call) and isinstance(e.func, ast.Name) and e.func.id == "float" and len(e.args) == 1 \
                and not e.keywords and isinstance(e.args[0], ast.Constant) and e.args[0].value == "inf":
            return neg
        return None

    def as_jval(self, e, env):
        """an object placed in a dict / returned as a JSON-ready object: (binds, Lean text of a JVal)"""
        b, t, ty = self.expr(e, env)
        if ty in VAL_TYPES:
            return b, "(Py.asIs %s)" % t
        if ty == "jval":
            return b, t
        if ty == "jlist":
            return b, "(Py.arrJ %s)" % t
        if ty == "jdict":
            return b, "(Py.objJ %s)" % t
        raise Unsupported("%s of type %s placed in a dict" % (ast.unparse(e), ty))

    def expr(self, e, env):
        if isinstance(e, ast.Name) and e.id not in env:
            if e.id in self.mod["strings"] and self.mod["strings"][e.id] in JSON_STRINGS:
                return [], JSON_STRINGS[self.mod["strings"][e.id]], "jval"
        if isinstance(e, ast.Compare) and len(e.ops) == 1:
            op, left, right = e.ops[0], e.left, e.comparators[0]
            if isinstance(op, ast.Is) and self.is_field_subscript(left, env, "defaultgen") \
                    and isinstance(right, ast.Name) and right.id == "list" and "list" not in env:
                return [], "(Py.defaultIsList %s)" % nm(self.meta_var), "bool"
            if isinstance(op, (ast.Eq, ast.NotEq)):
                neg = isinstance(op, ast.NotEq)

                def out(txt):
                    return [], "(!%s)" % txt if neg else txt, "bool"
                d = self.get_default(right, env)
                if d is not None:
                    v = self.value_operand(left, env)
                    return out("(Py.eqFieldDefault S %s %s)" % (nm(self.meta_var), v))
                if isinstance(right, ast.Name) and right.id == "DATETIME_ZERO" and right.id not in env and neg:
                    if not self.mod["datetime_zero"]:
                        raise Unsupported("DATETIME_ZERO is not defined as the aware epoch")
                    return [], "(Py.neDatetimeZero %s)" % self.value_operand(left, env), "bool"
                if ast.unparse(right) == "timedelta(0)" and "timedelta" not in env and neg:
                    return [], "(Py.neTimedeltaZero %s)" % self.value_operand(left, env), "bool"
                inf = self.float_inf(right)
                if inf is not None and not neg:
                    return [], "(Py.eqInf %s %s)" % ("true" if inf else "false", self.value_operand(left, env)), "bool"
                if isinstance(right, ast.Name) and right.id in ("datetime", "timedelta") and right.id not in env and not neg:
                    c, _ = self.pure(left, env, "cls")
                    return [], "(Py.%s %s)" % ("clsIsDatetime" if right.id == "datetime" else "clsIsTimedelta", c), "bool"
                lb, lt, lty_ = self.expr(left, env)
                if lty_ == "ptype":
                    rt, _ = self.pure(right, env, "ptype")
                    if lb:
                        raise Unsupported("effects in " + ast.unparse(e))
                    return out("(%s == %s)" % (lt, rt))
            if isinstance(op, ast.In) and isinstance(right, ast.Tuple) and right.elts:
                lt, _ = self.pure(left, env, "ptype")
                alts = [self.pure(x, env, "ptype")[0] for x in right.elts]
                return [], "(" + " || ".join("%s == %s" % (lt, a) for a in alts) + ")", "bool"
        if isinstance(e, ast.Subscript):
            if self.is_field_subscript(e, env, "fieldtypes"):
                return [], "(Py.fieldType E %s)" % nm(self.meta_var), "hint"
            if ast.unparse(e) == "self._betterproto.cls_by_field[%s]" % self.field_var and "self" not in env \
                    and self.field_var not in env:
                return [], "(Py.clsByField %s)" % nm(self.meta_var), "cls"
            if isinstance(e.value, ast.Attribute) and e.value.attr == "__args__" and isinstance(e.slice, ast.Constant) \
                    and e.slice.value == 0 and type(e.slice.value) is int:
                b, h, ty = self.expr(e.value.value, env)
                if ty != "hint":
                    raise Unsupported("__args__ of " + ast.unparse(e.value.value))
                t = self.tmp()
                return b + [("bind", t, "Py.hintArg0 %s" % h)], t, "enumcls"
            vb, vt, vty = self.expr(e.value, env)
            if vty in VAL_TYPES:
                kb, kt, kty = self.expr(e.slice, env)
                if kty not in VAL_TYPES:
                    raise Unsupported("subscript " + ast.unparse(e))
                t = self.tmp()
                return vb + kb + [("bind", t, "Py.getItem %s %s" % (vt, kt))], t, "val"
            raise Unsupported("subscript " + ast.unparse(e))
        if isinstance(e, ast.ListComp):
            if len(e.generators) != 1:
                raise Unsupported("nested comprehension")
            g = e.generators[0]
            if g.ifs or g.is_async or not isinstance(g.target, ast.Name) or g.target.id in env:
                raise Unsupported("comprehension " + ast.unparse(e))
            sb, st, sty = self.expr(g.iter, env)
            if sty not in VAL_TYPES:
                raise Unsupported("comprehension over " + ast.unparse(g.iter))
            items = self.tmp()
            binds = sb + [("bind", items, "Py.iterItems %s" % st)]
            env2 = dict(env)
            env2[g.target.id] = "val"
            eb, et = self.as_jval(e.elt, env2)
            r = self.tmp()
            if eb:
                body = self.wrap(eb, ".ok %s" % et)
                binds.append(("bind", r, "Py.mapM (fun %s =>\n%s) %s" % (nm(g.target.id), indent(body), items)))
            else:
                binds.append(("let", r, "%s.map (fun %s => %s)" % (items, nm(g.target.id), et)))
            return binds, r, "jlist"
        if isinstance(e, ast.List):
            binds, ts = [], []
            for x in e.elts:
                if isinstance(x, ast.Starred):
                    raise Unsupported("starred list item")
                b, t = self.as_jval(x, env)
                binds += b
                ts.append(t)
            return binds, "([%s] : List JVal)" % ", ".join(ts), "jlist"
        if isinstance(e, ast.Dict):
            if len(e.keys) == 1 and e.keys[0] is None:
                v = self.value_operand(e.values[0], env)
                t = self.tmp()
                return [("bind", t, "Py.dictUnpack %s" % v)], t, "jdict"
            raise Unsupported("dict display " + ast.unparse(e))
        return super().expr(e, env)

    def truthy(self, text, ty):
        if ty == "jlist":
            return "(!(%s).isEmpty)" % text
        return super().truthy(text, ty)

    def call(self, e, env):
        f = e.func
        src = ast.unparse(f)
        d = self.get_default(e, env)
        if d is not None:
            return [], d, "val"
        if isinstance(f, ast.Name) and f.id not in env:
            if f.id == "isinstance" and len(e.args) == 2 and not e.keywords:
                table = {"Message": "Py.isMessage", "list": "Py.isList", "dict": "Py.isDict", "str": "Py.isStr",
                         "bytes": "Py.isBytes", "datetime": "Py.isDatetime", "timedelta": "Py.isTimedelta",
                         "float": "Py.isFloat", "typing.Iterable": "Py.isIterable"}
                classes = e.args[1].elts if isinstance(e.args[1], ast.Tuple) else [e.args[1]]
                names = [ast.unparse(c) for c in classes]
                if not names or not all(n in table and n.split(".")[0] not in env for n in names):
                    raise Unsupported("isinstance(…, %s)" % ast.unparse(e.args[1]))
                b, v, ty = self.expr(e.args[0], env)
                if ty not in VAL_TYPES:
                    raise Unsupported("isinstance of " + ast.unparse(e.args[0]))
                tests = ["(%s %s)" % (table[n], v) for n in names]
                return b, tests[0] if len(tests) == 1 else "(" + " || ".join(tests) + ")", "bool"
            if f.id == "hasattr" and len(e.args) == 2 and not e.keywords and isinstance(e.args[1], ast.Constant) \
                    and e.args[1].value == "to_dict":
                b, v, ty = self.expr(e.args[0], env)
                if ty not in VAL_TYPES:
                    raise Unsupported("hasattr of " + ast.unparse(e.args[0]))
                return b, "(Py.hasToDict %s)" % v, "bool"
            if f.id == "str" and len(e.args) == 1 and not e.keywords:
                b, v, ty = self.expr(e.args[0], env)
                if ty not in VAL_TYPES:
                    raise Unsupported("str() of " + ast.unparse(e.args[0]))
                return b, "(Py.strOf %s)" % v, "jval"
            if f.id == "_dump_enum":
                if not self.mod["dump_enum_sig"]:
                    raise Unsupported("the parameter list of _dump_enum is not the expected one")
                if len(e.args) != 2 or e.keywords:
                    raise Unsupported("arguments of " + ast.unparse(e))
                cb, ct, cty = self.expr(e.args[0], env)
                if cty == "hint":
                    t = self.tmp()
                    cb, ct = cb + [("bind", t, "Py.hintClass %s" % ct)], t
                elif cty != "enumcls":
                    raise Unsupported("enum class argument " + ast.unparse(e.args[0]))
                vb, vt, vty = self.expr(e.args[1], env)
                if vty not in VAL_TYPES:
                    raise Unsupported("value argument " + ast.unparse(e.args[1]))
                return cb + vb, "(Py.dumpEnumOf %s %s)" % (ct, vt), "jval"
            if f.id == DUMP_FLOAT and self.sig.name != DUMP_FLOAT_LEAN:
                if not self.mod["dump_float_ok"]:
                    raise Unsupported("_dump_float could not be translated")
                if len(e.args) != 1 or e.keywords:
                    raise Unsupported("arguments of " + ast.unparse(e))
                vb, vt, vty = self.expr(e.args[0], env)
                if vty not in VAL_TYPES:
                    raise Unsupported("value argument " + ast.unparse(e.args[0]))
                t = self.tmp()
                return vb + [("bind", t, "%s %s" % (DUMP_FLOAT_LEAN, vt))], t, "jval"
        if src == "math.isnan" and "math" not in env and len(e.args) == 1 and not e.keywords:
            return [], "(Py.isNan %s)" % self.value_operand(e.args[0], env), "bool"
        if src in ("_Timestamp.timestamp_to_json", "_Duration.delta_to_json") and src.split(".")[0] not in env \
                and len(e.args) == 1 and not e.keywords:
            if src not in self.mod["static_methods"]:
                raise Unsupported("%s is not a static method of one positional parameter" % src)
            b, v, ty = self.expr(e.args[0], env)
            if ty not in VAL_TYPES:
                raise Unsupported("argument of " + ast.unparse(e))
            return b, "(Py.%s %s)" % ("timestampToJson" if src.startswith("_Timestamp") else "deltaToJson", v), "jval"
        if isinstance(f, ast.Attribute):
            # b64encode(<x>).decode("utf8")
            if f.attr == "decode" and len(e.args) == 1 and not e.keywords and isinstance(e.args[0], ast.Constant) \
                    and e.args[0].value == "utf8" and isinstance(f.value, ast.Call) and isinstance(f.value.func, ast.Name) \
                    and f.value.func.id == "b64encode" and "b64encode" not in env and len(f.value.args) == 1 \
                    and not f.value.keywords:
                b, v, ty = self.expr(f.value.args[0], env)
                if ty not in VAL_TYPES:
                    raise Unsupported("b64encode of " + ast.unparse(f.value.args[0]))
                return b, "(Py.b64Of %s)" % v, "jval"
            # casing(field_name).rstrip("_")
            if f.attr == "rstrip" and len(e.args) == 1 and not e.keywords and isinstance(e.args[0], ast.Constant) \
                    and e.args[0].value == "_" and isinstance(f.value, ast.Call) and isinstance(f.value.func, ast.Name) \
                    and env.get(f.value.func.id) == "casing" and len(f.value.args) == 1 and not f.value.keywords \
                    and self.is_field_name(f.value.args[0], env):
                return [], "(Py.casedName %s %s)" % (nm(f.value.func.id), nm(self.meta_var)), "jkey"
            # <x>.to_dict(casing, include_default_values)
            if f.attr == "to_dict":
                ok = (len(e.args) == 2 and not e.keywords and isinstance(e.args[0], ast.Name) and env.get(e.args[0].id) == "casing"
                      and isinstance(e.args[1], ast.Name) and e.args[1].id == self.incl_var and env.get(e.args[1].id) == "bool")
                if not ok:
                    raise Unsupported("arguments of the recursive call " + ast.unparse(e))
                b, v, ty = self.expr(f.value, env)
                if ty not in VAL_TYPES:
                    raise Unsupported("to_dict of " + ast.unparse(f.value))
                return b, "(Py.callToDict enc %s)" % v, "jval"
        return super().call(e, env)

    # -------------------------------------------------------------------------------------------------- statements
    def block(self, stmts, env, k, in_loop):
        if not stmts:
            return k(env)
        st, rest = stmts[0], stmts[1:]
        if isinstance(st, ast.Try):
            if in_loop or st.orelse or st.finalbody or len(st.handlers) != 1 or len(st.body) != 1 or "got" in self.used_try:
                raise Unsupported("try statement")
            h, a = st.handlers[0], st.body[0]
            ok = (isinstance(h.type, ast.Name) and h.type.id == "AttributeError" and h.name is None
                  and isinstance(a, ast.Assign) and len(a.targets) == 1 and isinstance(a.targets[0], ast.Name)
                  and isinstance(a.value, ast.Call) and isinstance(a.value.func, ast.Name) and a.value.func.id == "getattr"
                  and len(a.value.args) == 2 and not a.value.keywords and self.is_self(a.value.args[0], env)
                  and self.is_field_name(a.value.args[1], env) and "getattr" not in env)
            if not ok:
                raise Unsupported("try statement other than `x = getattr(self, %s)` / except AttributeError" % self.field_var)
            var = a.targets[0].id
            hb = h.body
            if not (len(hb) == 1 and isinstance(hb[0], ast.Assign) and len(hb[0].targets) == 1
                    and isinstance(hb[0].targets[0], ast.Name) and hb[0].targets[0].id == var):
                # any other handler: the scheme of extract_srcdump (the rest of the body once per outcome)
                return super().block(stmts, env, k, in_loop)
            self.used_try.add("got")
            dflt, ty = self.pure(hb[0].value, env, "val")
            env2 = dict(env)
            env2[var] = "val"
            txt = "let %s := (match got with\n  | Py.Got.attrError => %s\n  | Py.Got.value v => v)\n" % (nm(var), dflt)
            return txt + self.block(rest, env2, k, in_loop)
        if isinstance(st, ast.Return) and self.sig.ret == "jval":
            if st.value is None or in_loop:
                raise Unsupported("return statement")
            b, t = self.as_jval(st.value, env)
            return self.wrap(b, ".ok %s" % t)
        if isinstance(st, ast.Assign) and len(st.targets) == 1 and isinstance(st.targets[0], ast.Subscript):
            tgt = st.targets[0]
            if not (isinstance(tgt.value, ast.Name) and env.get(tgt.value.id) == "jdict"):
                raise Unsupported("assignment target " + ast.unparse(tgt))
            d = nm(tgt.value.id)
            kb, kt, kty = self.expr(tgt.slice, env)
            vb, vt = self.as_jval(st.value, env)
            # Python evaluates the right-hand side first, then the subscript
            if kty == "jkey":
                upd = "Py.setItem %s %s %s" % (d, kt, vt)
            elif kty in VAL_TYPES:
                upd = "Py.setItemV %s %s %s" % (d, kt, vt)
            else:
                raise Unsupported("dict key " + ast.unparse(tgt.slice))
            return self.wrap(vb + kb + [("let", d, upd)], self.block(rest, dict(env), k, in_loop))
        if isinstance(st, ast.Assign) and len(st.targets) == 1 and isinstance(st.targets[0], ast.Name) \
                and (st.targets[0].id in self.pre or st.targets[0].id in (self.casing_var, self.incl_var, self.meta_var,
                                                                          self.field_var, "self")):
            raise Unsupported("assignment to " + st.targets[0].id)
        return super().block(stmts, env, k, in_loop)

    def assigned(self, stmts, env):
        names = set(super().assigned(stmts, env))
        for s in stmts:
            for x in ast.walk(s):
                if isinstance(x, ast.Assign):
                    for t in x.targets:
                        if isinstance(t, ast.Subscript) and isinstance(t.value, ast.Name):
                            names.add(t.value.id)
        return [v for v in env if v in names]

    def loop(self, st, rest, env, k, in_loop):
        if not isinstance(st, ast.For) or st.orelse or in_loop:
            raise Unsupported("while loop / for-else / nested loop")
        env = dict(env)
        if not isinstance(st.target, ast.Name) or st.target.id in env:
            raise Unsupported("loop target " + ast.unparse(st.target))
        sb, seq, sty = self.expr(st.iter, env)
        if sty not in VAL_TYPES:
            raise Unsupported("for over " + ast.unparse(st.iter))
        items = self.tmp()
        tgt = st.target.id
        benv = dict(env)
        benv[tgt] = "val"
        body = list(st.body)
        if any(isinstance(x, (ast.Return, ast.Break, ast.Continue, ast.For, ast.While, ast.Try)) for s in body for x in ast.walk(s)):
            raise Unsupported("return / break / continue / nested loop in a loop body")
        state = [v for v in self.assigned(body, env) if v != tgt]
        if len(state) != 1:
            raise Unsupported("a loop must update exactly one variable (updates: %s)" % state)
        sv = state[0]
        used = self.used(body)
        ro = [v for v in env if v != sv and v in used and env[v] in LEAN_TY]
        self.nloop += 1
        lname = "%s.loop%d" % (self.sig.name, self.nloop)
        uses_incl = any(isinstance(x, ast.Attribute) and x.attr == "_include_default_value_for_oneof" for s in body for x in ast.walk(s))
        fixed = "S E enc" + (" " + INCL if uses_incl else "")
        fixed_sig = "(S : Schema) (E : Enums) (enc : Val → JVal)" + (" (%s : Bool)" % INCL if uses_incl else "")
        roargs = "".join(" " + nm(v) for v in ro)

        def again(env2):
            if env2.get(sv) != env[sv]:
                raise Unsupported("the loop changes the type of " + sv)
            return "%s %s%s items' %s" % (lname, fixed, roargs, nm(sv))
        btxt = self.block(body, benv, again, True)
        sig_params = "".join(" (%s : %s)" % (nm(v), lty(env[v])) for v in ro)
        d = "def %s %s%s : List Val → %s → Py.Res %s\n  | [], %s => .ok %s\n  | %s :: items', %s =>\n%s" % (
            lname, fixed_sig, sig_params, lty(env[sv]), lty(env[sv]), nm(sv), nm(sv), nm(tgt), nm(sv), indent(btxt, 4))
        self.aux.append(d)
        after = self.block(rest, env, k, in_loop)
        return self.wrap(sb + [("bind", items, "Py.iterItems %s" % seq)],
                         "(%s %s%s %s %s).bind fun %s =>\n%s" % (lname, fixed, roargs, items, nm(sv), nm(sv), after))

    def body_def(self, stmts):
        """Lean definition(s) of one iteration of the field loop of to_dict"""
        env = {self.meta_var: "meta", self.carry: "jdict", self.casing_var: "casing", self.incl_var: "bool"}

        def fall_off(env2):
            if env2.get(self.carry) != "jdict":
                raise Unsupported("the output dict is rebound")
            return self.carried()
        txt = self.block(stmts, env, fall_off, False)
        d = ("def %s (S : Schema) (E : Enums) (enc : Val → JVal) (%s : KeyCase) (%s : Bool) (%s : FieldD) (got : Py.Got) "
             "(%s : Bool) (%s : Py.JDict) : Py.Res Py.JDict :=\n%s") % (
            self.sig.name, nm(self.casing_var), nm(self.incl_var), nm(self.meta_var), INCL, nm(self.carry), indent(txt))
        return "\n\n".join(self.aux + [d])

    def function_def(self, fn):
        """Lean definition of a whole function of one value parameter returning a JSON-ready object"""
        a = fn.args
        if len(a.args) != 1 or a.defaults or a.vararg or a.kwarg or a.posonlyargs or a.kwonlyargs:
            raise Unsupported("parameters of " + fn.name)
        p = a.args[0].arg
        env = {p: "val"}

        def fall_off(env2):
            raise Unsupported("control reaches the end of " + fn.name)
        txt = self.block(list(fn.body), env, fall_off, False)
        d = "def %s (%s : Val) : Py.Res JVal :=\n%s" % (self.sig.name, nm(p), indent(txt))
        return "\n\n".join(self.aux + [d])


# ------------------------------------------------------------------------------------------------ what is translated
def module_facts(tree, src):
    strings = {}
    for n in tree.body:
        if isinstance(n, ast.Assign) and len(n.targets) == 1 and isinstance(n.targets[0], ast.Name) \
                and isinstance(n.value, ast.Constant) and type(n.value.value) is str:
            name = n.targets[0].id
            strings[name] = None if name in strings else n.value.value     # assigned twice: not a constant
    strings = {k: v for k, v in strings.items() if v is not None}
    # DATETIME_ZERO = datetime_default_gen(), which returns the aware epoch
    dz = [n for n in tree.body if isinstance(n, ast.Assign) and ast.unparse(n.targets[0]) == "DATETIME_ZERO"]
    gen = [n for n in tree.body if isinstance(n, ast.FunctionDef) and n.name == "datetime_default_gen"]
    datetime_zero = (len(dz) == 1 and ast.unparse(dz[0]) == DATETIME_ZERO_SRC[0] and len(gen) == 1
                     and len(gen[0].body) == 1 and ast.unparse(gen[0].body[0]) == DATETIME_ZERO_SRC[1])
    de = [n for n in tree.body if isinstance(n, ast.FunctionDef) and n.name == "_dump_enum"]
    dump_enum_sig = False
    if len(de) == 1:
        a = de[0].args
        dump_enum_sig = ([x.arg for x in a.args] == DUMP_ENUM_PARAMS and not a.defaults and not a.vararg and not a.kwarg
                         and not a.posonlyargs and not a.kwonlyargs)
    static_methods = set()
    for c in tree.body:
        if isinstance(c, ast.ClassDef):
            for m in c.body:
                if isinstance(m, ast.FunctionDef) and len(m.args.args) == 1 and not m.args.vararg and not m.args.kwarg \
                        and all(d is not None for d in m.args.kw_defaults) and [ast.unparse(d) for d in m.decorator_list] == ["staticmethod"]:
                    static_methods.add("%s.%s" % (c.name, m.name))
    return {"strings": strings, "datetime_zero": datetime_zero, "dump_enum_sig": dump_enum_sig,
            "static_methods": static_methods, "dump_float_ok": False}


def strip_doc(body):
    if body and isinstance(body[0], ast.Expr) and isinstance(body[0].value, ast.Constant) and isinstance(body[0].value.value, str):
        return body[1:]
    return body


def translate(path=SRC):
    src = open(path).read()
    tree = ast.parse(src)
    consts, ptypes = {}, {}
    for n in tree.body:
        if isinstance(n, ast.Assign) and len(n.targets) == 1 and isinstance(n.targets[0], ast.Name) and isinstance(n.value, ast.Constant):
            if type(n.value.value) is int:
                consts[n.targets[0].id] = n.value.value
            elif type(n.value.value) is str and n.targets[0].id.startswith("TYPE_") and n.value.value in PTYPE_CTOR:
                ptypes[n.targets[0].id] = PTYPE_CTOR[n.value.value]
    mod = module_facts(tree, src)
    out = []
    # ---- _dump_float, a whole function
    fns = [n for n in tree.body if isinstance(n, ast.FunctionDef) and n.name == DUMP_FLOAT]
    if len(fns) != 1:
        raise Unsupported("%s found %d times" % (DUMP_FLOAT, len(fns)))
    fn = fns[0]
    fn_body = ast.FunctionDef(name=fn.name, args=fn.args, body=strip_doc(list(fn.body)), decorator_list=[], lineno=fn.lineno)
    tr = TrJson(Sig(DUMP_FLOAT_LEAN, [], "jval", None), consts, ptypes, None, None, None, mod)
    out.append("/- %s  (src/betterproto/__init__.py, line %d) -/\n%s" % (DUMP_FLOAT, fn.lineno, tr.function_def(fn_body)))
    mod["dump_float_ok"] = True
    # ---- Message.to_dict: what surrounds the field loop
    fn = find_method(tree, "Message", "to_dict")
    lp, field_var, meta_var = field_loop(fn)
    a = fn.args
    params = [x.arg for x in a.args]
    if len(params) != 3 or params[0] != "self" or a.vararg or a.kwarg or a.kwonlyargs or a.posonlyargs:
        raise Unsupported("parameters of Message.to_dict")
    casing_var, incl_var = params[1], params[2]
    body = strip_doc(list(fn.body))
    if body[-1] is lp or not (isinstance(body[-1], ast.Return) and isinstance(body[-1].value, ast.Name)) or body[-2] is not lp:
        raise Unsupported("Message.to_dict does not end in the field loop followed by `return <variable>`")
    carry = body[-1].value.id
    pre, seen_carry = {}, False
    for s in body[:-2]:
        if isinstance(s, ast.AnnAssign) and s.value is not None:
            tgt, val = s.target, s.value
        elif isinstance(s, ast.Assign) and len(s.targets) == 1:
            tgt, val = s.targets[0], s.value
        else:
            raise Unsupported("statement before the field loop of to_dict: " + ast.unparse(s))
        if not isinstance(tgt, ast.Name) or tgt.id in pre or tgt.id in params or (tgt.id == carry and seen_carry):
            raise Unsupported("statement before the field loop of to_dict: " + ast.unparse(s))
        v = ast.unparse(val)
        if tgt.id == carry and v == "{}":
            seen_carry = True
        elif v == "self._type_hints()":
            pre[tgt.id] = "fieldtypes"
        elif v == "self._betterproto.default_gen":
            pre[tgt.id] = "defaultgen"
        else:
            raise Unsupported("statement before the field loop of to_dict: " + ast.unparse(s))
    if not seen_carry:
        raise Unsupported("to_dict: `%s` is not initialised to {} before the field loop" % carry)
    if len({carry, casing_var, incl_var, field_var, meta_var, "self"} | set(pre)) != 6 + len(pre):
        raise Unsupported("to_dict: name clash between parameters, loop targets and locals")
    tr = TrJson(Sig("to_dict_field", [], "none", None), consts, ptypes, field_var, meta_var, carry, mod,
                casing_var=casing_var, incl_var=incl_var, pre=pre)
    out.append("/- body of the field loop of Message.to_dict  (src/betterproto/__init__.py, line %d) -/\n%s" % (
        lp.lineno, tr.body_def(list(lp.body))))
    return out


HEADER = """import BpProofs.PyPreludeJson
import BpModel.Gen.WireTables
/- GENERATED by harness/extract_srcjson.py from the Python AST of src/betterproto/__init__.py -- do not edit.
   `to_dict_field` is the statement-by-statement translation of ONE ITERATION of the field loop of Message.to_dict
   (`got` = outcome of getattr(self, field_name), `inclDefaultForOneof` = result of
   self._include_default_value_for_oneof(...), `enc` = <sub-message>.to_dict(casing, include_default_values), the
   loop-carried output dict is returned); `_dump_float` is the translation of the function of that name. -/
set_option linter.unusedVariables false
namespace Bp.Src
open Bp

"""


def render(path=SRC):
    try:
        defs = translate(path)
        return HEADER + "\n\n".join(defs) + "\n\nend Bp.Src\n", None
    except Unsupported as e:
        msg = "the source translator does not support the current source: %s" % e
        return HEADER + "/- TRANSLATION FAILED: %s -/\n\nend Bp.Src\n" % msg, msg
    except (OSError, SyntaxError) as e:
        msg = "the source translator could not read the source: %r" % (e,)
        return HEADER + "/- TRANSLATION FAILED: %s -/\n\nend Bp.Src\n" % msg, msg


def main(write_if_changed, gen_dir):
    text, err = render()
    target = os.path.join(gen_dir, "..", "..", "BpProofs", "Gen", "SrcJson.lean")
    changed = write_if_changed(os.path.normpath(target), text)
    if err:
        print("extract_srcjson: " + err)
    return ["SrcJson.lean"] if changed else []


if __name__ == "__main__":
    t, e = render()
    print(t)
    if e:
        print("ERROR:", e)
