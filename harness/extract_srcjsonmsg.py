"""SOURCE TRANSLATOR, the WHOLE METHODS of the JSON / dict entry points (properties C04 / C05): Python AST of

    Message.to_dict, Message._from_dict_init, Message.from_dict (class form and instance form),
    Message.to_json, Message.from_json, Message._include_default_value_for_oneof

of /repo/src/betterproto/__init__.py -> lean/BpProofs/Gen/SrcJsonMsg.lean.

Same scheme as extract_srcmsg.py.  What extract_srcjson.py and extract_srcfromdict.py translate — the BODY of the field
loop of to_dict (`Src.to_dict_field`), the BODY of the key loop of _from_dict_init (`Src.from_dict_key`) and the bodies
of the two forms of from_dict given the outcome of `_from_dict_init` (`Src.from_dict_cls`, `Src.from_dict_inst`) — is
not translated again: a loop STATEMENT becomes a structural recursion over the items that calls the translated body
(this translator checks that both of those succeed on the current source and that it is the very loop they took the body
from).  Everything around the loops is translated here, statement by statement, over lean/BpProofs/PyPreludeJsonMsg.lean
(+ PyPreludeJson / PyPreludeFromDict).  lean/BpProofs/SrcTieJsonMsg.lean proves the translated methods equal to the
model's `toDict`, `fromDictC`, `fromDictI` and the JSON-text paths; Props/C04SrcMsg.lean, Props/C05SrcMsg.lean state the
properties of the source functions only.

Lean interface:
  writer side   Src.json_to_dict (S) (E) (rec : KeyCase → Bool → Val → JVal) (fs : List FieldD) (self : MState) casing incl
                Src.json_to_json … (indent) (include_default_values) (casing)
                rec c i x = `x.to_dict(c, i)` of a nested Message as the loop body calls it
  reader side   Src.json_from_dict_init / json_from_dict_cls (S) (E) (dec : Nat → JVal → R Val) (c : Nat) (value : JVal)
                Src.json_from_dict_inst / json_from_json … (self : Val) (value)
                dec c' j = `<Cls c'>.from_dict(j)` of a nested class
  THE KNOT      Src.value_to_dict S E depth casing incl (v : Val), Src.class_from_dict S E depth c j, …: `rec` / `dec` are
                the functions themselves one nesting level down (`depth` bounds the nesting, `.diverge` at 0); emitted
                from a fixed template below.

Subset (anything else raises Unsupported -> generated file without definitions -> the proofs do not build):
  to_dict:         parameters (self, <casing>: Casing = Casing.CAMEL, <incl>: bool = False); `<out> = {}` (annotated or
                   not); `<x> = self._type_hints()`, `<x> = self._betterproto.default_gen` (no code: only the loop body
                   uses them); the field loop; `return <out>`.
  _from_dict_init: classmethod (cls, <mapping>); `<kw> = {}`; `for <k>, <v> in <mapping>.items():` the key loop;
                   `return <kw>`.
  from_dict:       the two forms extract_srcfromdict.py translates, whose one call `<cls|self>._from_dict_init(<value>)`
                   takes the parameter.
  to_json:         parameters (self, indent=None, include_default_values=False, casing=Casing.CAMEL) in any order;
                   `return json.dumps(self.to_dict(<args>), indent=<indent>)` — the arguments of to_dict positional or by
                   keyword, each the parameter of that name or absent (= its default); NO other option of json.dumps.
  from_json:       (self, <value>); `return self.from_dict(json.loads(<value>))`.
"""
import ast
import os

from extract_src import SRC, Unsupported, indent, nm
import extract_srcjson
import extract_srcfromdict
import extract_srcmsg
from extract_srcdump import find_method, field_loop
from extract_srcfromdict import strip_doc, is_init_call, from_dict_forms

RESERVED = {"S", "E", "rec", "dec", "fs", "c", "enc", "items'", "self", "cls"}


def names_ok(*names):
    if len(set(names)) != len(names) or any(n in RESERVED for n in names):
        raise Unsupported("variable names %r (clash, or reserved by the translation)" % (names,))


def plain_args(fn, n):
    a = fn.args
    if a.vararg or a.kwarg or a.kwonlyargs or a.posonlyargs or len(a.args) != n:
        raise Unsupported("parameters of Message.%s" % fn.name)
    defaults = [None] * (len(a.args) - len(a.defaults)) + [ast.unparse(d) for d in a.defaults]
    return [x.arg for x in a.args], defaults


# ------------------------------------------------------------------------------------------------ _include_default_value_for_oneof
def include_default(tree):
    txt = extract_srcmsg.include_default(tree)
    return txt.replace("def msg_include_default", "def json_include_default").replace("Py.Msg.groupCurrentGet", "Py.JsonMsg.groupCurrentGet")


# ------------------------------------------------------------------------------------------------ to_dict
def to_dict(tree):
    fn = find_method(tree, "Message", "to_dict")
    if fn.decorator_list:
        raise Unsupported("decorators of Message.to_dict")
    params, defaults = plain_args(fn, 3)
    if params[0] != "self" or defaults[1:] != ["Casing.CAMEL", "False"]:
        raise Unsupported("parameters / defaults of Message.to_dict: %r %r" % (params, defaults))
    casing, incl = params[1], params[2]
    lp, field_var, meta_var = field_loop(fn)
    body = strip_doc(list(fn.body))
    lines, carry, seen_loop, returned = [], None, False, False
    for st in body:
        if returned:
            raise Unsupported("statement after the return of to_dict")
        if st is lp:
            if carry is None or seen_loop:
                raise Unsupported("the field loop of to_dict before `<out> = {}`")
            seen_loop = True
            names_ok(casing, incl, carry, field_var, meta_var)
            o = nm(carry)
            lines.append("(json_to_dict.loop1 S E (rec %s %s) %s %s self (Py.JsonMsg.metaItems fs) %s).bind fun %s =>" % (
                nm(casing), nm(incl), nm(casing), nm(incl), o, o))
            continue
        if isinstance(st, ast.Return):
            if not (seen_loop and isinstance(st.value, ast.Name) and st.value.id == carry):
                raise Unsupported("return of to_dict: " + ast.unparse(st))
            lines.append(".ok (Py.objJ %s)" % nm(carry))
            returned = True
            continue
        if isinstance(st, ast.AnnAssign) and st.value is not None:
            tgt, val = st.target, st.value
        elif isinstance(st, ast.Assign) and len(st.targets) == 1:
            tgt, val = st.targets[0], st.value
        else:
            raise Unsupported("statement of to_dict: " + ast.unparse(st).split("\n")[0])
        if not isinstance(tgt, ast.Name) or seen_loop:
            raise Unsupported("statement of to_dict: " + ast.unparse(st))
        v = ast.unparse(val)
        if v == "{}" and carry is None:
            carry = tgt.id
            lines.append("let %s := ([] : Py.JDict)" % nm(carry))
        elif v in ("self._type_hints()", "self._betterproto.default_gen") and tgt.id != carry:
            pass                     # only the loop body uses it (extract_srcjson.py checks the binding)
        else:
            raise Unsupported("statement of to_dict: " + ast.unparse(st))
    if not returned:
        raise Unsupported("to_dict does not return")
    o, fv, mv, cs, ic = nm(carry), nm(field_var), nm(meta_var), nm(casing), nm(incl)
    loop = ("def json_to_dict.loop1 (S : Schema) (E : Enums) (enc : Val → JVal) (%s : KeyCase) (%s : Bool) (self : MState) :\n"
            "    List (Nat × FieldD) → Py.JDict → Py.Res Py.JDict\n"
            "  | [], %s => .ok %s\n"
            "  | (%s, %s) :: items', %s =>\n"
            "    (to_dict_field S E enc %s %s %s (Py.JsonMsg.getattrOf S self %s %s) (json_include_default self %s %s) %s).bind fun %s =>\n"
            "    json_to_dict.loop1 S E enc %s %s self items' %s" % (cs, ic, o, o, fv, mv, o, cs, ic, mv, fv, mv, fv, mv, o, o, cs, ic, o))
    d = ("def json_to_dict (S : Schema) (E : Enums) (rec : KeyCase → Bool → Val → JVal) (fs : List FieldD) (self : MState) "
         "(%s : KeyCase) (%s : Bool) : Py.Res JVal :=\n%s" % (cs, ic, indent("\n".join(lines))))
    return "/- Message.to_dict  (src/betterproto/__init__.py, line %d) -/\n%s\n\n%s" % (fn.lineno, loop, d), (casing, incl)


# ------------------------------------------------------------------------------------------------ _from_dict_init, from_dict
def from_dict_init(tree):
    fn = find_method(tree, "Message", "_from_dict_init")
    if [ast.unparse(d) for d in fn.decorator_list] != ["classmethod"]:
        raise Unsupported("decorators of Message._from_dict_init")
    params, defaults = plain_args(fn, 2)
    if params[0] != "cls" or defaults[1] is not None:
        raise Unsupported("parameters of Message._from_dict_init")
    mapping = params[1]
    body = strip_doc(list(fn.body))
    lines, carry, seen_loop, returned, loop = [], None, False, False, None
    for st in body:
        if returned:
            raise Unsupported("statement after the return of _from_dict_init")
        if isinstance(st, ast.For):
            ok = (carry is not None and not seen_loop and not st.orelse and ast.unparse(st.iter) == "%s.items()" % mapping
                  and isinstance(st.target, ast.Tuple) and len(st.target.elts) == 2
                  and all(isinstance(x, ast.Name) for x in st.target.elts))
            if not ok:
                raise Unsupported("the key loop of _from_dict_init: " + ast.unparse(st).split("\n")[0])
            seen_loop = True
            k, v = st.target.elts[0].id, st.target.elts[1].id
            names_ok(mapping, carry, k, v)
            kw = nm(carry)
            lines.append("(Py.JsonMsg.mappingItems %s).bind fun t1 =>" % nm(mapping))
            lines.append("(json_from_dict_init.loop1 S E dec c t1 %s).bind fun %s =>" % (kw, kw))
            loop = ("def json_from_dict_init.loop1 (S : Schema) (E : Enums) (dec : Nat → JVal → R Val) (c : Nat) :\n"
                    "    List (JKey × JVal) → Py.Kwargs → Py.Res Py.Kwargs\n"
                    "  | [], %s => .ok %s\n"
                    "  | (%s, %s) :: items', %s =>\n"
                    "    (from_dict_key S E c dec %s %s %s).bind fun %s =>\n"
                    "    json_from_dict_init.loop1 S E dec c items' %s" % (kw, kw, nm(k), nm(v), kw, nm(k), nm(v), kw, kw, kw))
            continue
        if isinstance(st, ast.Return):
            if not (seen_loop and isinstance(st.value, ast.Name) and st.value.id == carry):
                raise Unsupported("return of _from_dict_init: " + ast.unparse(st))
            lines.append(".ok %s" % nm(carry))
            returned = True
            continue
        if isinstance(st, ast.AnnAssign) and st.value is not None:
            tgt, val = st.target, st.value
        elif isinstance(st, ast.Assign) and len(st.targets) == 1:
            tgt, val = st.targets[0], st.value
        else:
            raise Unsupported("statement of _from_dict_init: " + ast.unparse(st).split("\n")[0])
        if not (isinstance(tgt, ast.Name) and ast.unparse(val) == "{}" and carry is None and not seen_loop):
            raise Unsupported("statement of _from_dict_init: " + ast.unparse(st))
        carry = tgt.id
        lines.append("let %s := ([] : Py.Kwargs)" % nm(carry))
    if not returned:
        raise Unsupported("_from_dict_init does not return")
    d = ("def json_from_dict_init (S : Schema) (E : Enums) (dec : Nat → JVal → R Val) (c : Nat) (%s : JVal) : Py.Res Py.Kwargs :=\n%s"
         % (nm(mapping), indent("\n".join(lines))))
    return "/- Message._from_dict_init  (src/betterproto/__init__.py, line %d) -/\n%s\n\n%s" % (fn.lineno, loop, d)


def from_dict(tree):
    """the two forms: the translated bodies (extract_srcfromdict.py) applied to the outcome of the one call of
    `_from_dict_init`, whose argument is the parameter"""
    forms = from_dict_forms(tree)          # raises unless both have the shape extract_srcfromdict.py translates
    hits = [m for c in tree.body if isinstance(c, ast.ClassDef) and c.name == "Message"
            for m in c.body if isinstance(m, ast.FunctionDef) and m.name == "from_dict"]
    out = []
    for m in hits:
        decos = [ast.unparse(d) for d in m.decorator_list]
        params, defaults = plain_args(m, 2)
        recv, arg = params
        if defaults != [None, None]:
            raise Unsupported("defaults of Message.from_dict")
        calls = [n for n in ast.walk(m) if isinstance(n, ast.Call) and isinstance(n.func, ast.Attribute) and n.func.attr == "_from_dict_init"]
        if len(calls) != 1 or not is_init_call(calls[0], recv, arg):
            raise Unsupported("the call of _from_dict_init in from_dict")
        names_ok(arg)
        if decos == ["hybridmethod"]:
            out.append("/- Message.from_dict, class form  (src/betterproto/__init__.py, line %d) -/\n"
                       "def json_from_dict_cls (S : Schema) (E : Enums) (dec : Nat → JVal → R Val) (c : Nat) (%s : JVal) : Py.Res Val :=\n"
                       "  from_dict_cls S c (json_from_dict_init S E dec c %s)" % (m.lineno, nm(arg), nm(arg)))
        elif decos == ["from_dict.instancemethod"]:
            out.append("/- Message.from_dict, instance form  (src/betterproto/__init__.py, line %d) -/\n"
                       "def json_from_dict_inst (S : Schema) (E : Enums) (dec : Nat → JVal → R Val) (c : Nat) (self : Val) (%s : JVal) : Py.Res Val :=\n"
                       "  from_dict_inst S (json_from_dict_init S E dec c %s) self" % (m.lineno, nm(arg), nm(arg)))
        else:
            raise Unsupported("decorators of Message.from_dict: %r" % decos)
    if len(out) != 2:
        raise Unsupported("the two forms of Message.from_dict")
    return out


# ------------------------------------------------------------------------------------------------ to_json, from_json
TO_JSON_DEFAULTS = {"indent": ("None", "Py.JsonMsg.Indent", "Py.JsonMsg.Indent.none"),
                    "include_default_values": ("False", "Bool", "false"),
                    "casing": ("Casing.CAMEL", "KeyCase", "KeyCase.camel")}


def to_json(tree, to_dict_params):
    fn = find_method(tree, "Message", "to_json")
    if fn.decorator_list:
        raise Unsupported("decorators of Message.to_json")
    params, defaults = plain_args(fn, 4)
    if params[0] != "self" or sorted(params[1:]) != sorted(TO_JSON_DEFAULTS):
        raise Unsupported("parameters of Message.to_json: %r" % params)
    for p, d in zip(params[1:], defaults[1:]):
        if d != TO_JSON_DEFAULTS[p][0]:
            raise Unsupported("default of %s of Message.to_json: %s" % (p, d))
    body = strip_doc(list(fn.body))
    if len(body) != 1 or not isinstance(body[0], ast.Return) or not isinstance(body[0].value, ast.Call):
        raise Unsupported("Message.to_json is not a single `return json.dumps(…)`")
    call = body[0].value
    if ast.unparse(call.func) != "json.dumps" or len(call.args) != 1 or len(call.keywords) != 1 or call.keywords[0].arg != "indent" \
            or not (isinstance(call.keywords[0].value, ast.Name) and call.keywords[0].value.id == "indent"):
        raise Unsupported("the call of json.dumps in to_json: " + ast.unparse(call))
    inner = call.args[0]
    if not (isinstance(inner, ast.Call) and ast.unparse(inner.func) == "self.to_dict"):
        raise Unsupported("the argument of json.dumps in to_json: " + ast.unparse(inner))
    # arguments of self.to_dict: positional / keyword, each a parameter of to_json of the type of that position
    casing_p, incl_p = to_dict_params
    given = {}
    for pos, a in zip((casing_p, incl_p), inner.args):
        given[pos] = a
    if len(inner.args) > 2:
        raise Unsupported("arguments of self.to_dict in to_json")
    for k in inner.keywords:
        if k.arg not in (casing_p, incl_p) or k.arg in given:
            raise Unsupported("keyword %s of self.to_dict in to_json" % k.arg)
        given[k.arg] = k.value
    want = {casing_p: "casing", incl_p: "include_default_values"}
    lean_default = {casing_p: "KeyCase.camel", incl_p: "false"}
    args = {}
    for p in (casing_p, incl_p):
        if p not in given:
            args[p] = lean_default[p]
        elif isinstance(given[p], ast.Name) and given[p].id == want[p]:
            args[p] = nm(want[p])
        else:
            raise Unsupported("argument %s of self.to_dict in to_json: %s" % (p, ast.unparse(given[p])))
    sig = "".join(" (%s : %s)" % (nm(p), TO_JSON_DEFAULTS[p][1]) for p in params[1:])
    d = ("def json_to_json (S : Schema) (E : Enums) (rec : KeyCase → Bool → Val → JVal) (fs : List FieldD) (self : MState)%s : "
         "Py.Res Py.JsonMsg.JText :=\n"
         "  (json_to_dict S E rec fs self %s %s).bind fun t1 =>\n"
         "  (Py.JsonMsg.jsonDumps t1 indent).bind fun t2 =>\n"
         "  .ok t2" % (sig, args[casing_p], args[incl_p]))
    return "/- Message.to_json  (src/betterproto/__init__.py, line %d) -/\n%s" % (fn.lineno, d), params[1:]


def from_json(tree):
    fn = find_method(tree, "Message", "from_json")
    if fn.decorator_list:
        raise Unsupported("decorators of Message.from_json")
    params, defaults = plain_args(fn, 2)
    if params[0] != "self" or defaults[1] is not None:
        raise Unsupported("parameters of Message.from_json")
    v = params[1]
    names_ok(v)
    body = strip_doc(list(fn.body))
    if len(body) != 1 or not isinstance(body[0], ast.Return) or ast.unparse(body[0].value) != "self.from_dict(json.loads(%s))" % v:
        raise Unsupported("Message.from_json is not `return self.from_dict(json.loads(%s))`" % v)
    d = ("def json_from_json (S : Schema) (E : Enums) (dec : Nat → JVal → R Val) (c : Nat) (self : Val) (%s : Py.JsonMsg.JText) : Py.Res Val :=\n"
         "  (Py.JsonMsg.jsonLoads %s).bind fun t1 =>\n"
         "  (json_from_dict_inst S E dec c self t1).bind fun t2 =>\n"
         "  .ok t2" % (nm(v), nm(v)))
    return "/- Message.from_json  (src/betterproto/__init__.py, line %d) -/\n%s" % (fn.lineno, d)


KNOT = """/- THE RECURSIVE KNOT (fixed template): `x.to_dict(casing, include_default_values)` inside the loop body of to_dict is
   Message.to_dict of that instance, `sub_cls.from_dict(item)` inside the key loop body is the class form of
   Message.from_dict of the nested class: the methods above with `rec` / `dec` := themselves, one nesting level down
   (`depth` bounds the nesting; `.diverge` when it runs out). -/
def value_to_dict (S : Schema) (E : Enums) : Nat → KeyCase → Bool → Val → Py.Res JVal
  | 0, _, _, _ => .diverge
  | depth + 1, casing, incl, v => Py.JsonMsg.onMessage S v fun fs self =>
      json_to_dict S E (fun c i x => Py.JsonMsg.toJ x (value_to_dict S E depth c i x)) fs self casing incl

/- v.to_json(%(to_json_params)s) -/
def value_to_json (S : Schema) (E : Enums) (depth : Nat) (v : Val)%(to_json_sig)s : Py.Res Py.JsonMsg.JText :=
  Py.JsonMsg.onMessage S v fun fs self =>
    json_to_json S E (fun c i x => Py.JsonMsg.toJ x (value_to_dict S E depth c i x)) fs self%(to_json_args)s

/- <Cls c>.from_dict(value) -/
def class_from_dict (S : Schema) (E : Enums) : Nat → Nat → JVal → Py.Res Val
  | 0, _, _ => .diverge
  | depth + 1, c, value =>
      json_from_dict_cls S E (fun c' j => Py.JsonMsg.toR (class_from_dict S E depth c' j)) c value

/- v.from_dict(value), v.from_json(text) on an instance v -/
def value_from_dict (S : Schema) (E : Enums) (depth : Nat) (v : Val) (value : JVal) : Py.Res Val :=
  Py.JsonMsg.onInstance v fun c =>
    json_from_dict_inst S E (fun c' j => Py.JsonMsg.toR (class_from_dict S E depth c' j)) c v value
def value_from_json (S : Schema) (E : Enums) (depth : Nat) (v : Val) (text : Py.JsonMsg.JText) : Py.Res Val :=
  Py.JsonMsg.onInstance v fun c =>
    json_from_json S E (fun c' j => Py.JsonMsg.toR (class_from_dict S E depth c' j)) c v text"""


def translate(path=SRC):
    # the loop bodies must be translated: the methods below call them
    extract_srcjson.translate(path)
    extract_srcfromdict.translate(path)
    tree = ast.parse(open(path).read())
    out = [include_default(tree)]
    td, to_dict_params = to_dict(tree)
    out.append(td)
    out.append(from_dict_init(tree))
    out += from_dict(tree)
    tj, tj_params = to_json(tree, to_dict_params)
    out.append(tj)
    out.append(from_json(tree))
    out.append(KNOT % {
        "to_json_params": ", ".join(tj_params),
        "to_json_sig": "".join(" (%s : %s)" % (nm(p), TO_JSON_DEFAULTS[p][1]) for p in tj_params),
        "to_json_args": "".join(" " + nm(p) for p in tj_params)})
    return out


HEADER = """import BpProofs.PyPreludeJsonMsg
import BpProofs.Gen.SrcJson
import BpProofs.Gen.SrcFromDict
/- GENERATED by harness/extract_srcjsonmsg.py from the Python AST of src/betterproto/__init__.py -- do not edit.
   Each definition is the statement-by-statement translation of the named method of Message AROUND the loop bodies that
   extract_srcjson.py / extract_srcfromdict.py translate (Src.to_dict_field, Src.from_dict_key, Src.from_dict_cls,
   Src.from_dict_inst), which the loops here call (`fs` / `c` = the class of `self` / `cls`; `rec` = <nested
   Message>.to_dict; `dec` = <nested Cls>.from_dict). -/
set_option linter.unusedVariables false
namespace Bp.Src
open Bp

"""


def render(path=SRC):
    try:
        defs = translate(path)
        return HEADER + "\n\n".join(defs) + "\n\nend Bp.Src\n", None
    except Unsupported as e:
        msg = "the source translator does not support the current source: %s" % e
        return HEADER + "/- TRANSLATION FAILED: %s -/\n\nend Bp.Src\n" % msg.replace("-/", "- /"), msg
    except (OSError, SyntaxError) as e:
        msg = "the source translator could not read the source: %r" % (e,)
        return HEADER + "/- TRANSLATION FAILED: %s -/\n\nend Bp.Src\n" % msg, msg
    except (AttributeError, KeyError, IndexError, TypeError, ValueError) as e:
        # an AST shape the translator was not written for: never translate silently wrong, never crash the run
        msg = "the source translator does not support the current source: unexpected shape (%r)" % (e,)
        return HEADER + "/- TRANSLATION FAILED: %s -/\n\nend Bp.Src\n" % msg.replace("-/", "- /"), msg


def main(write_if_changed, gen_dir):
    text, err = render()
    target = os.path.join(gen_dir, "..", "..", "BpProofs", "Gen", "SrcJsonMsg.lean")
    changed = write_if_changed(os.path.normpath(target), text)
    if err:
        print("extract_srcjsonmsg: " + err)
    return ["SrcJsonMsg.lean"] if changed else []


if __name__ == "__main__":
    t, e = render()
    print(t)
    if e:
        print("ERROR:", e)
