"""SOURCE TRANSLATOR, JSON LEAF codecs (properties C15, C05, C04): Python AST of

    _parse_float, _dump_enum, _parse_enum                       (module functions)
    _Duration.delta_from_json, _Timestamp.timestamp_to_json     (static methods; the latter WHOLE)

of /repo/src/betterproto/__init__.py -> Lean definitions in lean/BpProofs/Gen/SrcLeaf.lean, over the vocabulary of
lean/BpProofs/PyPreludeLeaf.lean (+ PyPreludeTime.lean, and the translated enum methods of Gen/SrcEnum.lean, with which
`_dump_enum` / `_parse_enum` are COMPOSED).  Regenerated from the working tree on every run; anything outside the subset
below raises Unsupported -> a generated file without definitions -> every tie theorem of SrcTieLeaf.lean fails to compile.
lean/BpProofs/SrcTieLeaf.lean proves the definitions equal to the model functions; lean/BpProofs/Props/C15SrcJson.lean,
C05SrcLeaf.lean, C04SrcLeaf.lean state that.

The two methods are translated with extract_srctime.TrTime (statements, ints, integer-valued floats, f-strings) extended by:
  a `datetime` parameter translated WHOLE (type `pydt`, PyLeaf.DT): `dt.microsecond`, `dt.tzinfo is not None`,
  `dt.astimezone(timezone.utc)`, `dt.replace(microsecond=0, tzinfo=None)`, `x.isoformat()` (type `isotext`), the f-strings
  `f"{<isotext>}Z"` / `f"{<isotext>}.{digits:0Wd}Z"` as `PyLeaf.tsText <isotext> <fraction>`; a `str` parameter (type `text`),
  `value[:-1]`, `Decimal(<text>)`, `<decimal> * <positive int constant>`, `int(<decimal>)`.
The three module functions have their own shape-directed translators (below): a sequence of `if <test>: return <e>` and a
final `return <e>`; one `try: return <e> / except ValueError: return <e>`.
`timezone`, `Decimal`, `datetime`, `timedelta` must be the names imported from `datetime` / `decimal` at module level and
never rebound; the string constants INFINITY / NEG_INFINITY / NAN are read from the module (assigned once).
"""
import ast
import os

import extract_srctime as T
from extract_src import SRC, Sig, Unsupported, indent, nm

T.LEAN_TY.update({"pydt": "PyLeaf.DT", "isotext": "PyLeaf.IsoText", "tstext": "PyLeaf.TsText", "text": "PyLeaf.Text",
                  "decimal": "PyLeaf.Dec"})


class TrLeaf(T.TrTime):
    def expr(self, e, env):
        if isinstance(e, ast.Attribute) and isinstance(e.value, ast.Name) and env.get(e.value.id) == "pydt":
            if e.attr == "microsecond":
                return [], "(PyLeaf.dtMicrosecond %s)" % nm(e.value.id), "int"
            raise Unsupported("attribute .%s of a datetime" % e.attr)
        if isinstance(e, ast.Compare) and len(e.ops) == 1 and isinstance(e.ops[0], (ast.IsNot, ast.Is)):
            l, r = e.left, e.comparators[0]
            if isinstance(l, ast.Attribute) and l.attr == "tzinfo" and isinstance(l.value, ast.Name) \
                    and env.get(l.value.id) == "pydt" and isinstance(r, ast.Constant) and r.value is None:
                t = "(PyLeaf.tzinfoIsNotNone %s)" % nm(l.value.id)
                return [], t if isinstance(e.ops[0], ast.IsNot) else "(!%s)" % t, "bool"
            raise Unsupported("identity test " + ast.unparse(e))
        if isinstance(e, ast.Subscript):
            b, a, ta = self.expr(e.value, env)
            s = e.slice
            if ta == "text" and isinstance(s, ast.Slice) and s.lower is None and s.step is None and s.upper is not None \
                    and ast.unparse(s.upper) == "-1":
                return b, "(PyLeaf.dropLast1 %s)" % a, "text"
            raise Unsupported("subscript " + ast.unparse(e))
        if isinstance(e, ast.BinOp) and isinstance(e.op, ast.Mult):
            snap = self.ntmp
            b1, a, ta = self.expr(e.left, env)
            if ta == "decimal":
                b2, b, tb = self.expr(e.right, env)
                if tb != "int" or b2 or not self.const_positive(e.right):
                    raise Unsupported("Decimal * something that is not a positive int constant")
                t = self.tmp()
                return b1 + [("bind", t, "PyLeaf.decMulInt %s %s" % (a, b))], t, "decimal"
            self.ntmp = snap
        if isinstance(e, ast.JoinedStr):
            v = e.values
            if v and isinstance(v[0], ast.FormattedValue) and isinstance(v[0].value, ast.Name) \
                    and env.get(v[0].value.id) == "isotext":
                old = self.opaque
                self.opaque = {v[0].value.id}
                try:
                    b, frac, ty = self.fstring_frac(e, env)
                finally:
                    self.opaque = old
                if ty != "fractext":
                    raise Unsupported("f-string " + ast.unparse(e))
                return b, "(PyLeaf.tsText %s %s)" % (nm(v[0].value.id), frac), "tstext"
        return super().expr(e, env)

    def call(self, e, env):
        f = e.func
        if isinstance(f, ast.Attribute):
            b, a, ta = self.expr(f.value, env)
            args = [ast.unparse(x) for x in e.args] + sorted("%s=%s" % (k.arg, ast.unparse(k.value)) for k in e.keywords)
            if ta == "pydt" and f.attr == "astimezone" and args == ["timezone.utc"]:
                t = self.tmp()
                return b + [("bind", t, "PyLeaf.astimezoneUtc %s" % a)], t, "pydt"
            if ta == "pydt" and f.attr == "replace" and args == ["microsecond=0", "tzinfo=None"]:
                return b, "(PyLeaf.replaceMicro0Naive %s)" % a, "pydt"
            if ta == "pydt" and f.attr == "isoformat" and args == []:
                t = self.tmp()
                return b + [("bind", t, "PyLeaf.isoformat %s" % a)], t, "isotext"
            raise Unsupported("method call %s on %s" % (ast.unparse(e), ta))
        if isinstance(f, ast.Name) and f.id not in env and len(e.args) == 1 and not e.keywords:
            if f.id == "Decimal":
                b, a, ta = self.expr(e.args[0], env)
                if ta != "text":
                    raise Unsupported("Decimal of " + str(ta))
                t = self.tmp()
                return b + [("bind", t, "PyLeaf.decimalOf %s" % a)], t, "decimal"
            if f.id == "int":
                snap = self.ntmp
                b, a, ta = self.expr(e.args[0], env)
                if ta == "decimal":
                    return b, "(PyLeaf.intOfDec %s)" % a, "int"
                self.ntmp = snap
        return super().call(e, env)


# (lean name, class, method, result type, parameter types by annotation)
METHODS = [
    ("duration_delta_from_json", "_Duration", "delta_from_json", "timedelta", {"str": "text"}),
    ("timestamp_to_json", "_Timestamp", "timestamp_to_json", "tstext", {"datetime": "pydt"}),
]
RET_ANN = {"timedelta": "timedelta", "tstext": "str"}


def check_imports(tree):
    """`Decimal` is decimal.Decimal, `datetime` / `timedelta` / `timezone` are datetime's, none is rebound at module level"""
    want = {"Decimal": "decimal", "datetime": "datetime", "timedelta": "datetime", "timezone": "datetime"}
    got = {}
    for n in tree.body:
        if isinstance(n, ast.ImportFrom) and n.level == 0:
            for a in n.names:
                if (a.asname or a.name) in want:
                    got.setdefault(a.asname or a.name, []).append((n.module, a.name))
        for x in ast.walk(n) if not isinstance(n, (ast.FunctionDef, ast.ClassDef, ast.AsyncFunctionDef)) else []:
            if isinstance(x, ast.Name) and isinstance(x.ctx, ast.Store) and x.id in want:
                raise Unsupported("module-level assignment to %s" % x.id)
    for k, mod in want.items():
        if got.get(k) != [(mod, k)]:
            raise Unsupported("%s is not imported (once) from %s" % (k, mod))
    for n in tree.body:
        if isinstance(n, (ast.FunctionDef, ast.ClassDef)) and n.name in want:
            raise Unsupported("module-level definition of %s" % n.name)


def str_consts(tree):
    out, seen = {}, {}
    for n in ast.walk(tree):
        if isinstance(n, (ast.Assign, ast.AnnAssign, ast.AugAssign)):
            for t in (n.targets if isinstance(n, ast.Assign) else [n.target]):
                for x in ast.walk(t):
                    if isinstance(x, ast.Name):
                        seen[x.id] = seen.get(x.id, 0) + 1
    for n in tree.body:
        if isinstance(n, ast.Assign) and len(n.targets) == 1 and isinstance(n.targets[0], ast.Name) \
                and isinstance(n.value, ast.Constant) and type(n.value.value) is str and seen.get(n.targets[0].id) == 1:
            out[n.targets[0].id] = n.value.value
    return out


def translate_methods(tree):
    consts = {}
    for n in tree.body:
        if isinstance(n, ast.Assign) and len(n.targets) == 1 and isinstance(n.targets[0], ast.Name) and \
                isinstance(n.value, ast.Constant) and type(n.value.value) is int:
            consts[n.targets[0].id] = n.value.value
    out = []
    for lean, cls, name, ret, ptypes in METHODS:
        fn = T.find_method(tree, cls, name)
        if [ast.unparse(d) for d in fn.decorator_list] != ["staticmethod"]:
            raise Unsupported("%s.%s is not a staticmethod" % (cls, name))
        a = fn.args
        if a.vararg or a.kwarg or a.posonlyargs or a.defaults or a.kwonlyargs or len(a.args) != 1:
            raise Unsupported("parameter list of %s.%s" % (cls, name))
        p = a.args[0]
        ty = ptypes.get(ast.unparse(p.annotation)) if p.annotation is not None else None
        if ty is None:
            raise Unsupported("annotation of the parameter of %s.%s" % (cls, name))
        if fn.returns is None or ast.unparse(fn.returns) != RET_ANN[ret]:
            raise Unsupported("return annotation of %s.%s" % (cls, name))
        sg = Sig(lean, [(p.arg, ty, None)], ret, None)
        tr = TrLeaf(sg, consts, "staticmethod", False)
        out.append("/- %s.%s  (src/betterproto/__init__.py, line %d) -/\n%s" % (cls, name, fn.lineno, tr.method(fn, {p.arg: ty})))
    return out


# ------------------------------------------------------------------------------------------- the three module functions
def body_of(fn):
    return [s for s in fn.body if not (isinstance(s, ast.Expr) and isinstance(s.value, ast.Constant) and isinstance(s.value.value, str))]


def params_of(fn, n):
    a = fn.args
    if a.vararg or a.kwarg or a.posonlyargs or a.defaults or a.kwonlyargs or len(a.args) != n or fn.decorator_list:
        raise Unsupported("parameter list / decorators of %s" % fn.name)
    return [x.arg for x in a.args]


def find_function(tree, name):
    hits = [n for n in tree.body if isinstance(n, ast.FunctionDef) and n.name == name]
    if len(hits) != 1:
        raise Unsupported("function %s found %d times" % (name, len(hits)))
    return hits[0]


def lstr(s):
    if not all(32 <= ord(c) < 127 and c not in '"\\' for c in s):
        raise Unsupported("string constant %r" % s)
    return '"%s"' % s


class FloatTr:
    """`_parse_float(value)`: `if value == <str const>: return <float const>` … `return float(value)`"""

    def __init__(self, value, strs):
        self.value, self.strs, self.n = value, strs, 0

    def strconst(self, e):
        if isinstance(e, ast.Constant) and type(e.value) is str:
            return e.value
        if isinstance(e, ast.Name) and e.id != self.value and e.id in self.strs:
            return self.strs[e.id]
        return None

    def test(self, e):
        if isinstance(e, ast.Compare) and len(e.ops) == 1 and isinstance(e.ops[0], ast.Eq):
            for x, y in ((e.left, e.comparators[0]), (e.comparators[0], e.left)):
                c = self.strconst(y)
                if isinstance(x, ast.Name) and x.id == self.value and c is not None:
                    return "(PyLeaf.eqStrConst %s %s)" % (nm(self.value), lstr(c))
        raise Unsupported("test " + ast.unparse(e))

    def fexpr(self, e):
        """-> (binds, text) of a float-valued expression"""
        if isinstance(e, ast.UnaryOp) and isinstance(e.op, ast.USub):
            b, t = self.fexpr(e.operand)
            return b, "(PyLeaf.floatNeg %s)" % t
        if isinstance(e, ast.Call) and isinstance(e.func, ast.Name) and e.func.id == "float" and len(e.args) == 1 and not e.keywords:
            a = e.args[0]
            if isinstance(a, ast.Constant) and a.value in ("inf", "nan"):
                return [], "(PyLeaf.floatLit t %s)" % lstr(a.value)
            if isinstance(a, ast.Name) and a.id == self.value:
                self.n += 1
                return [("t%d" % self.n, "float_ %s" % nm(self.value))], "t%d" % self.n
        raise Unsupported("float expression " + ast.unparse(e))

    def block(self, stmts):
        if not stmts:
            raise Unsupported("control reaches the end of _parse_float")
        st = stmts[0]
        if isinstance(st, ast.Return) and st.value is not None:
            b, t = self.fexpr(st.value)
            out = ".ok %s" % t
            for pat, txt in reversed(b):
                out = "(%s).bind fun %s =>\n%s" % (txt, pat, out)
            return out
        if isinstance(st, ast.If):
            thn = self.block(list(st.body) + stmts[1:]) if not self.returns(st.body) else self.block(list(st.body))
            els = self.block(list(st.orelse) + stmts[1:])
            return "if %s then\n%s\nelse\n%s" % (self.test(st.test), indent(thn), indent(els))
        raise Unsupported("statement " + type(st).__name__)

    @staticmethod
    def returns(stmts):
        return bool(stmts) and isinstance(stmts[-1], ast.Return)


def translate_parse_float(tree):
    fn = find_function(tree, "_parse_float")
    (value,) = params_of(fn, 1)
    if value in ("t", "float_", "float"):
        raise Unsupported("parameter name " + value)
    if any(isinstance(x, ast.Name) and isinstance(x.ctx, ast.Store) for s in fn.body for x in ast.walk(s)):
        raise Unsupported("_parse_float binds a local")
    if any(isinstance(n, (ast.FunctionDef, ast.ClassDef)) and n.name == "float" for n in tree.body):
        raise Unsupported("module-level definition of float")
    txt = FloatTr(value, str_consts(tree)).block(body_of(fn))
    return ("/- _parse_float  (src/betterproto/__init__.py, line %d): `float_` is the builtin `float` applied to the argument, `t` the\n"
            "   proto type of the field the result is stored in (fixes the width of the bit pattern that represents a float) -/\n"
            "def parse_float (float_ : JVal → Py.Res Val) (t : PType) (%s : JVal) : Py.Res Val :=\n%s"
            % (fn.lineno, nm(value), indent(txt)))


def translate_dump_enum(tree):
    fn = find_function(tree, "_dump_enum")
    cls, value = params_of(fn, 2)
    body = body_of(fn)
    ok = len(body) == 1 and isinstance(body[0], ast.Try) and not body[0].orelse and not body[0].finalbody \
        and len(body[0].body) == 1 and isinstance(body[0].body[0], ast.Return) and len(body[0].handlers) == 1
    if not ok:
        raise Unsupported("_dump_enum is not `try: return … except …: return …`")
    h = body[0].handlers[0]
    if not (isinstance(h.type, ast.Name) and h.type.id == "ValueError" and h.name is None and len(h.body) == 1
            and isinstance(h.body[0], ast.Return)):
        raise Unsupported("handler of _dump_enum")
    r = body[0].body[0].value
    # enum_class(value).name
    if not (isinstance(r, ast.Attribute) and r.attr == "name" and isinstance(r.value, ast.Call) and not r.value.keywords
            and isinstance(r.value.func, ast.Name) and r.value.func.id == cls and len(r.value.args) == 1
            and isinstance(r.value.args[0], ast.Name) and r.value.args[0].id == value):
        raise Unsupported("_dump_enum returns " + ast.unparse(r))
    e = h.body[0].value
    # int(value)  /  value
    if isinstance(e, ast.Call) and isinstance(e.func, ast.Name) and e.func.id == "int" and len(e.args) == 1 and not e.keywords:
        e = e.args[0]
    if not (isinstance(e, ast.Name) and e.id == value):
        raise Unsupported("_dump_enum returns " + ast.unparse(h.body[0].value) + " in the handler")
    c, v = nm(cls), nm(value)
    return ("/- _dump_enum  (src/betterproto/__init__.py, line %d): `%s(%s)` is EnumType.__call__ as translated in Gen/SrcEnum.lean -/\n"
            "def dump_enum (%s : PyEnum.ClsObj ν) (%s : Int) : Py.Res (Option (JEnum ν)) :=\n"
            "  match ((EnumType.call %s %s).bind fun t1 =>\n  .ok (PyLeaf.memberNameJ t1)) with\n"
            "  | .ok ret_ => .ok ret_\n  | .diverge => .diverge\n  | .raise exc_ =>\n"
            "    if PyEnum.catches [.value] exc_ then\n      .ok (PyLeaf.numJ %s)\n    else\n      .raise exc_"
            % (fn.lineno, cls, value, c, v, c, v, v))


def translate_parse_enum(tree):
    fn = find_function(tree, "_parse_enum")
    cls, value = params_of(fn, 2)
    body = body_of(fn)
    ok = len(body) == 2 and isinstance(body[0], ast.If) and not body[0].orelse and len(body[0].body) == 1 \
        and isinstance(body[0].body[0], ast.Return) and isinstance(body[1], ast.Return)
    if not ok or ast.unparse(body[0].test) != "isinstance(%s, str)" % value:
        raise Unsupported("_parse_enum is not `if isinstance(value, str): return … ; return …`")

    def method_call(e):
        if isinstance(e, ast.Call) and isinstance(e.func, ast.Attribute) and isinstance(e.func.value, ast.Name) \
                and e.func.value.id == cls and len(e.args) == 1 and not e.keywords and isinstance(e.args[0], ast.Name) \
                and e.args[0].id == value:
            return e.func.attr
        raise Unsupported("_parse_enum returns " + ast.unparse(e))
    one = {"from_string": "(Enum.from_string %s %s).bind fun t1 =>\n    .ok (t1, %s)", "try_value": None}
    m1, m2 = method_call(body[0].body[0].value), method_call(body[1].value)
    c, v = nm(cls), nm(value)
    if m1 != "from_string":
        raise Unsupported("_parse_enum calls %s on a str" % m1)   # try_value takes a number
    if m2 != "try_value":
        raise Unsupported("_parse_enum calls %s on a number" % m2)  # from_string takes a name
    return ("/- _parse_enum  (src/betterproto/__init__.py, line %d): `isinstance(%s, str)` is the case distinction of the JSON value;\n"
            "   `from_string` / `try_value` are the methods as translated in Gen/SrcEnum.lean; the class afterwards is returned too -/\n"
            "def parse_enum (%s : PyEnum.ClsObj ν) (%s : JEnum ν) : Py.Res ((Member ν) × (PyEnum.ClsObj ν)) :=\n"
            "  match %s with\n  | .name %s =>\n    (Enum.from_string %s %s).bind fun t1 =>\n    .ok (t1, %s)\n"
            "  | .num %s =>\n    (Enum.try_value %s %s).bind fun t2 =>\n    .ok t2"
            % (fn.lineno, value, c, v, v, v, c, v, c, v, c, v))


def translate(path=SRC):
    tree = ast.parse(open(path).read())
    check_imports(tree)
    return [translate_parse_float(tree), translate_dump_enum(tree), translate_parse_enum(tree)] + translate_methods(tree)


HEADER = """import BpProofs.PyPreludeLeaf
import BpProofs.Gen.SrcEnum
/- GENERATED by harness/extract_srcleaf.py from the Python AST of src/betterproto/__init__.py -- do not edit.
   Each definition is the statement-by-statement translation of the named function / static method. -/
set_option linter.unusedVariables false
namespace Bp.Src
open Bp Bp.EnumM

variable {ν : Type} [DecidableEq ν]

"""


def render(path=SRC):
    try:
        defs = translate(path)
        return HEADER + "\n\n".join(defs) + "\n\nend Bp.Src\n", None
    except (Unsupported, T.PyRaises) as e:
        msg = "the source translator does not support the current source: %s" % e
        return HEADER + "/- TRANSLATION FAILED: %s -/\n\nend Bp.Src\n" % msg, msg
    except (OSError, SyntaxError) as e:
        msg = "the source translator could not read the source: %r" % (e,)
        return HEADER + "/- TRANSLATION FAILED: %s -/\n\nend Bp.Src\n" % msg, msg


def main(write_if_changed, gen_dir):
    text, err = render()
    target = os.path.join(gen_dir, "..", "..", "BpProofs", "Gen", "SrcLeaf.lean")
    changed = write_if_changed(os.path.normpath(target), text)
    if err:
        print("extract_srcleaf: " + err)
    return ["SrcLeaf.lean"] if changed else []


if __name__ == "__main__":
    t, e = render()
    print(t)
    if e:
        print("ERROR:", e)
