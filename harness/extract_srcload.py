"""SOURCE TRANSLATOR, per-record step of `Message.load` (properties C02 / C17 / C08 / C06 / C07): Python AST of the BODY
of the loop

    for parsed in load_fields(stream):

of `Message.load` of /repo/src/betterproto/__init__.py -> one Lean definition `Src.load_record`.

Same scheme as extract_src.py / extract_srcdump.py (whose statement translators `Tr` / `TrDyn` are subclassed here): on
every run the loop body is read from the WORKING TREE with `ast`, translated statement by statement into a pure Lean
function over the vocabulary of lean/BpProofs/PyPrelude.lean + PyPreludeDyn.lean + PyPreludeLoad.lean and written to
lean/BpProofs/Gen/SrcLoad.lean.  lean/BpProofs/SrcTieLoad.lean proves it equal to the model's `applyField` for every
schema, state and record; lean/BpProofs/Props/C02Src.lean states that as property obligations.

Interface of the translated loop body (one iteration for the record `parsed`):

    Src.load_record (fuel : Nat) (S : Schema) (rec : Loader) (d : MsgD) (self : MState) (parsed : PField) : Py.Res MState

  self     the state of the instance the loop mutates (raw slots, `_serialized_on_wire`, `_unknown_fields`,
           `_group_current`): passed in and handed back; `continue` and falling off the end both return it
  d        the class: `self._betterproto` (the alias bound before the loop, `proto_meta`, is resolved by the translator)
  rec      `<Cls>().parse(bytes)` for a nested message class, used by the intrinsic `_postprocess_single`
  fuel     bound on the iterations of the `while` loop over a packed payload (`.diverge` when it runs out)

Constructs added to those of extract_src.Tr / extract_srcdump.TrDyn (anything else raises Unsupported -> generated file
without definitions):
  a field NAME is the index of the field (`Option Nat`: None = no such field); `<meta>.field_name_by_number.get(<int>)`,
  `<meta>.meta_by_field_name[<name>]`, `<meta>.default_gen[<name>] is list`, `WIRE_TYPE_BY_PROTO_TYPE[<ptype>]`
  (all dict lookups: KeyError), where <meta> is `self._betterproto` or the alias bound to it before the loop;
  `parsed.number / wire_type / raw`; `parsed.value` (an int for wire type 0, bytes otherwise: as `bytes` only on a
  path guarded by `parsed.wire_type == <a WIRE_* constant other than WIRE_VARINT>`, else only as the `value` argument of
  `_postprocess_single`); `b[lo:hi]` on bytes; `x == TYPE_*`, `x in (TYPE_*, …)`;
  `self._unknown_fields += <bytes>`; `x = []` / `x.append(v)` on a LOCAL list; the `while` loop (fuel);
  `try: x = getattr(self, <name>) / except AttributeError: …` and `x = getattr(self, <name>)`: afterwards `x` ALIASES
  the object stored in the slot (no Lean variable: reads go through the state); `x = self._get_field_default(<name>)`;
  `setattr(self, <name>, v)` (afterwards a variable `v` aliases the slot, other aliases are forgotten);
  `x[<k>] = <v>`, `x.extend(<list>)`, `x.append(<v>)` on an alias `x` of the slot (in-place mutation = update of the
  slot; refused on anything that is not known to alias the slot); `<entry>.key`, `<entry>.value`;
  the intrinsic `self._postprocess_single(wire_type, meta, field_name, value)` whose parameter list is checked.
  `return` / `break` anywhere and `continue` inside the `while` are refused.
"""
import ast
import os

from extract_src import SRC, Sig, Tr, Unsupported, indent, nm, find_function, ann_type
from extract_srcdump import TrDyn, PTYPE_CTOR, VAL_TYPES, find_method

LEAN_TY = {"int": "Int", "bytes": "Bytes", "bool": "Bool", "val": "Val", "vlist": "Val", "vdict": "Val", "meta": "FieldD",
           "ptype": "PType", "pylist": "(List Val)", "mstate": "MState", "optname": "(Option Nat)", "pfield": "PField",
           "schema": "Schema", "loader": "Loader", "msgd": "MsgD"}
FIXED = [("S", "schema"), ("rec", "loader"), ("d", "msgd")]       # Lean-side parameters that are not Python variables
SELF = "self"
POSTPROCESS_PARAMS = ["self", "wire_type", "meta", "field_name", "value"]
DICT_TABLES = {"WIRE_TYPE_BY_PROTO_TYPE": "Py.wireTypeByProtoType"}


def lty(t):
    if isinstance(t, tuple):
        return "(" + " × ".join(lty(x) for x in t) + ")"
    if t not in LEAN_TY:
        raise Unsupported("no Lean type for " + str(t))
    return LEAN_TY[t]


class TrLoad(TrDyn):
    """translator of one iteration of the record loop"""

    def __init__(self, sig, consts, ptypes, sigs, parsed_var, field_var, meta_var, meta_aliases, postprocess_ok):
        super().__init__(sig, consts, ptypes, field_var, meta_var, SELF, set())
        self.sigs = sigs
        self.parsed_var = parsed_var
        self.meta_aliases = meta_aliases      # local names bound to `self._betterproto` before the loop
        self.postprocess_ok = postprocess_ok

    # ------------------------------------------------------------------------------------------------ expressions
    def is_self(self, e, env):
        return isinstance(e, ast.Name) and e.id == SELF and env.get(SELF) == "mstate"

    def is_field_name(self, e, env):
        return isinstance(e, ast.Name) and e.id == self.field_var and env.get(e.id) == "optname"

    def is_parsed(self, e, env):
        return isinstance(e, ast.Name) and e.id == self.parsed_var and env.get(e.id) == "pfield"

    def is_proto_meta(self, e, env):
        """`self._betterproto`, or the local alias bound to it before the loop"""
        if isinstance(e, ast.Name) and e.id in self.meta_aliases and e.id not in env:
            return True
        return isinstance(e, ast.Attribute) and e.attr == "_betterproto" and self.is_self(e.value, env)

    def name_arg(self, e, env):
        """a field-name operand -> Lean text (Option Nat)"""
        b, t, ty = self.expr(e, env)
        if b or ty != "optname":
            raise Unsupported("expected a field name, got %s of type %s" % (ast.unparse(e), ty))
        return t

    def value_operand(self, e, env):
        b, t, ty = self.expr(e, env)
        if not b and ty == "pylist":
            return "(Val.list %s)" % t
        if b or ty not in VAL_TYPES:
            raise Unsupported("expected a field value, got %s of type %s" % (ast.unparse(e), ty))
        return t

    def as_val(self, e, env):
        """an expression stored as a field value -> (binds, Lean text of a Val)"""
        b, t, ty = self.expr(e, env)
        if ty == "pylist":
            return b, "(Val.list %s)" % t
        if ty in VAL_TYPES:
            return b, t
        raise Unsupported("expected a field value, got %s of type %s" % (ast.unparse(e), ty))

    def as_raw(self, e, env):
        """the `value` argument of `_postprocess_single`: an int or a bytes object"""
        if isinstance(e, ast.Attribute) and e.attr == "value" and self.is_parsed(e.value, env) and not env.get("parsed.value"):
            return [], "(Py.parsedValue %s)" % nm(e.value.id)
        b, t, ty = self.expr(e, env)
        if ty == "int":
            return b, "(Py.Raw.int %s)" % t
        if ty == "bytes":
            return b, "(Py.Raw.bytes %s)" % t
        raise Unsupported("value argument %s of type %s" % (ast.unparse(e), ty))

    def expr(self, e, env):
        if isinstance(e, ast.Name) and env.get(e.id) == "slotref":
            # a variable that aliases the object stored in the slot of the field: read through the state
            return [], "(Py.slotVal %s %s)" % (SELF, nm(self.field_var)), "val"
        if isinstance(e, ast.List) and not e.elts:
            return [], "([] : List Val)", "pylist"
        if isinstance(e, ast.Attribute):
            if self.is_parsed(e.value, env):
                p = nm(e.value.id)
                if e.attr == "number":
                    return [], "(Py.parsedNumber %s)" % p, "int"
                if e.attr == "wire_type":
                    return [], "(Py.parsedWireType %s)" % p, "int"
                if e.attr == "raw":
                    return [], "(Py.parsedRaw %s)" % p, "bytes"
                if e.attr == "value":
                    if env.get("parsed.value") == "bytes":
                        return [], "(Py.parsedBytes %s)" % p, "bytes"
                    raise Unsupported("%s outside a path guarded by a non-varint wire type (only allowed as the value "
                                      "argument of _postprocess_single there)" % ast.unparse(e))
                raise Unsupported("attribute " + ast.unparse(e))
            if e.attr in ("key", "value") and isinstance(e.value, ast.Name) and env.get(e.value.id) in VAL_TYPES + ("pylist",):
                v = self.value_operand(e.value, env)
                t = self.tmp()
                return [("bind", t, "Py.%s %s" % ("entryKey" if e.attr == "key" else "entryValue", v))], t, "val"
        if isinstance(e, ast.Subscript):
            # <meta>.meta_by_field_name[<name>]
            if isinstance(e.value, ast.Attribute) and e.value.attr == "meta_by_field_name" and self.is_proto_meta(e.value.value, env):
                n = self.name_arg(e.slice, env)
                t = self.tmp()
                return [("bind", t, "Py.metaByFieldName d %s" % n)], t, "meta"
            # WIRE_TYPE_BY_PROTO_TYPE[<ptype>]
            if isinstance(e.value, ast.Name) and e.value.id in DICT_TABLES and e.value.id not in env:
                b, k, tk = self.expr(e.slice, env)
                if tk != "ptype":
                    raise Unsupported("key of " + ast.unparse(e))
                t = self.tmp()
                return b + [("bind", t, "%s %s" % (DICT_TABLES[e.value.id], k))], t, "int"
            # <bytes>[lo:hi]
            if isinstance(e.slice, ast.Slice):
                s = e.slice
                if s.step is not None or s.lower is None or s.upper is None:
                    raise Unsupported("slice " + ast.unparse(e))
                b0, a, ta = self.expr(e.value, env)
                b1, lo, tlo = self.expr(s.lower, env)
                b2, hi, thi = self.expr(s.upper, env)
                if ta != "bytes" or tlo != "int" or thi != "int":
                    raise Unsupported("slice %s of %s with %s, %s" % (ast.unparse(e), ta, tlo, thi))
                return b0 + b1 + b2, "(Py.slice %s %s %s)" % (a, lo, hi), "bytes"
            raise Unsupported("subscript " + ast.unparse(e))
        if isinstance(e, ast.Compare) and len(e.ops) == 1:
            op, right = e.ops[0], e.comparators[0]
            # <meta>.default_gen[<name>] is list
            if isinstance(op, (ast.Is, ast.IsNot)) and isinstance(right, ast.Name) and right.id == "list" and "list" not in env:
                left = e.left
                if isinstance(left, ast.Subscript) and isinstance(left.value, ast.Attribute) and left.value.attr == "default_gen" \
                        and self.is_proto_meta(left.value.value, env):
                    n = self.name_arg(left.slice, env)
                    t = self.tmp()
                    return [("bind", t, "Py.defaultGenIsList d %s" % n)], t if isinstance(op, ast.Is) else "(!%s)" % t, "bool"
                raise Unsupported("identity test " + ast.unparse(e))
            # <ptype> == TYPE_X, <ptype> in (TYPE_X, …)
            if isinstance(op, (ast.Eq, ast.NotEq, ast.In, ast.NotIn)):
                try:
                    b1, a, ta = self.expr(e.left, env)
                except Unsupported:
                    ta = None
                if ta == "ptype":
                    if isinstance(op, (ast.Eq, ast.NotEq)):
                        b2, b, tb = self.expr(right, env)
                        if tb != "ptype":
                            raise Unsupported("comparison " + ast.unparse(e))
                        return b1 + b2, "(%s %s %s)" % (a, "==" if isinstance(op, ast.Eq) else "!=", b), "bool"
                    if isinstance(right, ast.Tuple) and right.elts:
                        parts = []
                        for x in right.elts:
                            bx, tx, tyx = self.expr(x, env)
                            if bx or tyx != "ptype":
                                raise Unsupported("membership test " + ast.unparse(e))
                            parts.append("%s == %s" % (a, tx))
                        txt = "(" + " || ".join(parts) + ")"
                        return b1, txt if isinstance(op, ast.In) else "(!%s)" % txt, "bool"
        return super().expr(e, env)

    def truthy(self, text, ty):
        if ty == "optname":
            return "(Py.truthyName %s)" % text
        if ty == "pylist":
            return "(!(%s).isEmpty)" % text
        return super().truthy(text, ty)

    def call(self, e, env):
        f = e.func
        if isinstance(f, ast.Attribute):
            # <meta>.field_name_by_number.get(<int>)
            if f.attr == "get" and isinstance(f.value, ast.Attribute) and f.value.attr == "field_name_by_number" \
                    and self.is_proto_meta(f.value.value, env):
                if len(e.args) != 1 or e.keywords:
                    raise Unsupported("arguments of " + ast.unparse(e))
                b, t, ty = self.expr(e.args[0], env)
                if ty != "int":
                    raise Unsupported("field number of type " + str(ty))
                return b, "(Py.fieldNameByNumber d %s)" % t, "optname"
            if self.is_self(f.value, env):
                if f.attr == "_get_field_default":
                    if len(e.args) != 1 or e.keywords:
                        raise Unsupported("arguments of " + ast.unparse(e))
                    n = self.name_arg(e.args[0], env)
                    t = self.tmp()
                    return [("bind", t, "Py.getFieldDefault S d %s" % n)], t, "val"
                if f.attr == "_postprocess_single":
                    if not self.postprocess_ok:
                        raise Unsupported("the parameter list of _postprocess_single is not the expected one")
                    if len(e.args) != 4 or e.keywords:
                        raise Unsupported("arguments of " + ast.unparse(e))
                    bw, w, tw = self.expr(e.args[0], env)
                    if tw != "int":
                        raise Unsupported("wire type argument of type " + str(tw))
                    if not self.is_meta(e.args[1], env) or e.args[1].id != self.meta_var or not self.is_field_name(e.args[2], env):
                        raise Unsupported("meta / field name arguments of " + ast.unparse(e))
                    bv, v = self.as_raw(e.args[3], env)
                    t = self.tmp()
                    return bw + bv + [("bind", t, "Py.postprocessSingle S rec %s %s %s" % (w, nm(self.meta_var), v))], t, "val"
                raise Unsupported("method call " + ast.unparse(f))
        return super().call(e, env)

    # -------------------------------------------------------------------------------------------------- statements
    def carried(self):
        return ".ok %s" % SELF

    def touches_self(self, n, env):
        """does the call / statement node change the state of `self`?"""
        if isinstance(n, ast.Call):
            if isinstance(n.func, ast.Name) and n.func.id in ("setattr", "getattr", "delattr"):
                return True
            if isinstance(n.func, ast.Attribute) and isinstance(n.func.value, ast.Name) and env.get(n.func.value.id) == "slotref":
                return True
        if isinstance(n, (ast.Assign, ast.AugAssign, ast.Delete)):
            tgts = n.targets if isinstance(n, (ast.Assign, ast.Delete)) else [n.target]
            for t in tgts:
                if isinstance(t, ast.Attribute) or (isinstance(t, ast.Subscript) and not (isinstance(t.value, ast.Name) and env.get(t.value.id) == "pylist")):
                    return True
        return False

    def assigned(self, stmts, env):
        names = set(super().assigned(stmts, env))
        for st in stmts:
            for n in ast.walk(st):
                if self.touches_self(n, env):
                    names.add(SELF)
                if isinstance(n, ast.Call) and isinstance(n.func, ast.Attribute) and isinstance(n.func.value, ast.Name) \
                        and n.func.attr in ("append", "extend", "insert", "pop", "clear", "remove", "sort", "reverse"):
                    names.add(n.func.value.id)
        return [v for v in env if v in names]

    def used(self, stmts):
        return super().used(stmts) | {p for p, _ in FIXED}

    def path_bytes(self, test, env):
        """is `parsed.wire_type == <WIRE_* constant other than 0>` a conjunct of the test?"""
        conj = test.values if isinstance(test, ast.BoolOp) and isinstance(test.op, ast.And) else [test]
        for c in conj:
            if isinstance(c, ast.Compare) and len(c.ops) == 1 and isinstance(c.ops[0], ast.Eq):
                a, b = c.left, c.comparators[0]
                for x, y in ((a, b), (b, a)):
                    if isinstance(x, ast.Attribute) and x.attr == "wire_type" and self.is_parsed(x.value, env) \
                            and isinstance(y, ast.Name) and y.id not in env and self.consts.get(y.id) in (1, 2, 5):
                        return True
        return False

    def block(self, stmts, env, k, in_loop):
        if not stmts:
            return k(env)
        st, rest = stmts[0], stmts[1:]
        env = dict(env)

        def go(env2):
            return self.block(rest, env2, k, in_loop)

        if isinstance(st, (ast.Return, ast.Break)):
            raise Unsupported("return / break in the body of the record loop")
        if isinstance(st, ast.AnnAssign) and st.value is None and isinstance(st.target, ast.Name):
            return go(env)      # bare annotation `value: Any`
        # self._unknown_fields += <bytes>
        if isinstance(st, ast.AugAssign) and isinstance(st.target, ast.Attribute):
            if not (self.is_self(st.target.value, env) and st.target.attr == "_unknown_fields" and isinstance(st.op, ast.Add)):
                raise Unsupported("augmented assignment " + ast.unparse(st))
            b, t, ty = self.expr(st.value, env)
            if ty != "bytes":
                raise Unsupported("_unknown_fields += " + str(ty))
            return self.wrap(b + [("let", SELF, "Py.unknownAppend %s %s" % (SELF, t))], go(env))
        if isinstance(st, ast.Assign) and len(st.targets) == 1:
            tgt = st.targets[0]
            # x = getattr(self, <name>): x aliases the slot afterwards
            if isinstance(tgt, ast.Name) and self.is_getattr(st.value, env):
                self.check_local(tgt.id, env)
                n = self.name_arg(st.value.args[1], env)
                env[tgt.id] = "slotref"
                return "(Py.getattrSelf S d %s %s).bind fun %s =>\n%s" % (SELF, n, SELF, go(env))
            # <alias of the slot>[k] = v
            if isinstance(tgt, ast.Subscript) and isinstance(tgt.value, ast.Name) and env.get(tgt.value.id) == "slotref" \
                    and not isinstance(tgt.slice, ast.Slice):
                bv, v = self.as_val(st.value, env)      # Python evaluates the right-hand side first, then the key
                bk, kk = self.as_val(tgt.slice, env)
                return self.wrap(bv + bk, "(Py.slotSetItem %s %s %s %s).bind fun %s =>\n%s" % (
                    SELF, nm(self.field_var), kk, v, SELF, go(env)))
            if isinstance(tgt, ast.Name):
                self.check_local(tgt.id, env)
            elif isinstance(tgt, ast.Tuple):
                for x in tgt.elts:
                    if isinstance(x, ast.Name):
                        self.check_local(x.id, env)
        if isinstance(st, ast.Expr) and isinstance(st.value, ast.Call):
            c = st.value
            f = c.func
            # setattr(self, <name>, v)
            if isinstance(f, ast.Name) and f.id == "setattr" and "setattr" not in env:
                if len(c.args) != 3 or c.keywords or not self.is_self(c.args[0], env):
                    raise Unsupported("arguments of " + ast.unparse(c))
                n = self.name_arg(c.args[1], env)
                b, v = self.as_val(c.args[2], env)
                for x in [x for x, t in env.items() if t == "slotref"]:
                    del env[x]          # the slot holds another object now
                if isinstance(c.args[2], ast.Name):
                    env[c.args[2].id] = "slotref"       # … namely this one (whatever __setattr__ did to it is seen through the slot)
                return self.wrap(b, "(Py.setattrSelf S d %s %s %s).bind fun %s =>\n%s" % (SELF, n, v, SELF, go(env)))
            if isinstance(f, ast.Attribute) and isinstance(f.value, ast.Name) and f.attr in ("append", "extend"):
                ty = env.get(f.value.id)
                if len(c.args) != 1 or c.keywords:
                    raise Unsupported("arguments of " + ast.unparse(c))
                if ty == "pylist" and f.attr == "append":      # a list built locally
                    b, v = self.as_val(c.args[0], env)
                    x = nm(f.value.id)
                    return self.wrap(b + [("let", x, "%s ++ [%s]" % (x, v))], go(env))
                if ty == "slotref":                            # the list stored in the slot, mutated in place
                    if f.attr == "append":
                        b, v = self.as_val(c.args[0], env)
                        return self.wrap(b, "(Py.slotAppend %s %s %s).bind fun %s =>\n%s" % (SELF, nm(self.field_var), v, SELF, go(env)))
                    b, t, tv = self.expr(c.args[0], env)
                    if tv == "vlist":
                        t = "(Py.listItems %s)" % t
                    elif tv != "pylist":
                        raise Unsupported("extend with something that is not known to be a list: " + ast.unparse(c))
                    return self.wrap(b, "(Py.slotExtend %s %s %s).bind fun %s =>\n%s" % (SELF, nm(self.field_var), t, SELF, go(env)))
                raise Unsupported("in-place mutation of an object that is neither a local list nor known to be the one "
                                  "stored in the slot: " + ast.unparse(c))
        if isinstance(st, ast.Try):
            if in_loop or st.orelse or st.finalbody or len(st.handlers) != 1 or len(st.body) != 1:
                raise Unsupported("try statement")
            h, a = st.handlers[0], st.body[0]
            ok = (isinstance(h.type, ast.Name) and h.type.id == "AttributeError" and h.name is None
                  and isinstance(a, ast.Assign) and len(a.targets) == 1 and isinstance(a.targets[0], ast.Name)
                  and self.is_getattr(a.value, env))
            if not ok:
                raise Unsupported("try statement other than `x = getattr(self, %s)` / except AttributeError" % self.field_var)
            var = a.targets[0].id
            self.check_local(var, env)
            n = self.name_arg(a.value.args[1], env)
            handler = self.block(list(h.body) + rest, dict(env), k, in_loop)     # the state is the one before the getattr
            env2 = dict(env)
            env2[var] = "slotref"
            cont = self.block(rest, env2, k, in_loop)
            return "Py.tryExceptAttr (Py.getattrSelf S d %s %s)\n  (%s)\n  (fun %s =>\n%s)" % (
                SELF, n, indent(handler, 4).strip(), SELF, indent(cont, 4))
        if isinstance(st, ast.If) and self.path_bytes(st.test, env):
            # inside the branch `parsed.value` is a bytes object
            bc, c, tc = self.expr(st.test, env)
            env2 = dict(env)
            env2["parsed.value"] = "bytes"
            thn = self.block(list(st.body) + rest, env2, k, in_loop)
            els = self.block(list(st.orelse) + rest, env, k, in_loop)
            return self.wrap(bc, "if %s then\n%s\nelse\n%s" % (self.truthy(c, tc), indent(thn), indent(els)))
        return super().block(stmts, env, k, in_loop)

    def is_getattr(self, e, env):
        return (isinstance(e, ast.Call) and isinstance(e.func, ast.Name) and e.func.id == "getattr" and "getattr" not in env
                and len(e.args) == 2 and not e.keywords and self.is_self(e.args[0], env))

    def check_local(self, name, env):
        if name in (self.parsed_var, self.field_var, self.meta_var, SELF) and name in env:
            raise Unsupported("%s is assigned a second time" % name)
        if name in [p for p, _ in FIXED] or name in ("fuel", "parsed.value") or name in self.meta_aliases:
            raise Unsupported("local name %s" % name)

    def loop(self, st, rest, env, k, in_loop):
        """`while <pure test>:` -> a fuel-recursive auxiliary function (no return / break / continue inside)"""
        if not isinstance(st, ast.While) or st.orelse or in_loop:
            raise Unsupported("for loop / while-else / nested loop")
        env = dict(env)
        if any(t == "slotref" and v in self.used([st]) for v, t in env.items()):
            raise Unsupported("an alias of the slot used inside the while loop")
        self.nloop += 1
        lname = "%s.loop%d" % (self.sig.name, self.nloop)
        lenv = {v: t for v, t in env.items() if t != "slotref"}
        bc, c, tc = self.expr(st.test, lenv)
        if bc:
            raise Unsupported("effectful loop condition")
        if isinstance(st.test, ast.Constant):
            raise Unsupported("while <constant>")
        cond = self.truthy(c, tc)
        body = list(st.body)
        state = self.assigned(body, lenv)
        if not state:
            raise Unsupported("loop without effect")
        used = self.used(body) | {x.id for x in ast.walk(st.test) if isinstance(x, ast.Name)}
        ro = [v for v in lenv if v not in state and v in used and v != "parsed.value"]
        params = ro + state
        stup = "(" + ", ".join(nm(v) for v in state) + ")" if len(state) != 1 else nm(state[0])
        sty = "(" + " × ".join(lty(lenv[v]) for v in state) + ")" if len(state) != 1 else lty(lenv[state[0]])
        rty = "Py.Res (Py.Ctl %s %s)" % (lty(self.sig.ret), sty)

        def again(env2):
            if any(env2.get(v) != lenv[v] for v in state):
                raise Unsupported("a loop-carried variable changes its type")
            return "%s fuel %s" % (lname, " ".join(nm(v) for v in params))
        btxt = self.block(body, lenv, again, True)
        btxt = "if %s then\n%s\nelse\n  .ok (.next %s)" % (cond, indent(btxt), stup)
        sig_params = " ".join("(%s : %s)" % (nm(v), lty(lenv[v])) for v in params)
        self.aux.append("def %s (fuel : Nat) %s : %s :=\n  match fuel with\n  | 0 => .diverge\n  | fuel + 1 =>\n%s" % (
            lname, sig_params, rty, indent(btxt, 4)))
        after = self.block(rest, env, k, in_loop)
        return "(%s fuel %s).bind fun c =>\nmatch c with\n| .ret r => .ok r\n| .next %s =>\n%s" % (
            lname, " ".join(nm(v) for v in params), stup, indent(after))

    def body_def(self, stmts):
        """Lean definition(s) of one iteration"""
        self.fresh_stream = {}
        self.used_try = set()
        env = dict(FIXED)
        env[SELF] = "mstate"
        env[self.parsed_var] = "pfield"

        def fall_off(env2):
            return self.carried()
        txt = self.block(stmts, env, fall_off, False)
        d = "def %s (fuel : Nat) (S : Schema) (rec : Loader) (d : MsgD) (%s : MState) (%s : PField) : Py.Res MState :=\n%s" % (
            self.sig.name, SELF, nm(self.parsed_var), indent(txt))
        return "\n\n".join(self.aux + [d])


# ------------------------------------------------------------------------------------------------ what is translated
def record_loop(fn):
    """the `for <parsed> in load_fields(<stream>):` statement of `Message.load`, and the aliases of `self._betterproto`"""
    params = [a.arg for a in fn.args.args]
    if len(params) < 2 or params[0] != SELF:
        raise Unsupported("parameters of Message.load")
    hits = [n for n in ast.walk(fn) if isinstance(n, ast.For) and isinstance(n.iter, ast.Call)
            and isinstance(n.iter.func, ast.Name) and n.iter.func.id == "load_fields"]
    if len(hits) != 1 or hits[0] not in fn.body:
        raise Unsupported("record loop of Message.load found %d times at the top level" % len(hits))
    lp = hits[0]
    if lp.orelse or not isinstance(lp.target, ast.Name) or len(lp.iter.args) != 1 or lp.iter.keywords \
            or not (isinstance(lp.iter.args[0], ast.Name) and lp.iter.args[0].id == params[1]):
        raise Unsupported("header of the record loop: " + ast.unparse(lp).split("\n")[0])
    # what follows the loop must be `return self` (a second pass over collected values would not be seen here)
    after = fn.body[fn.body.index(lp) + 1:]
    if len(after) != 1 or not (isinstance(after[0], ast.Return) and isinstance(after[0].value, ast.Name) and after[0].value.id == SELF):
        raise Unsupported("Message.load does more than `return self` after the record loop")
    aliases = set()
    before = fn.body[:fn.body.index(lp)]
    for s in before:
        for n in ast.walk(s):
            if isinstance(n, ast.Assign) and ast.unparse(n.value) == "self._betterproto":
                if len(n.targets) != 1 or not isinstance(n.targets[0], ast.Name) or s is not n:
                    raise Unsupported("binding of self._betterproto")
                aliases.add(n.targets[0].id)
    for a in aliases:
        stores = [n for n in ast.walk(fn) if isinstance(n, ast.Name) and n.id == a and isinstance(n.ctx, (ast.Store, ast.Del))]
        if len(stores) != 1:
            raise Unsupported("%s is bound more than once" % a)
    # every local the body reads must be bound in the body (or be one of the aliases / the loop variable): a value
    # carried from one record to the next would make the iteration depend on more than (self, parsed)
    stored_in_body = {n.id for s in lp.body for n in ast.walk(s) if isinstance(n, ast.Name) and isinstance(n.ctx, ast.Store)}
    stored_before = {n.id for s in before for n in ast.walk(s) if isinstance(n, ast.Name) and isinstance(n.ctx, ast.Store)}
    stored_before |= set(params)
    for s in lp.body:
        for n in ast.walk(s):
            if isinstance(n, ast.Name) and isinstance(n.ctx, ast.Load) and n.id in stored_before \
                    and n.id not in aliases and n.id != SELF and n.id not in stored_in_body:
                raise Unsupported("the loop body reads the local %s bound before the loop" % n.id)
            if isinstance(n, ast.Name) and isinstance(n.ctx, ast.Store) and n.id in stored_before:
                raise Unsupported("the loop body rebinds %s, which is bound before the loop" % n.id)
    return lp, lp.target.id, aliases


def designated(body, attr, kind):
    """the local bound (exactly once, by a top-level statement of the body) to `<meta>.field_name_by_number.get(…)` /
    `<meta>.meta_by_field_name[…]`"""
    hits = []
    for s in body:
        if isinstance(s, ast.Assign) and len(s.targets) == 1 and isinstance(s.targets[0], ast.Name):
            v = s.value
            if kind == "get" and isinstance(v, ast.Call) and isinstance(v.func, ast.Attribute) and v.func.attr == "get" \
                    and isinstance(v.func.value, ast.Attribute) and v.func.value.attr == attr:
                hits.append(s.targets[0].id)
            if kind == "index" and isinstance(v, ast.Subscript) and isinstance(v.value, ast.Attribute) and v.value.attr == attr:
                hits.append(s.targets[0].id)
    if len(hits) != 1:
        raise Unsupported("the body binds a local to …%s %d times at its top level" % (attr, len(hits)))
    name = hits[0]
    stores = [n for s in body for n in ast.walk(s) if isinstance(n, ast.Name) and n.id == name and isinstance(n.ctx, (ast.Store, ast.Del))]
    if len(stores) != 1:
        raise Unsupported("%s is bound more than once" % name)
    return name


def translate(path=SRC):
    tree = ast.parse(open(path).read())
    consts, ptypes = {}, {}
    for n in tree.body:  # module-level integer constants and the TYPE_* strings
        if isinstance(n, ast.Assign) and len(n.targets) == 1 and isinstance(n.targets[0], ast.Name) and isinstance(n.value, ast.Constant):
            if type(n.value.value) is int:
                consts[n.targets[0].id] = n.value.value
            elif type(n.value.value) is str and n.targets[0].id.startswith("TYPE_") and n.value.value in PTYPE_CTOR:
                ptypes[n.targets[0].id] = PTYPE_CTOR[n.value.value]
    # decode_varint is translated by extract_src.py (Gen/SrcCodec.lean) and tied by SrcTie.decode_varint_eq
    sigs = {}
    dv = find_function(tree, "decode_varint")
    params = [(a.arg, ann_type(a.annotation), None) for a in dv.args.args]
    if [t for _, t, _ in params] != ["bytes", "int"] or dv.args.defaults or ann_type(dv.returns) != ("int", "int"):
        raise Unsupported("signature of decode_varint")
    sigs["decode_varint"] = Sig("decode_varint", params, ("int", "int"), None)
    pp = find_method(tree, "Message", "_postprocess_single")
    a = pp.args
    postprocess_ok = [x.arg for x in a.args] == POSTPROCESS_PARAMS and not a.defaults and not a.vararg and not a.kwarg \
        and not a.kwonlyargs and not a.posonlyargs
    fn = find_method(tree, "Message", "load")
    lp, parsed_var, aliases = record_loop(fn)
    body = list(lp.body)
    field_var = designated(body, "field_name_by_number", "get")
    meta_var = designated(body, "meta_by_field_name", "index")
    sg = Sig("load_record", [], "mstate", None)
    tr = TrLoad(sg, consts, ptypes, sigs, parsed_var, field_var, meta_var, aliases, postprocess_ok)
    return ["/- body of the record loop of Message.load  (src/betterproto/__init__.py, line %d) -/\n%s" % (lp.lineno, tr.body_def(body))]


HEADER = """import BpProofs.PyPreludeLoad
import BpProofs.Gen.SrcCodec
/- GENERATED by harness/extract_srcload.py from the Python AST of src/betterproto/__init__.py -- do not edit.
   The definition is the statement-by-statement translation of ONE ITERATION of the record loop
   `for parsed in load_fields(stream):` of Message.load (`self` = the state of the instance, handed back; `d` =
   self._betterproto; `rec` = <Cls>().parse for a nested class; a field name is the index of the field). -/
set_option linter.unusedVariables false
namespace Bp.Src
open Bp

"""


def render(path=SRC):
    try:
        defs = translate(path)
        return HEADER + "\n\n".join(defs) + "\n\nend Bp.Src\n", None
    except Unsupported as e:
        msg = "the source translator does not support the current source: %s" % e
        return HEADER + "/- TRANSLATION FAILED: %s -/\n\nend Bp.Src\n" % msg, msg
    except (OSError, SyntaxError) as e:
        msg = "the source translator could not read the source: %r" % (e,)
        return HEADER + "/- TRANSLATION FAILED: %s -/\n\nend Bp.Src\n" % msg, msg
    except (AttributeError, KeyError, IndexError, TypeError, ValueError) as e:
        # an AST shape the translator was not written for: never translate silently wrong, never crash the run
        msg = "the source translator does not support the current source: unexpected shape (%r)" % (e,)
        return HEADER + "/- TRANSLATION FAILED: %s -/\n\nend Bp.Src\n" % msg.replace("-/", "- /"), msg


def main(write_if_changed, gen_dir):
    text, err = render()
    target = os.path.join(gen_dir, "..", "..", "BpProofs", "Gen", "SrcLoad.lean")
    changed = write_if_changed(os.path.normpath(target), text)
    if err:
        print("extract_srcload: " + err)
    return ["SrcLoad.lean"] if changed else []


if __name__ == "__main__":
    t, e = render()
    print(t)
    if e:
        print("ERROR:", e)
