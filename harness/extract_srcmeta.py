"""SOURCE TRANSLATOR (C06 / C07): class metadata, construction and field defaults of `betterproto.Message`.

On every run these pieces of /repo/src/betterproto/__init__.py are read from the WORKING TREE with `ast` and translated,
statement by statement, into Lean definitions over the vocabulary of lean/BpProofs/PyPreludeMeta.lean (which fixes what
the Python operations mean: dicts as insertion-ordered association lists, a class as its list of field descriptors, type
hints as `PyMeta.Hint`, an instance under construction as `PyMeta.Inst`); output lean/BpProofs/Gen/SrcMeta.lean,
namespace `Bp.SrcMeta`:

    Message._type_hint                        type_hint cls field_name                 : Py.Res PyMeta.Hint
    Message._cls_for                          cls_for cls field index                  : Py.Res PyMeta.Hint
    Message._get_field_default_gen            get_field_default_gen cls field          : Py.Res PyMeta.DefGen
    ProtoClassMetadata._get_default_gen       ProtoClassMetadata.get_default_gen cls fields
    ProtoClassMetadata._get_cls_by_field      ProtoClassMetadata.get_cls_by_field cls fields
    ProtoClassMetadata.__init__               ProtoClassMetadata.init cls              : Py.Res PyMeta.ClassMeta
    Message._betterproto (the lazy cache)     betterproto cls cache                    : Py.Res (ClassMeta × Option ClassMeta)
    Message.__post_init__                     post_init fs self                        : Py.Res PyMeta.Inst
    Message.__setattr__                       setattr S fs self attr value             : Py.Res PyMeta.Inst
    Message._get_field_default                get_field_default mk fs self field_name  : Py.Res Val
    dataclass_field, the 18 `*_field` helpers dataclass_field …, enum_field …          : Py.Res PyMeta.DField
                                              (`dataclasses.field(default=…, metadata={"betterproto": FieldMetadata(…)})`,
                                              `None if optional else PLACEHOLDER`; parameters typed by their public names)

(`cls` / `fs`: the class, i.e. its `List FieldD`; `S`: the schema; `mk c`: `Cls()` of message class `c`.)
lean/BpProofs/SrcTieMeta*.lean prove them equal to the model's lookups (`findField`, `membersFrom`, …), `construct`,
`defaultOf`; Props/C06SrcMeta.lean and Props/C07SrcMeta.lean state that.

Supported subset — anything else raises Unsupported for the WHOLE file (no definitions, every tie theorem fails to compile):
  statements   `x = e`; `x: T = e`; `d[k] = v` on a local dict; `self.<slot> = e` in `ProtoClassMetadata.__init__` (each slot of
               `__slots__` exactly once; the result is the record); `self.__dict__["_serialized_on_wire" | "_unknown_fields" |
               "_group_current"] = e`; `self._group_current[g] = n`; `value._serialized_on_wire = True`;
               `super().__setattr__(n, v)`; `d.setdefault(k, set()).add(x)`; `d.setdefault(k)`; `warnings.filterwarnings(…)`
               (no effect on values); `with warnings.catch_warnings():` (transparent); `assert e`; `return e`;
               `if` / `elif` / `else` (branches that neither return nor raise JOIN the variables they rebind; otherwise what
               follows is duplicated into both branches); `if <Optional expr>:` / `if <Optional expr> is not None:` NARROW the
               expression (a `match`; inside the branch the same source text denotes the content);
               `for x in <list | set>` / `for a, b in d.items()` as structural recursion over the items (no break / continue /
               return inside); an empty dict `x = {}` whose type is read off where it ends up (`return x`, `self.<slot> = x`,
               `self.__dict__[…] = x`)
  expressions  names, True / False / None / int / b"" constants, PLACEHOLDER, TYPE_MAP, Union / list / dict / datetime (as
               objects compared with `is`), `type(None)`, `datetime_default_gen`; `field.name`; `meta.group / number / optional /
               proto_type / map_types`; `t.__origin__`, `t.__args__`, `t.try_value`; `x._betterproto.<slot>`; `self._group_current`;
               `FieldMetadata.get(f)`, `dataclasses.fields(cls)`, `sorted(d)`, `tuple(e for x in xs)`, `{k: v for x in xs}`,
               `hasattr(t, "__origin__" | "__args__")`, `hasattr(self, "_group_current")`, `hasattr(v, "_betterproto")`,
               `isinstance(t, _types_UnionType)`, `isinstance(v, Message)`, `issubclass(t, Enum)`, `self.__raw_get(n)`,
               calls of the translated methods (keyword `index=`; defaults read from the callee), `ProtoClassMetadata(cls)`,
               `dataclasses.make_dataclass("Entry", [("key", kt, dataclass_field(1, a)), ("value", vt, dataclass_field(2, b))],
               bases=(Message,))`, `<…>.default_gen[n]()`; `d[k]`, `<pair>[0 | 1]`, `<tuple>[i]`; `f"{n}.value"`;
               `is` / `is not` / `==` / `!=` / `>=` / `in`; `not` / `and` / `or` (short circuit kept when an operand can raise).
A local, parameter or loop variable may have any name except the few the generated text uses itself (FORBIDDEN).
"""
import ast
import os

from extract_src import Unsupported

REPO = os.environ.get("VERIF_REPO", "/repo")
SRC = os.path.join(REPO, "src", "betterproto", "__init__.py")
REL = "src/betterproto/__init__.py"

LEAN_WORDS = set("""at by do else end export extends fun from have if import in instance let match mut namespace of
open private protected section show structure then theorem universe variable where with deriving def abbrev example
inductive class axiom macro syntax notation prefix infix infixl infixr postfix set_option using calc return for
unless try catch finally nomatch nofun suffices obtain mutual partial unsafe noncomputable meta local Type Sort Prop""".split())
FORBIDDEN = {"S", "fs", "mk", "items'", "st", "cache"}

BASE_TY = {"bool": "Bool", "int": "Int", "nat": "Nat", "name": "Nat", "group": "Nat", "val": "Val", "bytes": "Bytes",
           "field": "PyMeta.Field", "meta": "FieldD", "cls": "(List FieldD)", "hint": "PyMeta.Hint", "tobj": "PyMeta.TObj",
           "defgen": "PyMeta.DefGen", "inst": "PyMeta.Inst", "classmeta": "PyMeta.ClassMeta", "clskey": "PyMeta.ClsKey",
           "clsval": "PyMeta.ClsVal", "ptype": "PType", "dfield": "PyMeta.DField", "unit": "Unit", "schema": "Schema",
           "mkfn": "(Nat → Py.Res Val)", "cache": "(Option PyMeta.ClassMeta)", "fmeta": "PyMeta.FieldMetadata"}


def lty(t):
    if isinstance(t, tuple):
        if t[0] == "opt":
            return "(Option %s)" % lty(t[1])
        if t[0] in ("list", "set"):
            return "(List %s)" % lty(t[1])
        if t[0] == "dict":
            return "(PyMeta.Dict %s %s)" % (lty(t[1]), lty(t[2]))
        if t[0] == "pair":
            return "(%s × %s)" % (lty(t[1]), lty(t[1]))
        if t[0] == "tuple":
            return "(" + " × ".join(lty(x) for x in t[1:]) + ")"
    if t not in BASE_TY:
        raise Unsupported("no Lean type for %r" % (t,))
    return BASE_TY[t]


SLOTS = {  # ProtoClassMetadata.__slots__ -> type
    "oneof_group_by_field": ("dict", "name", "group"),
    "oneof_field_by_group": ("dict", "group", ("set", "field")),
    "field_name_by_number": ("dict", "nat", "name"),
    "meta_by_field_name": ("dict", "name", "meta"),
    "sorted_field_names": ("list", "name"),
    "default_gen": ("dict", "name", "defgen"),
    "cls_by_field": ("dict", "clskey", "clsval"),
}
INST_DICT = {"_serialized_on_wire": ("PyMeta.setOnWire", "bool"), "_unknown_fields": ("PyMeta.setUnknown", "bytes"),
             "_group_current": ("PyMeta.setGroupCurrent", ("dict", "group", ("opt", "name")))}
META_ATTR = {"group": ("%s.group", ("opt", "group")), "number": ("%s.num", "nat"), "optional": ("%s.optional", "bool"),
             "proto_type": ("%s.ty", "ptype"), "map_types": ("(PyMeta.mapTypes %s)", ("opt", ("pair", "ptype"))),
             "wraps": ("%s.wraps", ("opt", "ptype"))}
GLOBAL_OBJ = {"Union": ("PyMeta.TObj.union", "tobj"), "list": ("PyMeta.TObj.list", "tobj"), "dict": ("PyMeta.TObj.dict", "tobj"),
              "datetime": ("PyMeta.TObj.datetime", "tobj"), "timedelta": ("PyMeta.TObj.timedelta", "tobj"),
              "int": ("PyMeta.TObj.int", "tobj"), "float": ("PyMeta.TObj.float", "tobj"), "str": ("PyMeta.TObj.str", "tobj"),
              "bytes": ("PyMeta.TObj.bytes", "tobj"), "bool": ("PyMeta.TObj.bool", "tobj"),
              "PLACEHOLDER": ("Val.ph", "val"), "datetime_default_gen": ("PyMeta.DefGen.datetimeDefaultGen", "defgen")}
PTYPE_CONST = {"TYPE_ENUM": ".enum", "TYPE_BOOL": ".bool", "TYPE_INT32": ".int32", "TYPE_INT64": ".int64", "TYPE_UINT32": ".uint32",
               "TYPE_UINT64": ".uint64", "TYPE_SINT32": ".sint32", "TYPE_SINT64": ".sint64", "TYPE_FLOAT": ".float",
               "TYPE_DOUBLE": ".double", "TYPE_FIXED32": ".fixed32", "TYPE_SFIXED32": ".sfixed32", "TYPE_FIXED64": ".fixed64",
               "TYPE_SFIXED64": ".sfixed64", "TYPE_STRING": ".string", "TYPE_BYTES": ".bytes", "TYPE_MESSAGE": ".message",
               "TYPE_MAP": ".map"}

# translated functions: key -> (class | None, python name, lean name, kind, [param types after self / cls], return type, fixed)
#   kind: "classmethod" (first parameter = the class), "static", "method" (first parameter self : inst), "ctor", "function"
#   fixed: leading Lean parameters that are not Python parameters
FUNCS = [
    ("type_hint", "Message", "_type_hint", "type_hint", "classmethod", ["name"], "hint", []),
    ("cls_for", "Message", "_cls_for", "cls_for", "classmethod", ["field", "int"], "hint", []),
    ("gen", "Message", "_get_field_default_gen", "get_field_default_gen", "classmethod", ["field"], "defgen", []),
    ("get_default_gen", "ProtoClassMetadata", "_get_default_gen", "ProtoClassMetadata.get_default_gen", "static",
     ["cls", ("list", "field")], SLOTS["default_gen"], []),
    ("get_cls_by_field", "ProtoClassMetadata", "_get_cls_by_field", "ProtoClassMetadata.get_cls_by_field", "static",
     ["cls", ("list", "field")], SLOTS["cls_by_field"], []),
    ("init", "ProtoClassMetadata", "__init__", "ProtoClassMetadata.init", "ctor", ["cls"], "classmeta", []),
    ("post_init", "Message", "__post_init__", "post_init", "method", [], "inst", [("fs", "cls")]),
    ("setattr", "Message", "__setattr__", "setattr", "method", ["name", "val"], "inst", [("S", "schema"), ("fs", "cls")]),
    ("get_field_default", "Message", "_get_field_default", "get_field_default", "method", ["name"], "val",
     [("mk", "mkfn"), ("fs", "cls")]),
]
# module-level functions: dataclass_field and the `*_field` helpers; parameters are typed by their (public, keyword) names
FIELD_FUNCS = ["dataclass_field", "enum_field", "bool_field", "int32_field", "int64_field", "uint32_field", "uint64_field",
               "sint32_field", "sint64_field", "float_field", "double_field", "fixed32_field", "fixed64_field", "sfixed32_field",
               "sfixed64_field", "string_field", "bytes_field", "message_field", "map_field"]
PARAM_TY = {"number": "nat", "proto_type": "ptype", "map_types": ("opt", ("pair", "ptype")), "group": ("opt", "group"),
            "wraps": ("opt", "ptype"), "optional": "bool", "key_type": "ptype", "value_type": "ptype"}
FIELDMETA_FIELDS = ["number", "proto_type", "map_types", "group", "wraps", "optional"]   # positional order of FieldMetadata(...)
CALLEE_BY_PY = {"_type_hint": "type_hint", "_cls_for": "cls_for", "_get_field_default_gen": "gen",
                "_get_default_gen": "get_default_gen", "_get_cls_by_field": "get_cls_by_field"}


def lname(x):
    if x in FORBIDDEN:
        raise Unsupported("the name `%s` is used by the generated text" % x)
    return "«%s»" % x if x in LEAN_WORDS else x


def is_name(e, ident=None):
    return isinstance(e, ast.Name) and (ident is None or e.id == ident)


def is_const(e, v):
    return isinstance(e, ast.Constant) and type(e.value) is type(v) and e.value == v


def terminates(stmts):
    """does every path through `stmts` end in return / raise"""
    if not stmts:
        return False
    s = stmts[-1]
    if isinstance(s, (ast.Return, ast.Raise)):
        return True
    if isinstance(s, ast.If):
        return terminates(s.body) and terminates(s.orelse)
    if isinstance(s, ast.With):
        return terminates(s.body)
    return False


def has_exit(stmts):
    return any(isinstance(x, (ast.Return, ast.Raise, ast.Break, ast.Continue)) for s in stmts for x in ast.walk(s))


def names_in(e):
    return {n.id for n in ast.walk(e) if isinstance(n, ast.Name)}


class NeedRes(Exception):
    """raised in pure mode when the statement needs the Res monad"""


class Fn:
    """translation of one function body"""

    def __init__(self, mod, key, fn, sig):
        self.mod, self.key, self.fn, self.sig = mod, key, fn, sig
        self.tmp = 0
        self.loops = []          # auxiliary definitions, in order
        self.nloop = 0
        self.narrow = {}         # source text -> (lean var, type)
        self.selfvar = None
        self.clsvar = None
        self.record = {}         # ctor: slot -> lean variable holding its value
        self.fixed = list(sig[7])

    # ---------------------------------------------------------------------------------------------- helpers
    def fresh(self):
        self.tmp += 1
        return "t%d" % self.tmp

    def fixed_sig(self):
        return "".join("(%s : %s) " % (n, lty(t)) for n, t in self.fixed)

    def fixed_args(self):
        return "".join(n + " " for n, _ in self.fixed)

    def cls_term(self, env):
        """the class of `self` / the `cls` parameter, as a Lean term"""
        if self.clsvar is not None and env.get(self.clsvar) == "cls":
            return lname(self.clsvar)
        if any(n == "fs" for n, _ in self.fixed):
            return "fs"
        raise Unsupported("no class in scope in " + self.key)

    def coerce(self, term, ty, want, what):
        if ty == want:
            return term
        if ty == "none" and isinstance(want, tuple) and want[0] == "opt":
            return "Option.none"
        if ty == "none" and want == "val":
            return "Val.none"
        if isinstance(want, tuple) and want[0] == "opt" and ty == want[1]:
            return "(some %s)" % term
        if (ty, want) == ("name", "clskey"):
            return "(PyMeta.ClsKey.name %s)" % term
        if (ty, want) == ("hint", "clsval"):
            return "(PyMeta.ClsVal.hint %s)" % term
        if (ty, want) == ("tobj", "hint"):
            return "(PyMeta.Hint.obj %s)" % term
        if (ty, want) == ("hint", "defgen"):
            return "(PyMeta.DefGen.callable %s)" % term
        if (ty, want) == ("tobj", "defgen"):
            return "(PyMeta.DefGen.callable (PyMeta.Hint.obj %s))" % term
        if (ty, want) == ("nat", "int") or (ty, want) == ("name", "nat") or (ty, want) == ("nat", "name"):
            return term if ty != "nat" or want != "int" else "((%s : Nat) : Int)" % term
        raise Unsupported("%s: a value of type %r where %r is expected" % (what, ty, want))

    def truth(self, term, ty, what):
        if ty == "bool":
            return term
        if isinstance(ty, tuple) and ty[0] == "opt":
            return "%s.isSome" % term
        if isinstance(ty, tuple) and ty[0] in ("dict", "list", "set"):
            return "(!%s.isEmpty)" % term
        raise Unsupported("truth value of %r in %s" % (ty, what))

    def wrap(self, pre, body):
        """`pre` = hoisted raising sub-expressions [(tmp, Res term)]; body = a Res term"""
        for t, r in reversed(pre):
            body = "(%s).bind fun %s => %s" % (r, t, body)
        return body

    # ---------------------------------------------------------------------------------------------- expressions
    def pure(self, e, env, pre):
        """translate `e`; raising sub-expressions are hoisted into `pre`; returns (pure term, type)"""
        term, ty, raises = self.expr(e, env, pre)
        if raises:
            t = self.fresh()
            pre.append((t, term))
            return t, ty
        return term, ty

    def res(self, e, env):
        """translate `e` to a Res term (with its own hoists inside); returns (Res term, type)"""
        pre = []
        term, ty = self.pure(e, env, pre)
        return self.wrap(pre, ".ok %s" % term), ty, bool(pre)

    def expr(self, e, env, pre):
        """returns (term, type, raises); when `raises` the term has type Py.Res"""
        src = ast.unparse(e)
        if src in self.narrow:
            v, ty = self.narrow[src]
            return v, ty, False
        if isinstance(e, ast.Constant):
            if e.value is True or e.value is False:
                return ("true" if e.value else "false"), "bool", False
            if e.value is None:
                return "Option.none", "none", False
            if type(e.value) is int:
                return ("(%d : Int)" % e.value), "int", False
            if type(e.value) is bytes and e.value == b"":
                return "([] : Bytes)", "bytes", False
            raise Unsupported("constant " + src)
        if isinstance(e, ast.Name):
            if e.id in env:
                return lname(e.id), env[e.id], False
            if e.id in GLOBAL_OBJ and e.id not in self.mod.rebound:
                t, ty = GLOBAL_OBJ[e.id]
                return t, ty, False
            if e.id in PTYPE_CONST and e.id in self.mod.ptype_consts:
                return "PType" + PTYPE_CONST[e.id], "ptype", False
            raise Unsupported("name `%s` in %s" % (e.id, self.key))
        if isinstance(e, ast.Attribute):
            return self.attribute(e, env, pre)
        if isinstance(e, ast.Call):
            return self.call(e, env, pre)
        if isinstance(e, ast.Subscript):
            return self.subscript(e, env, pre)
        if isinstance(e, ast.Compare):
            return self.compare(e, env, pre)
        if isinstance(e, ast.BoolOp):
            return self.boolop(e, env, pre)
        if isinstance(e, ast.UnaryOp) and isinstance(e.op, ast.Not):
            t, ty = self.pure(e.operand, env, pre)
            return "(!%s)" % self.truth(t, ty, src), "bool", False
        if isinstance(e, ast.IfExp):
            c, tc = self.pure(e.test, env, pre)
            pa, pb = [], []
            a, ta = self.pure(e.body, env, pa)
            b, tb = self.pure(e.orelse, env, pb)
            if pa or pb:
                raise Unsupported("conditional expression with a raising branch: " + src)
            if (ta, tb) == ("none", "val"):
                a, ta = "Val.none", "val"
            elif (ta, tb) == ("val", "none"):
                b, tb = "Val.none", "val"
            if ta == "none" and tb != "none":
                a, ta = self.coerce(a, ta, ("opt", tb) if not isinstance(tb, tuple) or tb[0] != "opt" else tb, src), None
                ta = ("opt", tb) if not isinstance(tb, tuple) or tb[0] != "opt" else tb
                b = self.coerce(b, tb, ta, src)
                tb = ta
            elif tb == "none" and ta != "none":
                tb2 = ("opt", ta) if not isinstance(ta, tuple) or ta[0] != "opt" else ta
                a = self.coerce(a, ta, tb2, src)
                b = self.coerce(b, tb, tb2, src)
                ta = tb = tb2
            if ta != tb:
                raise Unsupported("conditional expression of types %r / %r" % (ta, tb))
            return "(if %s then %s else %s)" % (self.truth(c, tc, src), a, b), ta, False
        if isinstance(e, ast.JoinedStr):
            if len(e.values) == 2 and isinstance(e.values[0], ast.FormattedValue) and e.values[0].conversion == -1 \
                    and e.values[0].format_spec is None and is_const(e.values[1], ".value"):
                n, tn = self.pure(e.values[0].value, env, pre)
                if tn != "name":
                    raise Unsupported("f-string over a " + str(tn))
                return "(PyMeta.ClsKey.dotValue %s)" % n, "clskey", False
            raise Unsupported("f-string " + src)
        if isinstance(e, ast.DictComp):
            return self.dictcomp(e, env, pre)
        if isinstance(e, ast.Tuple) and len(e.elts) == 2:
            a, ta = self.pure(e.elts[0], env, pre)
            b, tb = self.pure(e.elts[1], env, pre)
            if ta != tb or ta != "ptype":
                raise Unsupported("tuple " + src)
            return "(%s, %s)" % (a, b), ("pair", ta), False
        raise Unsupported("expression `%s` in %s" % (src, self.key))

    def betterproto_of(self, e, env):
        """e = `<x>._betterproto` for an instance / class variable x -> Res term of the metadata"""
        if isinstance(e, ast.Attribute) and e.attr == "_betterproto" and is_name(e.value) \
                and env.get(e.value.id) in ("inst", "cls"):
            if env[e.value.id] == "cls":
                c = lname(e.value.id)
            else:
                c = self.cls_term(env)
            if "init" not in self.mod.done:
                raise Unsupported("_betterproto used before ProtoClassMetadata.__init__ is translated")
            return "(ProtoClassMetadata.init %s)" % c
        return None

    def attribute(self, e, env, pre):
        src = ast.unparse(e)
        bp = self.betterproto_of(e.value, env)
        if bp is not None:
            if e.attr not in SLOTS:
                raise Unsupported("unknown metadata table " + src)
            t = self.fresh()
            pre.append((t, bp))
            return "%s.%s" % (t, e.attr), SLOTS[e.attr], False
        # value._betterproto.meta_by_field_name of a field VALUE: only its truth value
        if e.attr == "meta_by_field_name" and isinstance(e.value, ast.Attribute) and e.value.attr == "_betterproto" \
                and is_name(e.value.value) and env.get(e.value.value.id) == "val" and any(n == "S" for n, _ in self.fixed):
            return "(PyMeta.valHasFields S %s)" % lname(e.value.value.id), "bool", False
        if is_name(e.value) and e.value.id in env:
            ty = env[e.value.id]
            x = lname(e.value.id)
            if ty == "field" and e.attr == "name":
                return "(PyMeta.fieldName %s)" % x, "name", False
            if ty == "meta" and e.attr in META_ATTR:
                f, t = META_ATTR[e.attr]
                return f % x, t, False
            if ty == "hint" and e.attr == "__origin__":
                return "(PyMeta.origin %s)" % x, "tobj", True
            if ty == "hint" and e.attr == "__args__":
                return "(PyMeta.args %s)" % x, ("opt", ("list", "hint")), True
            if ty == "hint" and e.attr == "try_value":
                return "(PyMeta.getTryValue %s)" % x, "defgen", True
            if ty == "inst" and e.attr == "_group_current":
                return "(PyMeta.getGroupCurrent %s)" % x, INST_DICT["_group_current"][1], True
        raise Unsupported("attribute `%s` in %s" % (src, self.key))

    def callee(self, key, args, kwargs, env, pre, what, cls_term):
        """call of a translated function"""
        if key not in self.mod.done:
            raise Unsupported("%s is called before it is translated" % key)
        sig = self.mod.sigs[key]
        ptys, defaults, pnames = sig[5], self.mod.defaults[key], self.mod.pnames[key]
        vals = []
        for i, pt in enumerate(ptys):
            if i < len(args):
                a = args[i]
            elif pnames[i] in kwargs:
                a = kwargs.pop(pnames[i])
            elif defaults[i] is not None:
                a = defaults[i]
            else:
                raise Unsupported("missing argument %s in %s" % (pnames[i], what))
            t, ty = self.pure(a, env, pre)
            vals.append(self.coerce(t, ty, pt, what))
        if kwargs or len(args) > len(ptys):
            raise Unsupported("arguments of " + what)
        head = [cls_term] if sig[4] == "classmethod" else []
        return "(%s %s)" % (sig[3], " ".join(head + vals)), sig[6], True

    def call(self, e, env, pre):
        src = ast.unparse(e)
        f = e.func
        if any(isinstance(a, ast.Starred) for a in e.args) or any(k.arg is None for k in e.keywords):
            raise Unsupported("call " + src)
        kwargs = {k.arg: k.value for k in e.keywords}
        n = len(e.args)
        # <…>.default_gen[name]()
        if isinstance(f, ast.Subscript) and isinstance(f.value, ast.Attribute) and f.value.attr == "default_gen" and not n and not kwargs:
            g, tg = self.pure(f, env, pre)
            nme, tn = self.pure(f.slice, env, pre)
            if tg != "defgen" or tn != "name":
                raise Unsupported("call " + src)
            if not any(x == "mk" for x, _ in self.fixed):
                raise Unsupported("a default generator is called in " + self.key)
            return "(PyMeta.callFor mk (PyMeta.protoTypeOf %s %s) %s)" % (self.cls_term(env), nme, g), "val", True
        if is_name(f) and f.id not in env:
            if f.id in self.mod.done and f.id in FIELD_FUNCS:
                return self.callee(f.id, list(e.args), kwargs, env, pre, src, None)
            if f.id == "FieldMetadata" and n == len(FIELDMETA_FIELDS) and not kwargs and self.mod.fieldmeta_ok:
                vals = []
                for a, nme in zip(e.args, FIELDMETA_FIELDS):
                    t, ty = self.pure(a, env, pre)
                    vals.append(self.coerce(t, ty, PARAM_TY[nme], src))
                return "(PyMeta.FieldMetadata.mk %s)" % " ".join(vals), "fmeta", False
            if f.id == "ProtoClassMetadata" and n == 1 and not kwargs:
                c, tc = self.pure(e.args[0], env, pre)
                if tc != "cls" or "init" not in self.mod.done:
                    raise Unsupported("call " + src)
                return "(ProtoClassMetadata.init %s)" % c, "classmeta", True
            if f.id == "sorted" and n == 1 and not kwargs:
                d, td = self.pure(e.args[0], env, pre)
                if not (isinstance(td, tuple) and td[0] == "dict" and td[1] == "nat"):
                    raise Unsupported("sorted of " + str(td))
                return "(PyMeta.sortedKeys %s)" % d, ("list", "nat"), False
            if f.id == "tuple" and n == 1 and not kwargs and isinstance(e.args[0], ast.GeneratorExp):
                return self.listcomp(e.args[0], env, pre)
            if f.id == "type" and n == 1 and not kwargs and isinstance(e.args[0], ast.Constant) and e.args[0].value is None:
                return "PyMeta.TObj.noneType", "tobj", False
            if f.id == "hasattr" and n == 2 and not kwargs and isinstance(e.args[1], ast.Constant) and isinstance(e.args[1].value, str):
                x, tx = self.pure(e.args[0], env, pre)
                table = {("hint", "__origin__"): "PyMeta.hasOrigin", ("hint", "__args__"): "PyMeta.hasArgs",
                         ("inst", "_group_current"): "PyMeta.hasGroupCurrent", ("val", "_betterproto"): "PyMeta.hasBetterproto"}
                if (tx, e.args[1].value) not in table:
                    raise Unsupported("call " + src)
                return "(%s %s)" % (table[(tx, e.args[1].value)], x), "bool", False
            if f.id == "isinstance" and n == 2 and not kwargs and is_name(e.args[1]) and e.args[1].id not in env:
                x, tx = self.pure(e.args[0], env, pre)
                table = {("hint", "_types_UnionType"): "PyMeta.isUnionType", ("val", "Message"): "PyMeta.isMessage"}
                if (tx, e.args[1].id) not in table:
                    raise Unsupported("call " + src)
                return "(%s %s)" % (table[(tx, e.args[1].id)], x), "bool", False
            if f.id == "issubclass" and n == 2 and not kwargs and is_name(e.args[1], "Enum") and "Enum" not in env:
                x, tx = self.pure(e.args[0], env, pre)
                if tx != "hint":
                    raise Unsupported("call " + src)
                return "(PyMeta.issubclassEnum %s)" % x, "bool", True
            if f.id == "dataclass_field" and n == 2 and not kwargs:
                a, ta = self.pure(e.args[0], env, pre)
                b, tb = self.pure(e.args[1], env, pre)
                if ta != "int" or tb != "ptype":
                    raise Unsupported("call " + src)
                return "(PyMeta.entryField (Int.toNat %s) %s)" % (a, b), "meta", False
        if isinstance(f, ast.Attribute):
            # FieldMetadata.get(field), dataclasses.fields(cls), dataclasses.make_dataclass(...)
            if is_name(f.value, "FieldMetadata") and "FieldMetadata" not in env and f.attr == "get" and n == 1 and not kwargs:
                x, tx = self.pure(e.args[0], env, pre)
                if tx != "field":
                    raise Unsupported("call " + src)
                return "(PyMeta.fieldMetadataGet %s)" % x, "meta", False
            if is_name(f.value, "dataclasses") and "dataclasses" not in env:
                if f.attr == "field" and not n and sorted(kwargs) == ["default", "metadata"] and isinstance(kwargs["metadata"], ast.Dict) \
                        and len(kwargs["metadata"].keys) == 1 and is_const(kwargs["metadata"].keys[0], "betterproto"):
                    d, td = self.pure(kwargs["default"], env, pre)
                    m, tm = self.pure(kwargs["metadata"].values[0], env, pre)
                    if tm != "fmeta":
                        raise Unsupported("call " + src)
                    return "(PyMeta.DField.mk %s %s)" % (self.coerce(d, td, "val", src), m), "dfield", False
                if f.attr == "fields" and n == 1 and not kwargs:
                    x, tx = self.pure(e.args[0], env, pre)
                    if tx != "cls":
                        raise Unsupported("call " + src)
                    return "(PyMeta.dataclassFields %s)" % x, ("list", "field"), False
                if f.attr == "make_dataclass":
                    return self.make_entry(e, env, pre)
            # self.__raw_get(name)
            if is_name(f.value) and env.get(f.value.id) == "inst" and f.attr in ("__raw_get", "_Message__raw_get") and n == 1 and not kwargs:
                x, tx = self.pure(e.args[0], env, pre)
                if tx != "name":
                    raise Unsupported("call " + src)
                return "(PyMeta.rawGet %s %s)" % (lname(f.value.id), x), "val", False
            # cls._type_hints()
            if is_name(f.value) and env.get(f.value.id) == "cls" and f.attr == "_type_hints" and not n and not kwargs:
                return "(PyMeta.typeHints %s)" % lname(f.value.id), ("dict", "name", "hint"), False
            # translated methods: cls.<m>(…) / self.<m>(…) (static methods of ProtoClassMetadata through `self`)
            if is_name(f.value) and f.attr in CALLEE_BY_PY:
                key = CALLEE_BY_PY[f.attr]
                sig = self.mod.sigs[key]
                recv = env.get(f.value.id)
                if sig[4] == "classmethod" and recv == "cls":
                    return self.callee(key, list(e.args), kwargs, env, pre, src, lname(f.value.id))
                if sig[4] == "static" and f.value.id == self.selfvar and self.key == "init":
                    return self.callee(key, list(e.args), kwargs, env, pre, src, None)
            # d.items() is handled by the for statement only
        raise Unsupported("call `%s` in %s" % (src, self.key))

    def make_entry(self, e, env, pre):
        src = ast.unparse(e)
        ok = len(e.args) == 2 and is_const(e.args[0], "Entry") and isinstance(e.args[1], ast.List) and len(e.args[1].elts) == 2 \
            and len(e.keywords) == 1 and e.keywords[0].arg == "bases" and ast.unparse(e.keywords[0].value) == "(Message,)"
        if not ok:
            raise Unsupported("call " + src)
        parts = []
        for el, nme in zip(e.args[1].elts, ("key", "value")):
            if not (isinstance(el, ast.Tuple) and len(el.elts) == 3 and is_const(el.elts[0], nme)):
                raise Unsupported("call " + src)
            h, th = self.pure(el.elts[1], env, pre)
            m, tm = self.pure(el.elts[2], env, pre)
            if th != "hint" or tm != "meta":
                raise Unsupported("call " + src)
            parts += [h, m]
        return "(PyMeta.ClsVal.entry %s)" % " ".join(parts), "clsval", False

    def comp_parts(self, e, env):
        if len(e.generators) != 1 or e.generators[0].ifs or e.generators[0].is_async or not is_name(e.generators[0].target):
            raise Unsupported("comprehension " + ast.unparse(e))
        g = e.generators[0]
        return g.target.id, g.iter

    def listcomp(self, e, env, pre):
        x, it = self.comp_parts(e, env)
        xs, txs = self.pure(it, env, pre)
        if not (isinstance(txs, tuple) and txs[0] == "list"):
            raise Unsupported("comprehension over " + str(txs))
        env2 = dict(env)
        env2[x] = txs[1]
        r, tr, raises = self.res(e.elt, env2)
        if raises:
            return "(PyMeta.mapRes (fun %s => %s) %s)" % (lname(x), r, xs), ("list", tr), True
        p = []
        t, tr = self.pure(e.elt, env2, p)
        return "(%s.map fun %s => %s)" % (xs, lname(x), t), ("list", tr), False

    def dictcomp(self, e, env, pre):
        x, it = self.comp_parts(e, env)
        xs, txs = self.pure(it, env, pre)
        if not (isinstance(txs, tuple) and txs[0] == "list"):
            raise Unsupported("comprehension over " + str(txs))
        env2 = dict(env)
        env2[x] = txs[1]
        pk = []
        k, tk = self.pure(e.key, env2, pk)
        if pk:
            raise Unsupported("raising key in " + ast.unparse(e))
        v, tv, _ = self.res(e.value, env2)
        return "(PyMeta.dictComp (fun %s => %s) (fun %s => %s) %s [])" % (lname(x), k, lname(x), v, xs), ("dict", tk, tv), True

    def subscript(self, e, env, pre):
        src = ast.unparse(e)
        c, tc = self.pure(e.value, env, pre)
        if isinstance(tc, tuple) and tc[0] == "dict":
            k, tk = self.pure(e.slice, env, pre)
            return "(PyEnum.dictItem %s %s)" % (c, self.coerce(k, tk, tc[1], src)), tc[2], True
        if isinstance(tc, tuple) and tc[0] == "opt" and isinstance(tc[1], tuple) and tc[1][0] in ("pair", "list"):
            t = self.fresh()
            pre.append((t, "(PyMeta.unwrapOpt %s)" % c))
            c, tc = t, tc[1]
        if isinstance(tc, tuple) and tc[0] == "pair":
            i, ti = self.pure(e.slice, env, pre)
            if ti != "int":
                raise Unsupported("subscript " + src)
            return "(PyMeta.pairItem %s %s)" % (c, i), tc[1], True
        if isinstance(tc, tuple) and tc[0] == "list":
            i, ti = self.pure(e.slice, env, pre)
            if ti != "int":
                raise Unsupported("subscript " + src)
            return "(PyMeta.tupleItem %s %s)" % (c, i), tc[1], True
        raise Unsupported("subscript `%s` (%r) in %s" % (src, tc, self.key))

    def compare(self, e, env, pre):
        src = ast.unparse(e)
        if len(e.ops) != 1:
            raise Unsupported("comparison " + src)
        op = e.ops[0]
        a, ta = self.pure(e.left, env, pre)
        rhs = e.comparators[0]
        if isinstance(op, (ast.Is, ast.IsNot)):
            neg = "!" if isinstance(op, ast.IsNot) else ""
            if isinstance(rhs, ast.Constant) and rhs.value is None:
                if ta == "val":
                    return "(%sPyMeta.isNone %s)" % (neg, a), "bool", False
                if isinstance(ta, tuple) and ta[0] == "opt":
                    return ("%s.isSome" % a if neg else "%s.isNone" % a), "bool", False
                raise Unsupported("comparison " + src)
            b, tb = self.pure(rhs, env, pre)
            if ta == "val" and is_name(rhs, "PLACEHOLDER") and "PLACEHOLDER" not in env:
                return "(%sPyMeta.isPlaceholder %s)" % (neg, a), "bool", False
            if (ta, tb) == ("tobj", "tobj"):
                return "(%sPyMeta.tobjIs %s %s)" % (neg, a, b), "bool", False
            if (ta, tb) == ("hint", "tobj"):
                return "(%sPyMeta.hintIs %s %s)" % (neg, a, b), "bool", False
            raise Unsupported("comparison " + src)
        if isinstance(op, (ast.Eq, ast.NotEq)):
            neg = isinstance(op, ast.NotEq)
            if ta == "name" and isinstance(rhs, ast.Constant) and isinstance(rhs.value, str):
                if rhs.value not in INST_DICT:
                    raise Unsupported("comparison " + src)
                t = "(PyMeta.nameNeStr %s %s)" % (a, '"%s"' % rhs.value)
                return (t if neg else "(!%s)" % t), "bool", False
            b, tb = self.pure(rhs, env, pre)
            if ta == tb and ta in ("name", "ptype", "int", "nat", "group"):
                return "(%s %s %s)" % (a, "!=" if neg else "==", b), "bool", False
            raise Unsupported("comparison " + src)
        if isinstance(op, ast.GtE):
            b, tb = self.pure(rhs, env, pre)
            if (ta, tb) == ("int", "int"):
                return "(decide (%s ≥ %s))" % (a, b), "bool", False
            raise Unsupported("comparison " + src)
        if isinstance(op, (ast.In, ast.NotIn)):
            b, tb = self.pure(rhs, env, pre)
            if isinstance(tb, tuple) and tb[0] == "dict":
                t = "(PyEnum.keyIn %s %s)" % (self.coerce(a, ta, tb[1], src), b)
                return (t if isinstance(op, ast.In) else "(!%s)" % t), "bool", False
        raise Unsupported("comparison `%s` in %s" % (src, self.key))

    def boolop(self, e, env, pre):
        src = ast.unparse(e)
        is_and = isinstance(e.op, ast.And)
        parts = []
        for i, v in enumerate(e.values):
            p = pre if i == 0 else []           # the first operand is always evaluated
            t, ty = self.pure(v, env, p)
            parts.append((p if i else [], self.truth(t, ty, src)))
        if not any(p for p, _ in parts):
            return "(" + (" && " if is_and else " || ").join(t for _, t in parts) + ")", "bool", False
        # short circuit: build a Res Bool from the right
        acc = None
        for p, t in reversed(parts):
            if acc is None:
                acc = self.wrap(p, ".ok %s" % t)
            else:
                step = ("if %s then %s else .ok false" if is_and else "if %s then .ok true else %s") % (t, acc)
                acc = self.wrap(p, step)
        return "(%s : Py.Res Bool)" % acc, "bool", True

    # ---------------------------------------------------------------------------------------------- statements
    def ind(self, d):
        return "  " * d

    def emit_pre(self, pre, depth, pure_mode):
        if pre and pure_mode:
            raise NeedRes()
        return "".join("%s(%s).bind fun %s =>\n" % (self.ind(depth), r, t) for t, r in pre)

    def assigned(self, stmts, env):
        """variables of `env` that `stmts` rebind (assignment, store into / mutation of a container or object)"""
        out = []

        def add(x):
            if x in env and x not in out:
                out.append(x)
        for s in stmts:
            for n in ast.walk(s):
                if isinstance(n, ast.Name) and isinstance(n.ctx, ast.Store):
                    add(n.id)
                elif isinstance(n, (ast.Subscript, ast.Attribute)) and isinstance(n.ctx, ast.Store):
                    b = n.value
                    while isinstance(b, (ast.Subscript, ast.Attribute)):
                        b = b.value
                    if is_name(b):
                        add(b.id)
                elif isinstance(n, ast.Call) and isinstance(n.func, ast.Attribute) and n.func.attr in ("setdefault", "add", "__setattr__"):
                    b = n.func.value
                    while isinstance(b, (ast.Subscript, ast.Attribute, ast.Call)):
                        b = b.func.value if isinstance(b, ast.Call) and isinstance(b.func, ast.Attribute) else getattr(b, "value", None)
                        if b is None:
                            break
                    if is_name(b):
                        add(b.id)
                    elif isinstance(b, ast.Call) and is_name(b.func, "super") and self.selfvar:
                        add(self.selfvar)
                elif isinstance(n, ast.Call) and is_name(n.func, "super") and self.selfvar:
                    add(self.selfvar)
        return out

    def tuple_of(self, vs):
        return lname(vs[0]) if len(vs) == 1 else "(" + ", ".join(lname(v) for v in vs) + ")"

    def tuple_ty(self, vs, env):
        return lty(env[vs[0]]) if len(vs) == 1 else "(" + " × ".join(lty(env[v]) for v in vs) + ")"

    def kill_narrow(self, name):
        for k in [k for k in self.narrow if name in names_in(ast.parse(k, mode="eval"))]:
            del self.narrow[k]

    def dict_local_type(self, x):
        """type of the local `x = {}`: where it ends up"""
        for n in ast.walk(self.fn):
            if isinstance(n, ast.Return) and is_name(n.value, x):
                return self.sig[6]
            if isinstance(n, ast.Assign) and len(n.targets) == 1 and is_name(n.value, x):
                t = n.targets[0]
                if isinstance(t, ast.Attribute) and is_name(t.value, self.selfvar) and self.key == "init" and t.attr in SLOTS:
                    return SLOTS[t.attr]
                if isinstance(t, ast.Subscript) and isinstance(t.value, ast.Attribute) and t.value.attr == "__dict__" \
                        and is_name(t.value.value, self.selfvar) and isinstance(t.slice, ast.Constant) and t.slice.value in INST_DICT:
                    return INST_DICT[t.slice.value][1]
        raise Unsupported("cannot type the empty dict `%s` in %s" % (x, self.key))

    def block(self, stmts, env, depth, fall, pure_mode=False):
        """Lean text of `stmts` followed by `fall(env)`; in pure mode the text is a plain term (raises NeedRes otherwise)"""
        I = self.ind(depth)
        if not stmts:
            return I + fall(env) + "\n"
        s, rest = stmts[0], list(stmts[1:])
        if isinstance(s, ast.Pass) or (isinstance(s, ast.Expr) and isinstance(s.value, ast.Constant) and isinstance(s.value.value, str)):
            return self.block(rest, env, depth, fall, pure_mode)
        if isinstance(s, ast.AnnAssign) and s.value is not None and s.simple:
            s = ast.copy_location(ast.Assign(targets=[s.target], value=s.value), s)
        if isinstance(s, ast.Assign):
            return self.assign(s, rest, env, depth, fall, pure_mode)
        if isinstance(s, ast.Expr):
            return self.exprstmt(s.value, rest, env, depth, fall, pure_mode)
        if isinstance(s, ast.Return):
            if pure_mode:
                raise NeedRes()
            if s.value is None:
                raise Unsupported("bare return in " + self.key)
            pre = []
            t, ty = self.pure(s.value, env, pre)
            t = self.coerce(t, ty, self.sig[6], "return of " + self.key)
            return self.emit_pre(pre, depth, False) + I + ".ok %s\n" % t
        if isinstance(s, ast.Assert):
            if pure_mode:
                raise NeedRes()
            pre = []
            t, ty = self.pure(s.test, env, pre)
            return self.emit_pre(pre, depth, False) + I + "if %s then\n" % self.truth(t, ty, "assert") \
                + self.block(rest, env, depth + 1, fall) + I + "else\n" + I + "  .raise .assertion\n"
        if isinstance(s, ast.With):
            ok = len(s.items) == 1 and s.items[0].optional_vars is None and ast.unparse(s.items[0].context_expr) == "warnings.catch_warnings()"
            if not ok or "warnings" in env:
                raise Unsupported("with statement in " + self.key)
            return self.block(list(s.body) + rest, env, depth, fall, pure_mode)
        if isinstance(s, ast.If):
            return self.ifstmt(s, rest, env, depth, fall, pure_mode)
        if isinstance(s, ast.For):
            if pure_mode:
                raise NeedRes()
            return self.forstmt(s, rest, env, depth, fall)
        raise Unsupported("statement `%s` in %s" % (ast.unparse(s).split("\n")[0], self.key))

    def assign(self, s, rest, env, depth, fall, pure_mode):
        I = self.ind(depth)
        src = ast.unparse(s)
        if len(s.targets) != 1:
            raise Unsupported("chained assignment " + src)
        tg = s.targets[0]
        pre = []
        env = dict(env)
        if is_name(tg):
            x = tg.id
            if isinstance(s.value, ast.Dict) and not s.value.keys:
                ty = self.dict_local_type(x)
                line = "let %s : %s := []\n" % (lname(x), lty(ty))
            else:
                t, ty = self.pure(s.value, env, pre)
                if ty == "none":
                    raise Unsupported("assignment of None: " + src)
                line = "let %s := %s\n" % (lname(x), t)
            self.kill_narrow(x)
            env[x] = ty
            return self.emit_pre(pre, depth, pure_mode) + I + line + self.block(rest, env, depth, fall, pure_mode)
        if isinstance(tg, ast.Attribute) and is_name(tg.value) and tg.value.id in env:
            o, to = tg.value.id, env[tg.value.id]
            if self.key == "init" and o == self.selfvar and to == "self":
                if tg.attr not in SLOTS or tg.attr in self.record:
                    raise Unsupported("assignment " + src)
                t, ty = self.pure(s.value, env, pre)
                t = self.coerce(t, ty, SLOTS[tg.attr], src)
                self.record[tg.attr] = "self_" + tg.attr
                return self.emit_pre(pre, depth, pure_mode) + I + "let self_%s : %s := %s\n" % (tg.attr, lty(SLOTS[tg.attr]), t) \
                    + self.block(rest, env, depth, fall, pure_mode)
            if to == "val" and tg.attr == "_serialized_on_wire" and is_const(s.value, True):
                return I + "let %s := PyMeta.valSetOnWire %s\n" % (lname(o), lname(o)) + self.block(rest, env, depth, fall, pure_mode)
        if isinstance(tg, ast.Subscript):
            c = tg.value
            # self.__dict__["…"] = e
            if isinstance(c, ast.Attribute) and c.attr == "__dict__" and is_name(c.value) and env.get(c.value.id) == "inst" \
                    and isinstance(tg.slice, ast.Constant) and tg.slice.value in INST_DICT:
                fnm, want = INST_DICT[tg.slice.value]
                t, ty = self.pure(s.value, env, pre)
                o = lname(c.value.id)
                return self.emit_pre(pre, depth, pure_mode) + I + "let %s := %s %s %s\n" % (o, fnm, o, self.coerce(t, ty, want, src)) \
                    + self.block(rest, env, depth, fall, pure_mode)
            # self._group_current[g] = n
            if isinstance(c, ast.Attribute) and c.attr == "_group_current" and is_name(c.value) and env.get(c.value.id) == "inst":
                g, tgp = self.pure(tg.slice, env, pre)
                v, tv = self.pure(s.value, env, pre)
                if tgp != "group" or tv != "name":
                    raise Unsupported("assignment " + src)
                o = lname(c.value.id)
                t = self.fresh()
                pre.append((t, "(PyMeta.groupCurrentSet %s %s %s)" % (o, g, v)))
                return self.emit_pre(pre, depth, pure_mode) + I + "let %s := %s\n" % (o, t) + self.block(rest, env, depth, fall, pure_mode)
            # d[k] = v on a local dict
            if is_name(c) and isinstance(env.get(c.id), tuple) and env[c.id][0] == "dict":
                td = env[c.id]
                k, tk = self.pure(tg.slice, env, pre)
                v, tv = self.pure(s.value, env, pre)
                d = lname(c.id)
                return self.emit_pre(pre, depth, pure_mode) + I + "let %s := PyEnum.dictSet %s %s %s\n" % (
                    d, d, self.coerce(k, tk, td[1], src), self.coerce(v, tv, td[2], src)) + self.block(rest, env, depth, fall, pure_mode)
        raise Unsupported("assignment `%s` in %s" % (src, self.key))

    def exprstmt(self, e, rest, env, depth, fall, pure_mode):
        I = self.ind(depth)
        src = ast.unparse(e)
        pre = []
        if isinstance(e, ast.Call) and isinstance(e.func, ast.Attribute):
            f = e.func
            # warnings.filterwarnings(...)
            if is_name(f.value, "warnings") and "warnings" not in env and f.attr == "filterwarnings":
                return self.block(rest, env, depth, fall, pure_mode)
            # d.setdefault(k, set()).add(x)
            if f.attr == "add" and len(e.args) == 1 and not e.keywords and isinstance(f.value, ast.Call) \
                    and isinstance(f.value.func, ast.Attribute) and f.value.func.attr == "setdefault" and is_name(f.value.func.value) \
                    and len(f.value.args) == 2 and ast.unparse(f.value.args[1]) == "set()" and not f.value.keywords:
                dn = f.value.func.value.id
                td = env.get(dn)
                if td != ("dict", "group", ("set", "field")):
                    raise Unsupported("statement " + src)
                k, tk = self.pure(f.value.args[0], env, pre)
                x, tx = self.pure(e.args[0], env, pre)
                if tk != "group" or tx != "field":
                    raise Unsupported("statement " + src)
                d = lname(dn)
                return self.emit_pre(pre, depth, pure_mode) + I + "let %s := PyMeta.dictSetdefaultAdd %s %s %s\n" % (d, d, k, x) \
                    + self.block(rest, env, depth, fall, pure_mode)
            # d.setdefault(k)
            if f.attr == "setdefault" and is_name(f.value) and len(e.args) == 1 and not e.keywords:
                td = env.get(f.value.id)
                if not (isinstance(td, tuple) and td[0] == "dict" and isinstance(td[2], tuple) and td[2][0] == "opt"):
                    raise Unsupported("statement " + src)
                k, tk = self.pure(e.args[0], env, pre)
                d = lname(f.value.id)
                return self.emit_pre(pre, depth, pure_mode) + I + "let %s := PyMeta.dictSetdefaultNone %s %s\n" % (d, d, self.coerce(k, tk, td[1], src)) \
                    + self.block(rest, env, depth, fall, pure_mode)
            # super().__setattr__(n, v)
            if f.attr == "__setattr__" and isinstance(f.value, ast.Call) and is_name(f.value.func, "super") and not f.value.args \
                    and len(e.args) == 2 and not e.keywords and self.selfvar and env.get(self.selfvar) == "inst":
                n, tn = self.pure(e.args[0], env, pre)
                v, tv = self.pure(e.args[1], env, pre)
                if tn != "name" or tv != "val":
                    raise Unsupported("statement " + src)
                o = lname(self.selfvar)
                return self.emit_pre(pre, depth, pure_mode) + I + "let %s := PyMeta.rawSet %s %s %s\n" % (o, o, n, v) \
                    + self.block(rest, env, depth, fall, pure_mode)
        raise Unsupported("statement `%s` in %s" % (src, self.key))

    def ifstmt(self, s, rest, env, depth, fall, pure_mode):
        I = self.ind(depth)
        pre = []
        # narrowing tests: `if <opt>:` / `if <opt> is not None:`
        test = s.test
        narrow_src = None
        if isinstance(test, ast.Compare) and len(test.ops) == 1 and isinstance(test.ops[0], ast.IsNot) \
                and isinstance(test.comparators[0], ast.Constant) and test.comparators[0].value is None:
            cand = test.left
        else:
            cand = test
        if not isinstance(cand, (ast.BoolOp, ast.Compare, ast.UnaryOp, ast.Constant)):
            p2 = []
            t, ty = self.pure(cand, env, p2)
            if isinstance(ty, tuple) and ty[0] == "opt":
                narrow_src, pre, scrut, inner = ast.unparse(cand), p2, t, ty[1]
        joinable = not has_exit(s.body) and not has_exit(s.orelse)
        if narrow_src is None:
            t, ty = self.pure(test, env, pre)
            cond = self.truth(t, ty, "if test")
            head, mid = "if %s then\n" % cond, "else\n"
        else:
            v = "n%d" % (self.tmp + 1)
            self.tmp += 1
            head, mid = "match %s with\n%s| Option.some %s =>\n" % (scrut, I, v), "| Option.none =>\n"

        def in_then(f):
            if narrow_src is None:
                return f()
            saved = dict(self.narrow)
            self.narrow[narrow_src] = (v, inner)
            try:
                return f()
            finally:
                self.narrow = saved

        if joinable:
            vs = self.assigned(list(s.body) + list(s.orelse), env)
            if not vs:
                raise Unsupported("an if statement without effect in " + self.key)
            tup = self.tuple_of(vs)
            # pure join when both branches are pure
            try:
                if pre:
                    raise NeedRes()
                a = in_then(lambda: self.block(list(s.body), env, depth + 2, lambda _e: tup, True))
                b = self.block(list(s.orelse), env, depth + 2, lambda _e: tup, True)
                hd = I + "let %s :=\n" % tup + I + "  " + head.replace("\n" + I, "\n" + I + "  ")
                md = I + "  " + mid
                text = hd + a + md + b
                for x in vs:
                    self.kill_narrow(x)
                return text + self.block(rest, env, depth, fall, pure_mode)
            except NeedRes:
                if pure_mode:
                    raise
            a = in_then(lambda: self.block(list(s.body), env, depth + 2, lambda _e: ".ok " + tup))
            b = self.block(list(s.orelse), env, depth + 2, lambda _e: ".ok " + tup)
            text = self.emit_pre(pre, depth, False) + I + "((" + head.replace("\n" + I, "\n" + I + "  ") + a + I + "  " + mid + b \
                + I + "  : Py.Res %s)).bind fun %s =>\n" % (self.tuple_ty(vs, env), tup)
            for x in vs:
                self.kill_narrow(x)
            return text + self.block(rest, env, depth, fall, False)
        if pure_mode:
            raise NeedRes()
        # a branch leaves the function: duplicate what follows
        a = in_then(lambda: self.block(list(s.body) + ([] if terminates(s.body) else rest), env, depth + 1,
                                       fall if not terminates(s.body) else (lambda _e: ".raise .assertion")))
        b = self.block(list(s.orelse) + ([] if terminates(s.orelse) else rest), env, depth + 1,
                       fall if not terminates(s.orelse) else (lambda _e: ".raise .assertion"))
        return self.emit_pre(pre, depth, False) + I + head + a + I + mid + b

    def forstmt(self, s, rest, env, depth, fall):
        I = self.ind(depth)
        src = ast.unparse(s).split("\n")[0]
        if s.orelse or has_exit(s.body):
            raise Unsupported("loop with else / break / continue / return: " + src)
        pre = []
        env2 = dict(env)
        it = s.iter
        if isinstance(it, ast.Call) and isinstance(it.func, ast.Attribute) and it.func.attr == "items" and not it.args and not it.keywords:
            d, td = self.pure(it.func.value, env, pre)
            if not (isinstance(td, tuple) and td[0] == "dict") or not (isinstance(s.target, ast.Tuple) and len(s.target.elts) == 2
                                                                       and all(is_name(x) for x in s.target.elts)):
                raise Unsupported("loop " + src)
            a, b = s.target.elts[0].id, s.target.elts[1].id
            env2[a], env2[b] = td[1], td[2]
            pat, elem_ty, xs = "(%s, %s)" % (lname(a), lname(b)), "(%s × %s)" % (lty(td[1]), lty(td[2])), "(PyMeta.dictItems %s)" % d
            bound = [a, b]
        else:
            xs, txs = self.pure(it, env, pre)
            if not (isinstance(txs, tuple) and txs[0] in ("list", "set")) or not is_name(s.target):
                raise Unsupported("loop " + src)
            env2[s.target.id] = txs[1]
            pat, elem_ty, bound = lname(s.target.id), lty(txs[1]), [s.target.id]
        for x in bound:
            if x in env:
                raise Unsupported("loop variable `%s` shadows a local in %s" % (x, self.key))
        vs = self.assigned(list(s.body), env)
        if not vs:
            raise Unsupported("loop without effect: " + src)
        # read-only variables the body mentions
        used = set()
        for st in s.body:
            used |= names_in(st)
        if self.selfvar and any(isinstance(n, ast.Call) and is_name(n.func, "super") for st in s.body for n in ast.walk(st)):
            used.add(self.selfvar)
        ro = [x for x in env if x in used and x not in vs and env[x] != "self"]
        self.nloop += 1
        name = "%s.loop%d" % (self.sig[3], self.nloop)
        tup, tty = self.tuple_of(vs), self.tuple_ty(vs, env)
        saved = dict(self.narrow)
        self.narrow = {}
        body = self.block(list(s.body), env2, 2, lambda _e: ".ok " + tup)
        self.narrow = saved
        params = self.fixed_sig() + "".join("(%s : %s) " % (lname(x), lty(env[x])) for x in ro)
        text = "def %s %s: List %s → %s → Py.Res %s\n  | [], st => .ok st\n  | %s :: items', %s =>\n    ((\n%s    ) : Py.Res %s).bind fun st =>\n    %s %s%sitems' st\n" % (
            name, params, elem_ty, tty, tty, pat, tup, self.block_indent(body), tty, name, self.fixed_args(),
            "".join(lname(x) + " " for x in ro))
        self.loops.append(text)
        for x in vs:
            self.kill_narrow(x)
        return self.emit_pre(pre, depth, False) + I + "(%s %s%s%s %s).bind fun %s =>\n" % (
            name, self.fixed_args(), "".join(lname(x) + " " for x in ro), xs, tup, tup) + self.block(rest, env, depth, fall)

    @staticmethod
    def block_indent(body):
        return "".join("  " + ln + "\n" for ln in body.rstrip("\n").split("\n"))


class Module:
    def __init__(self, tree):
        self.tree = tree
        self.done, self.sigs, self.defaults, self.pnames = [], {s[0]: s for s in FUNCS}, {}, {}
        self.out = []
        self.classes = {n.name: n for n in tree.body if isinstance(n, ast.ClassDef)}
        self.funcs = {n.name: n for n in tree.body if isinstance(n, ast.FunctionDef)}
        # module-level names that must keep their meaning
        stores = {}
        for n in tree.body:
            tg = []
            if isinstance(n, ast.Assign):
                tg = [t for t in n.targets]
            elif isinstance(n, (ast.AnnAssign, ast.AugAssign)):
                tg = [n.target]
            elif isinstance(n, (ast.FunctionDef, ast.ClassDef, ast.AsyncFunctionDef)):
                stores[n.name] = stores.get(n.name, 0) + 1
            for t in tg:
                for x in ast.walk(t):
                    if isinstance(x, ast.Name) and isinstance(x.ctx, ast.Store):
                        stores[x.id] = stores.get(x.id, 0) + 1
        self.rebound = {x for x in GLOBAL_OBJ if stores.get(x, 0) > (1 if x in ("PLACEHOLDER", "datetime_default_gen") else 0)}
        for x in ("PLACEHOLDER", "datetime_default_gen", "ProtoClassMetadata", "Message", "FieldMetadata", "dataclass_field"):
            if stores.get(x) != 1:
                raise Unsupported("%s is not bound exactly once at module level" % x)
        # no translated method is patched from outside its class
        patched = {sg[2] for sg in FUNCS} | {"_betterproto", "_type_hints"}
        for n in ast.walk(tree):
            if isinstance(n, ast.Attribute) and isinstance(n.ctx, (ast.Store, ast.Del)) and n.attr in patched:
                raise Unsupported("`%s` is assigned outside its class" % ast.unparse(n))
            if isinstance(n, ast.Call) and is_name(n.func) and n.func.id in ("setattr", "delattr") and len(n.args) >= 2 \
                    and is_name(n.args[0]) and n.args[0].id in ("Message", "ProtoClassMetadata") and not (isinstance(n.args[1], ast.Constant) and n.args[1].value not in patched):
                raise Unsupported("`%s`: setattr with a name that is not a harmless constant" % ast.unparse(n))
        self.ptype_consts = set()
        for n in tree.body:
            if isinstance(n, ast.Assign) and len(n.targets) == 1 and is_name(n.targets[0]) and n.targets[0].id in PTYPE_CONST:
                x = n.targets[0].id
                if not (isinstance(n.value, ast.Constant) and "." + str(n.value.value) == PTYPE_CONST[x]) or stores.get(x) != 1:
                    raise Unsupported("constant %s changed" % x)
                self.ptype_consts.add(x)
        # datetime_default_gen / DATETIME_ZERO: the epoch in UTC
        g = self.funcs.get("datetime_default_gen")
        if g is None or ast.unparse(g.body[-1]) != "return datetime(1970, 1, 1, tzinfo=timezone.utc)" or len(g.body) != 1 or g.args.args:
            raise Unsupported("datetime_default_gen is not `return datetime(1970, 1, 1, tzinfo=timezone.utc)`")
        self.check_slots()
        self.fieldmeta_ok = self.check_fieldmeta()

    def check_fieldmeta(self):
        """class FieldMetadata is the frozen dataclass with the fields FIELDMETA_FIELDS, in this order"""
        c = self.classes.get("FieldMetadata")
        if c is None or [ast.unparse(d) for d in c.decorator_list] != ["dataclasses.dataclass(frozen=True)"]:
            return False
        names = [n.target.id for n in c.body if isinstance(n, ast.AnnAssign) and is_name(n.target)]
        return names == FIELDMETA_FIELDS and not any(isinstance(n, ast.FunctionDef) and n.name in ("__init__", "__post_init__", "__new__")
                                                     for n in c.body)

    def plain(self, name):
        """a module-level function of FIELD_FUNCS"""
        fn = self.funcs.get(name)
        if fn is None or fn.decorator_list:
            raise Unsupported("no plain module-level function " + name)
        a = fn.args
        if a.vararg or a.kwarg or a.posonlyargs:
            raise Unsupported("parameters of " + name)
        names = [x.arg for x in a.args] + [x.arg for x in a.kwonlyargs]
        defaults = [None] * (len(a.args) - len(a.defaults)) + list(a.defaults) + list(a.kw_defaults)
        for n in names:
            if n not in PARAM_TY:
                raise Unsupported("parameter `%s` of %s" % (n, name))
            lname(n)
        ptys = [PARAM_TY[n] for n in names]
        sig = (name, None, name, name, "function", ptys, "dfield", [])
        self.sigs[name], self.pnames[name], self.defaults[name] = sig, names, defaults
        tr = Fn(self, name, fn, sig)
        env = dict(zip(names, ptys))

        def fall(_e):
            raise Unsupported("%s can end without a return" % name)
        body = tr.block(list(fn.body), env, 1, fall)
        if tr.loops:
            raise Unsupported("loop in " + name)
        head = "/- %s  (%s, line %d) -/\n" % (name, REL, fn.lineno)
        sigtext = "".join("(%s : %s) " % (lname(n), lty(t)) for n, t in zip(names, ptys))
        self.out.append(head + "def %s %s: Py.Res PyMeta.DField :=\n%s" % (name, sigtext, body))
        self.done.append(name)

    def check_slots(self):
        c = self.classes.get("ProtoClassMetadata")
        if c is None or c.bases or c.keywords or c.decorator_list:
            raise Unsupported("class ProtoClassMetadata")
        slots = None
        for n in c.body:
            if isinstance(n, ast.Assign) and len(n.targets) == 1 and is_name(n.targets[0], "__slots__"):
                slots = [x.value for x in n.value.elts] if isinstance(n.value, (ast.Tuple, ast.List)) else None
        if slots is None or sorted(slots) != sorted(SLOTS):
            raise Unsupported("ProtoClassMetadata.__slots__ is not %s" % sorted(SLOTS))

    def find(self, cls, name):
        c = self.classes.get(cls)
        if c is None:
            raise Unsupported("no class " + cls)
        found = []

        def scan(body):
            for n in body:
                if isinstance(n, ast.FunctionDef) and n.name == name:
                    found.append(n)
                elif isinstance(n, ast.If) and ast.unparse(n.test) == "not TYPE_CHECKING" and not n.orelse:
                    scan(n.body)
                elif isinstance(n, (ast.Assign, ast.AnnAssign)):
                    tg = n.targets if isinstance(n, ast.Assign) else [n.target]
                    if any(is_name(t, name) for t in tg):
                        raise Unsupported("%s.%s is assigned at class level" % (cls, name))
        scan(c.body)
        if len(found) != 1:
            raise Unsupported("%s.%s is defined %d times" % (cls, name, len(found)))
        return found[0]

    def function(self, key):
        sig = self.sigs[key]
        _, cls, pyname, lean, kind, ptys, ret, fixed = sig
        fn = self.find(cls, pyname)
        decos = sorted(ast.unparse(d) for d in fn.decorator_list)
        want = {"classmethod": ["classmethod"], "static": ["staticmethod"]}.get(kind, [])
        if decos != want:
            raise Unsupported("decorators of %s.%s: %s" % (cls, pyname, decos))
        a = fn.args
        if a.vararg or a.kwarg or a.kwonlyargs or a.posonlyargs:
            raise Unsupported("parameters of %s.%s" % (cls, pyname))
        names = [x.arg for x in a.args]
        nfirst = 0 if kind == "static" else 1
        if len(names) != nfirst + len(ptys):
            raise Unsupported("%s.%s takes %d parameters" % (cls, pyname, len(names)))
        defaults = [None] * (len(names) - len(a.defaults)) + list(a.defaults)
        self.pnames[key] = names[nfirst:]
        self.defaults[key] = defaults[nfirst:]
        tr = Fn(self, key, fn, sig)
        env = {}
        params = []
        if kind == "classmethod":
            tr.clsvar = names[0]
            env[names[0]] = "cls"
            params.append((names[0], "cls"))
        elif kind == "method":
            tr.selfvar = names[0]
            env[names[0]] = "inst"
            params.append((names[0], "inst"))
        elif kind == "ctor":
            tr.selfvar = names[0]
            env[names[0]] = "self"
        for n, t in zip(names[nfirst:], ptys):
            env[n] = t
            params.append((n, t))
            if t == "cls" and tr.clsvar is None:
                tr.clsvar = n
        for n in names:
            lname(n)
        if kind == "ctor":
            def fall(_e):
                missing = [s for s in SLOTS if s not in tr.record]
                if missing:
                    raise Unsupported("__init__ does not assign " + ", ".join(missing))
                return ".ok { " + ", ".join("%s := %s" % (s, tr.record[s]) for s in SLOTS) + " }"
        elif ret == "inst":
            def fall(_e):
                return ".ok " + lname(tr.selfvar)
        else:
            def fall(_e):
                raise Unsupported("%s.%s can end without a return" % (cls, pyname))
        body = tr.block(list(fn.body), env, 1, fall)
        head = "/- %s.%s  (%s, line %d) -/\n" % (cls, pyname, REL, fn.lineno)
        sigtext = tr.fixed_sig() + "".join("(%s : %s) " % (lname(n), lty(t)) for n, t in params)
        self.out.append("".join(l + "\n" for l in tr.loops) + head + "def %s %s: Py.Res %s :=\n%s" % (lean, sigtext, lty(ret), body))
        self.done.append(key)

    def betterproto(self):
        """the lazy per-class cache: exactly
               try: return cls.<A>
               except AttributeError: cls.<A> = m = ProtoClassMetadata(cls); return m      (or the two-statement form)"""
        fn = self.find("Message", "_betterproto")
        if [ast.unparse(d) for d in fn.decorator_list] != ["classproperty"] or len(fn.args.args) != 1:
            raise Unsupported("Message._betterproto is not a classproperty of one parameter")
        c = fn.args.args[0].arg
        body = [s for s in fn.body if not (isinstance(s, ast.Expr) and isinstance(s.value, ast.Constant))]
        ok = len(body) == 1 and isinstance(body[0], ast.Try) and not body[0].orelse and not body[0].finalbody \
            and len(body[0].handlers) == 1 and ast.unparse(body[0].handlers[0].type) == "AttributeError" \
            and len(body[0].body) == 1 and isinstance(body[0].body[0], ast.Return)
        if not ok:
            raise Unsupported("shape of Message._betterproto")
        r = body[0].body[0].value
        if not (isinstance(r, ast.Attribute) and is_name(r.value, c)):
            raise Unsupported("shape of Message._betterproto")
        attr = r.attr
        h = body[0].handlers[0].body
        call = "ProtoClassMetadata(%s)" % c
        texts = [ast.unparse(s) for s in h]
        forms = [["%s.%s = @M = %s" % (c, attr, call), "return @M"], ["@M = %s.%s = %s" % (c, attr, call), "return @M"],
                 ["@M = %s" % call, "%s.%s = @M" % (c, attr), "return @M"], ["%s.%s = %s" % (c, attr, call), "return %s.%s" % (c, attr)]]
        m = None
        for s in h:
            for n in ast.walk(s):
                if isinstance(n, ast.Name) and isinstance(n.ctx, ast.Store):
                    m = n.id
        if not any([t.replace("@M", m or "@M") for t in f] == texts for f in forms):
            raise Unsupported("handler of Message._betterproto: " + "; ".join(texts))
        # the attribute must not be touched anywhere else
        for n in ast.walk(self.tree):
            if isinstance(n, ast.Attribute) and n.attr == attr and not any(n is x for x in ast.walk(fn)):
                raise Unsupported("%s is used outside Message._betterproto" % attr)
        head = "/- Message._betterproto  (%s, line %d): the lazy per-class cache `%s` -/\n" % (REL, fn.lineno, attr)
        self.out.append(head + """def betterproto (%s : List FieldD) (cache : Option PyMeta.ClassMeta) : Py.Res (PyMeta.ClassMeta × Option PyMeta.ClassMeta) :=
  match PyMeta.getCache cache with
  | .ok t1 => .ok (t1, cache)
  | .raise .attr =>
    (ProtoClassMetadata.init %s).bind fun t2 =>
    let cache := some t2
    .ok (t2, cache)
  | .raise e => .raise e
  | .diverge => .diverge
""" % (lname(c), lname(c)))


ORDER = ["type_hint", "cls_for", "gen", "get_default_gen", "get_cls_by_field", "init", "BETTERPROTO", "post_init", "setattr",
         "get_field_default"]


def translate(path=SRC):
    tree = ast.parse(open(path).read())
    mod = Module(tree)
    for key in ORDER:
        if key == "BETTERPROTO":
            mod.betterproto()
        else:
            mod.function(key)
    for name in FIELD_FUNCS:
        mod.plain(name)
    return mod.out


HEADER = """import BpProofs.PyPreludeMeta
/- GENERATED by harness/extract_srcmeta.py from the Python AST of src/betterproto/__init__.py -- do not edit.
   Each definition is the statement-by-statement translation of the named method over the vocabulary of
   BpProofs/PyPreludeMeta.lean (a class is its `List FieldD`, a field / group name is its index, dicts are
   insertion-ordered association lists, an instance under construction is a `PyMeta.Inst`). -/
set_option linter.unusedVariables false
namespace Bp.SrcMeta
open Bp

"""


def render(path=SRC):
    try:
        defs = translate(path)
        return HEADER + "\n".join(defs) + "\nend Bp.SrcMeta\n", None
    except Unsupported as e:
        msg = "the source translator does not support the current source: %s" % e
        return HEADER + "/- TRANSLATION FAILED: %s -/\n\nend Bp.SrcMeta\n" % msg.replace("-/", "- /"), msg
    except (OSError, SyntaxError) as e:
        msg = "the source translator could not read the source: %r" % (e,)
        return HEADER + "/- TRANSLATION FAILED: %s -/\n\nend Bp.SrcMeta\n" % msg.replace("-/", "- /"), msg


def main(write_if_changed, gen_dir):
    text, err = render()
    target = os.path.join(gen_dir, "..", "..", "BpProofs", "Gen", "SrcMeta.lean")
    changed = write_if_changed(os.path.normpath(target), text)
    if err:
        print("extract_srcmeta: " + err)
    return ["SrcMeta.lean"] if changed else []


if __name__ == "__main__":
    t, e = render()
    print(t)
    if e:
        print("ERROR:", e)
