"""SOURCE TRANSLATOR, the WHOLE METHODS of the binary codec entry points (properties C09 / C10 / C01): Python AST of

    Message.dump, __len__, __bytes__, SerializeToString, __getstate__, __reduce__      (encoder side)
    Message.load, parse, __setstate__, FromString                                       (decoder side)
    Message._include_default_value_for_oneof

of /repo/src/betterproto/__init__.py -> lean/BpProofs/Gen/SrcMsg.lean.

Same scheme as extract_src.py (whose statement translator `Tr` is subclassed here).  What extract_srcdump.py and
extract_srcload.py translate — the BODY of the field loop of dump / __len__ (`Src.dump_field`, `Src.len_field`) and the
BODY of the record loop of load (`Src.load_record`) — is not translated again: the loop STATEMENT becomes a structural
recursion over the items that calls the translated body (the translator checks that it is the very loop those two
translators took the body from, and that both succeed on the current source).  Everything around the loops is
translated here, statement by statement, over lean/BpProofs/PyPreludeMsg.lean (+ PyPrelude / PyPreludeDyn /
PyPreludeLoad).  lean/BpProofs/SrcTieMsg.lean proves the translated methods equal to the model's `dumpVal`, `lenVal`,
`dumpDelimited`, `loadInto`, `parseInto`, `loadDelimited` and the pickle step; Props/C09SrcMsg.lean, C10Src.lean,
C01Src.lean state the properties of the source functions only.

Lean interface (S: schema; fuel: bound on the iterations of the `while` loops of the codec primitives):

  encoder side   Src.msg_<m> (fuel) (S) (enc : Val → R Bytes) (fs : List FieldD) (self : MState) <python parameters>
                 enc = `bytes(<nested Message>)` as the intrinsics of the loop bodies call it
  decoder side   Src.msg_<m> (fuel) (S) (rec : Loader) (d : MsgD) (self : MState) <python parameters>
                 rec = `<Cls>().parse(<bytes>)` for a nested class; a method that returns `self` returns the state
  THE KNOT       Src.value_bytes / value_len / value_dump fuel S depth (v : Val), Src.class_parse / value_parse /
                 value_load / class_from_string fuel S depth …: `enc` / `rec` are the functions themselves one nesting
                 level down (`depth` bounds the nesting, `.diverge` at 0); emitted from a fixed template below.

Constructs added to those of extract_src.Tr (anything else raises Unsupported -> generated file without definitions):
  `for <name>, <meta> in self._betterproto.meta_by_field_name.items(): <body>` (the loop extract_srcdump.py translates;
  no local bound before the loop other than the carried one may be rebound in the body); `for <parsed> in
  load_fields(<stream>): <body>` (the loop extract_srcload.py translates; the records are collected first: an exception
  of the framing ends the method either way); `<alias> = self._betterproto` (no code: only the loop body uses it);
  `len(self)`, `bytes(self)`, `self.<translated method>(…)`, `cls().<translated method>(…)`; `self._unknown_fields`;
  `self._serialized_on_wire = <bool>`; a parameter `Optional[int]`: `<x> == <int>`, `if <x> is not None:` (match);
  `<stream> = BytesIO(<bytes>)` rebinding the stream PARAMETER (the caller's stream keeps the state it had);
  `return (self.__class__.FromString, (<bytes>,))` (the bytes; the callable is `class_from_string`);
  in `_include_default_value_for_oneof`: one `return` of and / or / not over `meta.group is [not] None`,
  `self._group_current.get(meta.group) ==/!= <field name>`.
"""
import ast
import os

from extract_src import SRC, Sig, Tr, Unsupported, indent, nm, find_function, ann_type
import extract_srcdump
import extract_srcload
from extract_srcdump import find_method, field_loop, LOOP_ITER

LEAN_TY = {"int": "Int", "bytes": "Bytes", "bool": "Bool", "stream": "Bytes", "none": "Unit", "mstate": "MState",
           "optint": "(Option Int)"}
ENC_FIXED = "(fuel : Nat) (S : Schema) (enc : Val → R Bytes) (fs : List FieldD)"
DEC_FIXED = "(fuel : Nat) (S : Schema) (rec : Loader) (d : MsgD)"
ENC_ARGS, DEC_ARGS = "fuel S enc fs", "fuel S rec d"
OUTER = "$outer"            # env key: Lean name that holds the state of the CALLER's stream

# python method -> (lean name, side, [(parameter, type, annotation text expected, default (Lean) or None)], return type,
#                   return annotation texts accepted)
METHODS = {
    "__len__": ("msg_len", "enc", [], "int", ("int",)),
    "dump": ("msg_dump", "enc", [("stream", "stream", "SupportsWrite[bytes]", None), ("delimit", "int", "bool", "False")],
             "none", ("None",)),
    "__bytes__": ("msg_bytes", "enc", [], "bytes", ("bytes",)),
    "SerializeToString": ("msg_serialize_to_string", "enc", [], "bytes", ("bytes",)),
    "__getstate__": ("msg_getstate", "enc", [], "bytes", ("bytes",)),
    "__reduce__": ("msg_reduce", "enc", [], "bytes", ("Tuple[Any, ...]",)),
    "load": ("msg_load", "dec", [("stream", "stream", "SupportsRead[bytes]", None), ("size", "optint", "Optional[int]", "None")],
             "mstate", ("T",)),
    "parse": ("msg_parse", "dec", [("data", "bytes", "bytes", None)], "mstate", ("T",)),
    "__setstate__": ("msg_setstate", "dec", [("pickled_bytes", "bytes", "bytes", None)], "mstate", ("T",)),
    "FromString": ("class_from_string", "cls", [("data", "bytes", "bytes", None)], "mstate", ("T",)),
}
ORDER = ["__len__", "dump", "__bytes__", "SerializeToString", "__getstate__", "__reduce__",
         "load", "parse", "__setstate__", "FromString"]
DEFAULTS = {("int", "False"): "(0 : Int)", ("int", "True"): "(1 : Int)", ("optint", "None"): "(Option.none : Option Int)"}


def lty(t):
    if isinstance(t, tuple):
        return "(" + " × ".join(lty(x) for x in t) + ")"
    if t not in LEAN_TY:
        raise Unsupported("no Lean type for " + str(t))
    return LEAN_TY[t]


class MSig(Sig):
    """signature of a translated method"""

    def __init__(self, py, lean, side, params, ret):
        stream = next((p for p, t, _ in params if t == "stream"), None)
        super().__init__(lean, params, ret, stream)
        self.py, self.side = py, side

    def lean_ret(self):
        if self.stream is None:
            return lty(self.ret)
        if self.ret == "none":
            return lty("stream")
        return "(%s × %s)" % (lty(self.ret), lty("stream"))


class TrMsg(Tr):
    """translator of the outer part of one method"""

    def __init__(self, sigs, sig, consts, methods, loops):
        super().__init__(sigs, sig, consts)
        self.methods = methods       # python method name -> MSig
        self.loops = loops           # {"field": (For node, body function, carry, names) | None, "record": (For node, aliases) | None}
        self.loop_names = {}

    # ------------------------------------------------------------------------------------------------ expressions
    def is_self(self, e, env):
        return isinstance(e, ast.Name) and e.id == "self" and env.get("self") == "mstate"

    def receiver(self, e, env):
        """`self`, or `cls()` inside a classmethod -> Lean text of the instance state, or None"""
        if self.is_self(e, env):
            return "self"
        if isinstance(e, ast.Call) and isinstance(e.func, ast.Name) and e.func.id == "cls" and env.get("cls") == "class" \
                and not e.args and not e.keywords:
            return "(Py.Msg.newInstance d)"
        return None

    def expr(self, e, env):
        if isinstance(e, ast.Name) and env.get(e.id) in ("protometa", "class", "mstate") and not self.is_self(e, env):
            raise Unsupported("use of %s outside the translated loop bodies" % e.id)
        if isinstance(e, ast.Constant) and e.value is None:
            return [], "(Option.none : Option Int)", "optint"
        if isinstance(e, ast.Attribute) and self.is_self(e.value, env):
            if e.attr == "_unknown_fields":
                return [], "(Py.Msg.unknownFields self)", "bytes"
            raise Unsupported("attribute " + ast.unparse(e))
        if isinstance(e, ast.Compare) and len(e.ops) == 1:
            op, right = e.ops[0], e.comparators[0]
            if isinstance(e.left, ast.Name) and env.get(e.left.id) == "optint":
                x = nm(e.left.id)
                if isinstance(op, (ast.Is, ast.IsNot)) and isinstance(right, ast.Constant) and right.value is None:
                    return [], "(%s).isNone" % x if isinstance(op, ast.Is) else "(%s).isSome" % x, "bool"
                if isinstance(op, (ast.Eq, ast.NotEq)):
                    b, t, ty = self.expr(right, env)
                    if b or ty != "int":
                        raise Unsupported("comparison " + ast.unparse(e))
                    txt = "(%s == some %s)" % (x, t)
                    return [], txt if isinstance(op, ast.Eq) else "(!%s)" % txt, "bool"
            if isinstance(op, (ast.Is, ast.IsNot)) and isinstance(right, ast.Constant) and right.value is None \
                    and isinstance(e.left, ast.Name) and env.get(e.left.id) == "int":
                return [], "false" if isinstance(op, ast.Is) else "true", "bool"     # an int is not None
        return super().expr(e, env)

    def method_call(self, sg, recv, e, env):
        """call of the translated method `sg` on the instance `recv` (Lean text) -> (binds, text, type)"""
        if len(e.args) > len(sg.params):
            raise Unsupported("too many arguments: " + ast.unparse(e))
        given = dict(zip([p for p, _, _ in sg.params], e.args))
        for k in e.keywords:
            if k.arg is None or k.arg in given or k.arg not in [p for p, _, _ in sg.params]:
                raise Unsupported("keyword argument of " + ast.unparse(e))
            given[k.arg] = k.value
        binds, args, stream_arg = [], [], None
        for pn, pt, pd in sg.params:
            if pn in given:
                a = given[pn]
                b, t, ty = self.expr(a, env)
                if pt == "optint" and ty == "int":
                    t, ty = "(some %s)" % t, "optint"
                if ty != pt:
                    raise Unsupported("argument %s of %s has type %s, expected %s" % (pn, sg.py, ty, pt))
                if pt == "stream":
                    if not isinstance(a, ast.Name):
                        raise Unsupported("stream argument must be a variable")
                    stream_arg = nm(a.id)
                binds += b
                args.append(t)
            elif pd is not None:
                args.append(pd)
            else:
                raise Unsupported("missing argument %s of %s" % (pn, sg.py))
        if sg.side == "cls":
            raise Unsupported("call of a classmethod: " + ast.unparse(e))
        if sg.side == "enc" and self.sig.side != "enc":
            raise Unsupported("an encoder method called from the decoder side: " + ast.unparse(e))
        if sg.side == "dec" and self.sig.side == "enc":
            raise Unsupported("a decoder method called from the encoder side: " + ast.unparse(e))
        fixed = ENC_ARGS if sg.side == "enc" else DEC_ARGS
        callee = "%s %s %s%s" % (sg.name, fixed, recv, "".join(" " + a for a in args))
        t = self.tmp()
        mutates = sg.side == "dec"     # a decoder method returns `self`: the receiver's state afterwards
        if sg.stream is None:
            binds = binds + [("bind", t, callee)]
        elif sg.ret == "none":
            return binds + [("bind", stream_arg, callee)], "()", "none"
        else:
            binds = binds + [("bind", "(%s, %s)" % (t, stream_arg), callee)]
        if mutates and recv == "self":
            binds = binds + [("let", "self", t)]
        return binds, t, sg.ret

    def call(self, e, env):
        f = e.func
        if isinstance(f, ast.Name) and f.id in ("len", "bytes") and f.id not in env and len(e.args) == 1 and not e.keywords \
                and self.is_self(e.args[0], env):
            py = "__len__" if f.id == "len" else "__bytes__"
            if py not in self.methods:
                raise Unsupported("%s(self) before Message.%s is translated" % (f.id, py))
            return self.method_call(self.methods[py], "self", ast.Call(func=f, args=[], keywords=[]), env)
        if isinstance(f, ast.Attribute):
            recv = self.receiver(f.value, env)
            if recv is not None:
                if f.attr not in self.methods:
                    raise Unsupported("call of the method %s (not translated, or translated later)" % f.attr)
                return self.method_call(self.methods[f.attr], recv, e, env)
        return super().call(e, env)

    # -------------------------------------------------------------------------------------------------- statements
    def ret_text(self, val, env, in_loop):
        sg = self.sig
        outer = env.get(OUTER) or (nm(sg.stream) if sg.stream else None)
        if sg.stream is None:
            r = val if val is not None else "()"
        elif sg.ret == "none":
            r = outer
        else:
            r = "(%s, %s)" % (val, outer)
        return ".ok %s" % r

    def block(self, stmts, env, k, in_loop):
        if not stmts:
            return k(env)
        st, rest = stmts[0], stmts[1:]

        def go(env2):
            return self.block(rest, env2, k, in_loop)
        if isinstance(st, ast.Return) and st.value is not None:
            v = st.value
            # return (self.__class__.FromString, (bytes(self),)): what pickle stores is the argument
            if isinstance(v, ast.Tuple) and len(v.elts) == 2 and ast.unparse(v.elts[0]) == "self.__class__.FromString" \
                    and isinstance(v.elts[1], ast.Tuple) and len(v.elts[1].elts) == 1 and self.sig.py == "__reduce__":
                b, t, ty = self.expr(v.elts[1].elts[0], env)
                if ty != "bytes":
                    raise Unsupported("argument of FromString in __reduce__: " + str(ty))
                return self.wrap(b, self.ret_text(t, env, in_loop))
        if isinstance(st, ast.Assign) and len(st.targets) == 1:
            tgt, v = st.targets[0], st.value
            # <alias> = self._betterproto
            if isinstance(tgt, ast.Name) and isinstance(v, ast.Attribute) and v.attr == "_betterproto" and self.is_self(v.value, env):
                rec = self.loops.get("record")
                if rec is None or tgt.id not in rec[1] or tgt.id in env:
                    raise Unsupported("binding of self._betterproto outside Message.load")
                env = dict(env)
                env[tgt.id] = "protometa"
                return go(env)
            # self._serialized_on_wire = <bool>
            if isinstance(tgt, ast.Attribute) and self.is_self(tgt.value, env):
                if tgt.attr != "_serialized_on_wire" or self.sig.side != "dec":
                    raise Unsupported("assignment to " + ast.unparse(tgt))
                b, t, ty = self.expr(v, env)
                if ty != "bool":
                    raise Unsupported("self._serialized_on_wire = <%s>" % ty)
                return self.wrap(b + [("let", "self", "Py.Msg.setSerializedOnWire self %s" % t)], go(env))
            # <stream> = BytesIO(<bytes>)
            if isinstance(tgt, ast.Name) and env.get(tgt.id) == "stream" and isinstance(v, ast.Call) \
                    and ast.unparse(v.func) == "BytesIO" and len(v.args) == 1 and not v.keywords:
                b, t, ty = self.expr(v.args[0], env)
                if ty != "bytes":
                    raise Unsupported("BytesIO of " + str(ty))
                env = dict(env)
                binds = list(b)
                if tgt.id == self.sig.stream and not env.get(OUTER):
                    # the parameter is rebound: the caller's stream keeps the state it has now
                    binds.append(("let", "caller_stream", nm(tgt.id)))
                    env[OUTER] = "caller_stream"
                elif tgt.id == self.sig.stream:
                    raise Unsupported("the stream parameter is rebound twice")
                binds.append(("let", nm(tgt.id), t))
                self.fresh_stream[tgt.id] = True
                return self.wrap(binds, go(env))
            if isinstance(tgt, ast.Name) and tgt.id in ("self", "cls", "caller_stream"):
                raise Unsupported("assignment to " + tgt.id)
        if isinstance(st, ast.If):
            t = st.test
            # if <x> is not None:  (x : Optional[int])  -> match, x is an int inside
            if isinstance(t, ast.Compare) and len(t.ops) == 1 and isinstance(t.ops[0], (ast.Is, ast.IsNot)) \
                    and isinstance(t.comparators[0], ast.Constant) and t.comparators[0].value is None \
                    and isinstance(t.left, ast.Name) and env.get(t.left.id) == "optint":
                x = t.left.id
                some_body, none_body = (st.orelse, st.body) if isinstance(t.ops[0], ast.Is) else (st.body, st.orelse)
                env_some = dict(env)
                env_some[x] = "int"
                a = self.block(list(some_body) + rest, env_some, k, in_loop)
                b = self.block(list(none_body) + rest, dict(env), k, in_loop)
                return "match %s with\n| Option.some %s =>\n%s\n| Option.none =>\n%s" % (nm(x), nm(x), indent(a), indent(b))
        return super().block(stmts, env, k, in_loop)

    def loop(self, st, rest, env, k, in_loop):
        if in_loop or not isinstance(st, ast.For) or st.orelse:
            raise Unsupported("loop statement " + ast.unparse(st).split("\n")[0])
        fl, rl = self.loops.get("field"), self.loops.get("record")
        # a loop reached on several paths (the statements after an `if` are translated once per branch) is defined once
        first = id(st) not in self.loop_names
        if first:
            self.nloop += 1
            self.loop_names[id(st)] = "%s.loop%d" % (self.sig.name, self.nloop)
        lname = self.loop_names[id(st)]
        aux = self.aux if first else []
        if fl is not None and st is fl[0]:
            _, body_fn, carry, field_var, meta_var = fl
            if env.get(carry) not in ("stream", "int") or self.sig.side != "enc":
                raise Unsupported("the variable carried by the field loop")
            stored = {n.id for s in st.body for n in ast.walk(s) if isinstance(n, ast.Name) and isinstance(n.ctx, (ast.Store, ast.Del))}
            clash = sorted(v for v in stored if v in env and v != carry)
            if clash or field_var in env or meta_var in env:
                raise Unsupported("the field loop rebinds %s, bound before the loop" % ", ".join(clash or [field_var, meta_var]))
            cty = lty(env[carry])
            c, fn, mv = nm(carry), nm(field_var), nm(meta_var)
            aux.append(
                "def %s (S : Schema) (enc : Val → R Bytes) (self : MState) : List (Nat × FieldD) → %s → Py.Res %s\n"
                "  | [], %s => .ok %s\n"
                "  | (%s, %s) :: items', %s =>\n"
                "    (%s S enc %s (Py.Msg.getattrOf S self %s %s) (msg_include_default self %s %s) %s).bind fun %s =>\n"
                "    %s S enc self items' %s" % (lname, cty, cty, c, c, fn, mv, c, body_fn, mv, fn, mv, fn, mv, c, c, lname, c))
            if env.get(carry) == "stream":
                self.fresh_stream[carry] = False
            after = self.block(rest, env, k, in_loop)
            return "(%s S enc self (Py.Msg.metaItems fs) %s).bind fun %s =>\n%s" % (lname, c, c, after)
        if rl is not None and st is rl[0]:
            if self.sig.side != "dec" or env.get("self") != "mstate":
                raise Unsupported("the record loop outside Message.load")
            it = st.iter          # load_fields(<stream>): header checked by extract_srcload.record_loop
            s = it.args[0].id
            if env.get(s) != "stream":
                raise Unsupported("argument of load_fields")
            p = nm(st.target.id)
            if st.target.id in env:
                raise Unsupported("the record loop rebinds " + st.target.id)
            aux.append(
                "def %s (fuel : Nat) (S : Schema) (rec : Loader) (d : MsgD) : List PField → MState → Py.Res MState\n"
                "  | [], self => .ok self\n"
                "  | %s :: items', self =>\n"
                "    (load_record fuel S rec d self %s).bind fun self =>\n"
                "    %s fuel S rec d items' self" % (lname, p, p, lname))
            self.fresh_stream[s] = False
            after = self.block(rest, env, k, in_loop)
            return "(load_fields fuel %s).bind fun (records, %s) =>\n(%s fuel S rec d records self).bind fun self =>\n%s" % (
                nm(s), nm(s), lname, after)
        raise Unsupported("for over " + ast.unparse(st.iter))

    def method_def(self, body):
        sg = self.sig

        def fall_off(env2):
            if sg.ret != "none":
                raise Unsupported("control reaches the end of a method that returns a value")
            return self.ret_text(None, env2, False)
        self.fresh_stream = {}
        env = {}
        if sg.side == "cls":
            env["cls"] = "class"
        else:
            env["self"] = "mstate"
        for p, t, _ in sg.params:
            env[p] = t
        txt = self.block(body, env, fall_off, False)
        fixed = ENC_FIXED if sg.side == "enc" else DEC_FIXED
        selfp = "" if sg.side == "cls" else " (self : MState)"
        params = "".join(" (%s : %s)" % (nm(p), lty(t)) for p, t, _ in sg.params)
        d = "def %s %s%s%s : Py.Res %s :=\n%s" % (sg.name, fixed, selfp, params, sg.lean_ret(), indent(txt))
        return "\n\n".join(self.aux + [d])


# ------------------------------------------------------------------------------------------------ _include_default_value_for_oneof
def include_default(tree):
    """`Message._include_default_value_for_oneof(self, field_name, meta)`: one `return <boolean expression>`"""
    fn = find_method(tree, "Message", "_include_default_value_for_oneof")
    a = fn.args
    names = [x.arg for x in a.args]
    # the loop bodies call it with the keywords field_name= and meta= (checked by extract_srcdump.py)
    if names != ["self", "field_name", "meta"] or a.defaults or a.vararg or a.kwarg or a.kwonlyargs or a.posonlyargs:
        raise Unsupported("parameters of _include_default_value_for_oneof: %r" % names)
    body = [s for s in fn.body if not (isinstance(s, ast.Expr) and isinstance(s.value, ast.Constant) and isinstance(s.value.value, str))]
    if len(body) != 1 or not isinstance(body[0], ast.Return) or body[0].value is None:
        raise Unsupported("_include_default_value_for_oneof is not a single return statement")

    def ex(e):
        """-> (Lean text, type) with type in bool / group / optname / name"""
        if isinstance(e, ast.Name):
            if e.id == "field_name":
                return "field_name", "name"
            raise Unsupported("name " + e.id)
        if isinstance(e, ast.Attribute) and isinstance(e.value, ast.Name) and e.value.id == "meta" and e.attr == "group":
            return "(Py.metaGroup meta')", "group"
        if isinstance(e, ast.Call) and ast.unparse(e.func) == "self._group_current.get" and len(e.args) == 1 and not e.keywords:
            g, tg = ex(e.args[0])
            if tg != "group":
                raise Unsupported("key of " + ast.unparse(e))
            return "(Py.Msg.groupCurrentGet self %s)" % g, "optname"
        if isinstance(e, ast.BoolOp):
            parts = [ex(v) for v in e.values]
            if any(t != "bool" for _, t in parts):
                raise Unsupported("and / or on operands that are not bools: " + ast.unparse(e))
            return "(" + (" && " if isinstance(e.op, ast.And) else " || ").join(p for p, _ in parts) + ")", "bool"
        if isinstance(e, ast.UnaryOp) and isinstance(e.op, ast.Not):
            p, t = ex(e.operand)
            if t != "bool":
                raise Unsupported("not on " + t)
            return "(!%s)" % p, "bool"
        if isinstance(e, ast.Compare) and len(e.ops) == 1:
            op, right = e.ops[0], e.comparators[0]
            if isinstance(op, (ast.Is, ast.IsNot)) and isinstance(right, ast.Constant) and right.value is None:
                p, t = ex(e.left)
                if t not in ("group", "optname"):
                    raise Unsupported("identity test " + ast.unparse(e))
                return "(%s).%s" % (p, "isNone" if isinstance(op, ast.Is) else "isSome"), "bool"
            if isinstance(op, (ast.Eq, ast.NotEq)):
                (p, t), (q, u) = ex(e.left), ex(right)
                if (t, u) == ("optname", "name"):
                    txt = "(%s == some %s)" % (p, q)
                elif (t, u) == ("name", "optname"):
                    txt = "(%s == some %s)" % (q, p)
                else:
                    raise Unsupported("comparison " + ast.unparse(e))
                return txt if isinstance(op, ast.Eq) else "(!%s)" % txt, "bool"
        raise Unsupported("expression " + ast.unparse(e))
    txt, ty = ex(body[0].value)
    if ty != "bool":
        raise Unsupported("_include_default_value_for_oneof returns a " + ty)
    return ("/- Message._include_default_value_for_oneof  (src/betterproto/__init__.py, line %d) -/\n"
            "def msg_include_default (self : MState) (field_name : Nat) (meta' : FieldD) : Bool :=\n  %s" % (fn.lineno, txt))


# ------------------------------------------------------------------------------------------------ what is translated
KNOT = """/- THE RECURSIVE KNOT (fixed template): `bytes(<nested Message>)` inside the intrinsics of the loop bodies is
   Message.__bytes__ of that instance, `<Cls>().parse(<bytes>)` inside _postprocess_single is Message.parse of a new
   instance of the nested class: the methods above with `enc` / `rec` := themselves, one nesting level down
   (`depth` bounds the nesting; `.diverge` when it runs out). -/
def value_bytes (fuel : Nat) (S : Schema) : Nat → Val → Py.Res Bytes
  | 0, _ => .diverge
  | depth + 1, v => Py.Msg.onMessage S v fun fs self =>
      msg_bytes fuel S (fun x => Py.Msg.toR (value_bytes fuel S depth x)) fs self

/- len(v) -/
def value_len (fuel : Nat) (S : Schema) (depth : Nat) (v : Val) : Py.Res Int :=
  Py.Msg.onMessage S v fun fs self => msg_len fuel S (fun x => Py.Msg.toR (value_bytes fuel S depth x)) fs self

/- v.dump(stream, delimit) -/
def value_dump (fuel : Nat) (S : Schema) (depth : Nat) (v : Val) (stream : Bytes) (delimit : Int) : Py.Res Bytes :=
  Py.Msg.onMessage S v fun fs self =>
    msg_dump fuel S (fun x => Py.Msg.toR (value_bytes fuel S depth x)) fs self stream delimit

/- v.SerializeToString(), v.__getstate__(), the argument tuple of v.__reduce__() -/
def value_serialize_to_string (fuel : Nat) (S : Schema) (depth : Nat) (v : Val) : Py.Res Bytes :=
  Py.Msg.onMessage S v fun fs self =>
    msg_serialize_to_string fuel S (fun x => Py.Msg.toR (value_bytes fuel S depth x)) fs self
def value_getstate (fuel : Nat) (S : Schema) (depth : Nat) (v : Val) : Py.Res Bytes :=
  Py.Msg.onMessage S v fun fs self => msg_getstate fuel S (fun x => Py.Msg.toR (value_bytes fuel S depth x)) fs self
def value_reduce (fuel : Nat) (S : Schema) (depth : Nat) (v : Val) : Py.Res Bytes :=
  Py.Msg.onMessage S v fun fs self => msg_reduce fuel S (fun x => Py.Msg.toR (value_bytes fuel S depth x)) fs self

/- <instance of class d in state self>.parse(data) -/
def class_parse (fuel : Nat) (S : Schema) : Nat → MsgD → MState → Bytes → Py.Res MState
  | 0, _, _, _ => .diverge
  | depth + 1, d, self, data =>
      msg_parse fuel S (fun d' self' data' => Py.Msg.toR (class_parse fuel S depth d' self' data')) d self data

/- v.parse(data), v.__setstate__(data) -/
def value_parse (fuel : Nat) (S : Schema) (depth : Nat) (v : Val) (data : Bytes) : Py.Res Val :=
  Py.Msg.onInstance S v fun d self =>
    msg_parse fuel S (fun d' self' data' => Py.Msg.toR (class_parse fuel S depth d' self' data')) d self data
def value_setstate (fuel : Nat) (S : Schema) (depth : Nat) (v : Val) (data : Bytes) : Py.Res Val :=
  Py.Msg.onInstance S v fun d self =>
    msg_setstate fuel S (fun d' self' data' => Py.Msg.toR (class_parse fuel S depth d' self' data')) d self data

/- v.load(stream, size): the instance and the unread rest of the stream -/
def value_load (fuel : Nat) (S : Schema) (depth : Nat) (v : Val) (stream : Bytes) (size : Option Int) : Py.Res (Val × Bytes) :=
  Py.Msg.onInstanceS S v fun d self =>
    msg_load fuel S (fun d' self' data' => Py.Msg.toR (class_parse fuel S depth d' self' data')) d self stream size

/- Cls.FromString(data) for the class with index c -/
def value_from_string (fuel : Nat) (S : Schema) (depth : Nat) (c : Nat) (data : Bytes) : Py.Res Val :=
  match S[c]? with
  | Option.none => .raise .key
  | some d =>
    (class_from_string fuel S (fun d' self' data' => Py.Msg.toR (class_parse fuel S depth d' self' data')) d data).bind fun st =>
      .ok (st.toVal c)"""


def module_consts(tree):
    consts = {}
    for n in tree.body:  # module-level integer constants (WIRE_*, SIZE_DELIMITED = -1)
        if isinstance(n, ast.Assign) and len(n.targets) == 1 and isinstance(n.targets[0], ast.Name):
            v = n.value
            if isinstance(v, ast.Constant) and type(v.value) is int:
                consts[n.targets[0].id] = v.value
            elif isinstance(v, ast.UnaryOp) and isinstance(v.op, ast.USub) and isinstance(v.operand, ast.Constant) \
                    and type(v.operand.value) is int:
                consts[n.targets[0].id] = -v.operand.value
    return consts


def codec_sigs(tree):
    """signatures of the codec primitives extract_src.py translates (Gen/SrcCodec.lean) that the methods call"""
    sigs = {}
    for name in ("dump_varint", "load_varint", "load_fields"):
        fn = find_function(tree, name)
        defaults = [None] * (len(fn.args.args) - len(fn.args.defaults)) + list(fn.args.defaults)
        params, stream = [], None
        for a, d in zip(fn.args.args, defaults):
            t = ann_type(a.annotation)
            if t is None:
                raise Unsupported("parameter %s of %s" % (a.arg, name))
            if t == "stream":
                stream = a.arg
            params.append((a.arg, t, d))
        ret = ann_type(fn.returns)
        if ret is None:
            raise Unsupported("return annotation of " + name)
        sigs[name] = Sig(name, params, ret, stream)
    return sigs


def method_sig(tree, py):
    lean, side, params, ret, ret_anns = METHODS[py]
    fn = find_method(tree, "Message", py)
    a = fn.args
    if a.vararg or a.kwarg or a.kwonlyargs or a.posonlyargs:
        raise Unsupported("parameters of Message." + py)
    decos = [ast.unparse(x) for x in fn.decorator_list]
    if decos != (["classmethod"] if side == "cls" else []):
        raise Unsupported("decorators of Message.%s: %r" % (py, decos))
    names = [x.arg for x in a.args]
    if not names or names[0] != ("cls" if side == "cls" else "self") or len(names) - 1 != len(params):
        raise Unsupported("parameters of Message.%s: %r" % (py, names))
    defaults = [None] * (len(a.args) - len(a.defaults)) + list(a.defaults)
    out = []
    for arg, dflt, (_, ty, ann, want_default) in zip(a.args[1:], defaults[1:], params):
        got_ann = ast.unparse(arg.annotation).strip("\"'") if arg.annotation is not None else None
        if got_ann != ann:
            raise Unsupported("annotation of %s of Message.%s: %s" % (arg.arg, py, got_ann))
        if (ast.unparse(dflt) if dflt is not None else None) != want_default:
            raise Unsupported("default of %s of Message.%s" % (arg.arg, py))
        if arg.arg in ("self", "cls", "fs", "d", "S", "enc", "rec", "fuel", "records", "caller_stream"):
            raise Unsupported("parameter name " + arg.arg)
        out.append((arg.arg, ty, DEFAULTS[(ty, want_default)] if want_default is not None else None))
    got_ret = ast.unparse(fn.returns).strip("\"'") if fn.returns is not None else None
    if got_ret not in ret_anns:
        raise Unsupported("return annotation of Message.%s: %s" % (py, got_ret))
    return MSig(py, lean, side, out, ret), fn


def translate(path=SRC):
    # the loop bodies must be translated: the methods below call them
    extract_srcdump.translate(path)
    extract_srcload.translate(path)
    tree = ast.parse(open(path).read())
    consts = module_consts(tree)
    sigs = codec_sigs(tree)
    out = [include_default(tree)]
    methods = {}
    for py in ORDER:
        sg, fn = method_sig(tree, py)
        loops = {}
        if py in ("dump", "__len__"):
            lp, field_var, meta_var = field_loop(fn)      # the loop extract_srcdump.py takes the body from
            if py == "dump":
                carry, body_fn = [a.arg for a in fn.args.args][1], "dump_field"
            else:
                last = fn.body[-1]                        # same rule as extract_srcdump.translate
                if not (isinstance(last, ast.Return) and isinstance(last.value, ast.Name)):
                    raise Unsupported("Message.__len__ does not end in `return <variable>`")
                carry, body_fn = last.value.id, "len_field"
            loops["field"] = (lp, body_fn, carry, field_var, meta_var)
        elif any(isinstance(n, ast.For) and ast.unparse(n.iter) == LOOP_ITER for n in ast.walk(fn)):
            raise Unsupported("a field loop in Message." + py)
        if py == "load":
            lp, parsed_var, aliases = extract_srcload.record_loop(fn)
            loops["record"] = (lp, aliases)
        body = list(fn.body)
        if body and isinstance(body[0], ast.Expr) and isinstance(body[0].value, ast.Constant) and isinstance(body[0].value.value, str):
            body = body[1:]
        tr = TrMsg(sigs, sg, consts, dict(methods), loops)
        txt = tr.method_def(body)
        out.append("/- Message.%s  (src/betterproto/__init__.py, line %d) -/\n%s" % (py, fn.lineno, txt))
        methods[py] = sg
    out.append(KNOT)
    return out


HEADER = """import BpProofs.PyPreludeMsg
import BpProofs.Gen.SrcCodec
import BpProofs.Gen.SrcDump
import BpProofs.Gen.SrcLoad
/- GENERATED by harness/extract_srcmsg.py from the Python AST of src/betterproto/__init__.py -- do not edit.
   Each definition is the statement-by-statement translation of the named method of Message AROUND the loop bodies that
   extract_srcdump.py / extract_srcload.py translate (Src.dump_field, Src.len_field, Src.load_record), which the loops
   here call (`fs` / `d` = the class of `self`; `enc` = bytes(<nested Message>); `rec` = <nested Cls>().parse). -/
set_option linter.unusedVariables false
namespace Bp.Src
open Bp

"""


def render(path=SRC):
    try:
        defs = translate(path)
        return HEADER + "\n\n".join(defs) + "\n\nend Bp.Src\n", None
    except Unsupported as e:
        msg = "the source translator does not support the current source: %s" % e
        return HEADER + "/- TRANSLATION FAILED: %s -/\n\nend Bp.Src\n" % msg.replace("-/", "- /"), msg
    except (OSError, SyntaxError) as e:
        msg = "the source translator could not read the source: %r" % (e,)
        return HEADER + "/- TRANSLATION FAILED: %s -/\n\nend Bp.Src\n" % msg, msg
    except (AttributeError, KeyError, IndexError, TypeError, ValueError) as e:
        # an AST shape the translator was not written for: never translate silently wrong, never crash the run
        msg = "the source translator does not support the current source: unexpected shape (%r)" % (e,)
        return HEADER + "/- TRANSLATION FAILED: %s -/\n\nend Bp.Src\n" % msg.replace("-/", "- /"), msg


def main(write_if_changed, gen_dir):
    text, err = render()
    target = os.path.join(gen_dir, "..", "..", "BpProofs", "Gen", "SrcMsg.lean")
    changed = write_if_changed(os.path.normpath(target), text)
    if err:
        print("extract_srcmsg: " + err)
    return ["SrcMsg.lean"] if changed else []


if __name__ == "__main__":
    t, e = render()
    print(t)
    if e:
        print("ERROR:", e)
