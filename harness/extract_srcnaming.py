"""SOURCE TRANSLATOR (C19): src/betterproto/compile/naming.py -> Lean definitions.

On every run naming.py of the working tree is read with `ast` and its four functions

    pythonize_class_name, pythonize_field_name, pythonize_method_name, pythonize_enum_member_name

are translated statement by statement (with the statement / expression machinery of harness/extract_srccasing.py)
into pure Lean functions over `Str`:

  * `casing.X(e)` is a call of `Src.X`, the translation of casing.py's `X` in lean/BpProofs/Gen/SrcCasing.lean
    (at strict = True: the call must have exactly one positional argument and no keyword, so `strict` keeps the
    default `True` that extract_srccasing.py checks on the definition).  `casing` must be the module bound, once, by
    `from betterproto import casing`; casing.py itself is re-translated here so that an unsupported casing.py is
    reported for naming.py as well.
  * `x.upper()`, `x.find(sub)`, `x.strip(<str constant>)` are `Py.strUpper`, `Py.strFind`, `Py.strStrip` of
    lean/BpProofs/PyPreludeNaming.lean; `len(x)` is `Py.llen`, `x[a:]` is `Py.sliceFrom` (PyPreludeStr.lean);
    `a + b` on int, `a == b` / `a != b` on two int or two str.

Anything else -> Unsupported: the generated file then holds no definition and every tie theorem fails to compile.

Output: lean/BpProofs/Gen/SrcNaming.lean.  lean/BpProofs/SrcTieNaming.lean proves every translated function equal to
the model function of lean/BpModel/Naming.lean for all strings; lean/BpProofs/Props/C19SrcNaming.lean states that.
"""
import ast
import os

from extract_src import Unsupported
import extract_srccasing as casing_tr

REPO = os.environ.get("VERIF_REPO", "/repo")
SRC = os.path.join(REPO, "src", "betterproto", "compile", "naming.py")
CASING_SRC = os.path.join(REPO, "src", "betterproto", "casing.py")
REL = "src/betterproto/compile/naming.py"

ORDER = ["pythonize_class_name", "pythonize_field_name", "pythonize_method_name", "pythonize_enum_member_name"]
ARITY = {"pythonize_class_name": 1, "pythonize_field_name": 1, "pythonize_method_name": 1,
         "pythonize_enum_member_name": 2}
RESERVED = ("casing", "len")          # names that must keep their module-level / builtin meaning
LEAN_TY = casing_tr.LEAN_TY
# identifiers that cannot be used as they are for a Lean local
LEAN_WORDS = set("""at by do else end export extends fun from have if import in instance let match mut namespace of
open private protected section show structure then theorem universe variable where with deriving def abbrev example
inductive class axiom macro syntax notation prefix infix infixl infixr postfix set_option using calc return for
unless try catch finally nomatch nofun suffices obtain mutual partial unsafe noncomputable Type Sort Prop""".split())


def lean_name(x):
    return "«%s»" % x if x in LEAN_WORDS else x


class Module:
    """what `Ctx.block` needs of a module: `.consts`, `.funcs`; plus the checks on the module-level bindings"""

    def __init__(self, tree, casing_funcs):
        self.tree = tree
        self.consts = {}
        self.funcs = {n.name: n for n in tree.body if isinstance(n, ast.FunctionDef)}
        self.casing_funcs = casing_funcs
        self.strict_funcs = set()
        self.out = []
        for name in ORDER:
            if name not in self.funcs:
                raise Unsupported("no module-level function " + name)
        stores = {}
        for n in ast.walk(tree):
            if isinstance(n, ast.Name) and isinstance(n.ctx, (ast.Store, ast.Del)):
                stores[n.id] = stores.get(n.id, 0) + 1
            elif isinstance(n, (ast.FunctionDef, ast.ClassDef, ast.AsyncFunctionDef)):
                stores[n.name] = stores.get(n.name, 0) + 1
            elif isinstance(n, (ast.Import, ast.ImportFrom)):
                for a in n.names:
                    b = (a.asname or a.name).split(".")[0]
                    stores[b] = stores.get(b, 0) + 1
            elif isinstance(n, ast.arg):
                if n.arg in RESERVED:
                    raise Unsupported("a parameter is called " + n.arg)
            elif isinstance(n, (ast.Global, ast.Nonlocal)):
                raise Unsupported("global / nonlocal statement")
        ok = any(isinstance(n, ast.ImportFrom) and n.module == "betterproto" and n.level == 0
                 and any(a.name == "casing" and a.asname is None for a in n.names) for n in tree.body)
        if not ok or stores.get("casing") != 1:
            raise Unsupported("`casing` is not (only) the module bound by `from betterproto import casing`")
        if stores.get("len"):
            raise Unsupported("`len` is rebound")
        for name in ORDER:
            if stores.get(name) != 1:
                raise Unsupported("%s is bound more than once" % name)

    def function(self, name):
        fn = self.funcs[name]
        params, strict = casing_tr.Module.signature(self, fn, name)
        if strict or [t for _, t in params] != ["str"] * ARITY[name]:
            raise Unsupported("%s does not take %d str" % (name, ARITY[name]))
        for st in fn.body:
            if isinstance(st, (ast.FunctionDef, ast.AsyncFunctionDef, ast.ClassDef)):
                raise Unsupported("%s has a nested definition" % name)
        ctx = Ctx(self, name, False, {p: t for p, t in params})
        body = ctx.block(list(fn.body), dict(ctx.env), 1)
        head = "/- %s  (%s, line %d) -/\n" % (name, REL, fn.lineno)
        self.out.append(head + "def %s %s : Str :=\n%s" % (
            name, " ".join("(%s : %s)" % (lean_name(p), LEAN_TY[t]) for p, t in params), body))


class Ctx(casing_tr.Ctx):
    """statements and the basic expressions are extract_srccasing's; the calls are naming.py's own"""

    def block(self, stmts, env, depth):
        if stmts and isinstance(stmts[0], ast.Assign) and len(stmts[0].targets) == 1 \
                and isinstance(stmts[0].targets[0], ast.Name):
            x = stmts[0].targets[0].id
            if x in RESERVED:
                raise Unsupported("assignment to " + x)
            if x in LEAN_WORDS:      # same as the inherited clause, with the escaped name
                t, ty = self.expr(stmts[0].value, env)
                env = dict(env)
                env[x] = ty
                return "  " * depth + "let %s := %s\n" % (lean_name(x), t) + self.block(stmts[1:], env, depth)
        return super().block(stmts, env, depth)

    def expr(self, e, env):
        if isinstance(e, ast.Name) and e.id in env:
            return lean_name(e.id), env[e.id]
        if isinstance(e, ast.BinOp) and isinstance(e.op, ast.Add):
            a, ta = self.expr(e.left, env)
            b, tb = self.expr(e.right, env)
            if (ta, tb) == ("int", "int"):
                return "(%s + %s)" % (a, b), "int"
            if (ta, tb) == ("str", "str"):
                return "(%s ++ %s)" % (a, b), "str"
            raise Unsupported("operator + on %s, %s" % (ta, tb))
        if isinstance(e, ast.Compare):
            if len(e.ops) != 1 or not isinstance(e.ops[0], (ast.Eq, ast.NotEq)):
                raise Unsupported("comparison `%s`" % ast.unparse(e))
            a, ta = self.expr(e.left, env)
            b, tb = self.expr(e.comparators[0], env)
            if ta != tb or ta not in ("int", "str"):
                raise Unsupported("comparison of %s and %s" % (ta, tb))
            return "(%s %s %s)" % (a, "==" if isinstance(e.ops[0], ast.Eq) else "!=", b), "bool"
        return super().expr(e, env)

    def call(self, e, env):
        f = e.func
        if e.keywords or any(isinstance(a, ast.Starred) for a in e.args):
            raise Unsupported("call `%s`" % ast.unparse(e))
        # casing.X(e): the translated Src.X of Gen/SrcCasing.lean, at strict = True (the default)
        if isinstance(f, ast.Attribute) and isinstance(f.value, ast.Name) and f.value.id == "casing":
            if "casing" in env:
                raise Unsupported("casing is a local")
            if f.attr not in self.mod.casing_funcs:
                raise Unsupported("casing.%s is not a translated function of casing.py" % f.attr)
            if len(e.args) != 1:
                raise Unsupported("call `%s`" % ast.unparse(e))
            x, tx = self.expr(e.args[0], env)
            if tx != "str":
                raise Unsupported("argument of type %s in %s" % (tx, ast.unparse(e)))
            return "(%s %s)" % (f.attr, x), "str"
        if isinstance(f, ast.Name) and f.id == "len" and "len" not in env and len(e.args) == 1:
            x, tx = self.expr(e.args[0], env)
            if tx != "str":
                raise Unsupported("len of " + tx)
            return "(Py.llen %s)" % x, "int"
        if isinstance(f, ast.Attribute) and f.attr in ("upper", "find", "strip"):
            x, tx = self.expr(f.value, env)
            if tx != "str":
                raise Unsupported("method %s of %s" % (f.attr, tx))
            if f.attr == "upper" and not e.args:
                return "(Py.strUpper %s)" % x, "str"
            if f.attr == "find" and len(e.args) == 1:
                y, ty = self.expr(e.args[0], env)
                if ty != "str":
                    raise Unsupported("find of " + ty)
                return "(Py.strFind %s %s)" % (x, y), "int"
            if f.attr == "strip" and len(e.args) == 1 and isinstance(e.args[0], ast.Constant) \
                    and isinstance(e.args[0].value, str):
                return "(Py.strStrip %s %s)" % (x, casing_tr.lean_str(e.args[0].value)), "str"
        raise Unsupported("call `%s`" % ast.unparse(e))


def translate(path=SRC, casing_path=CASING_SRC):
    casing_tr.translate(casing_path)       # raises Unsupported when casing.py is not translated either
    tree = ast.parse(open(path).read())
    mod = Module(tree, set(casing_tr.ORDER))
    for name in ORDER:
        mod.function(name)
    return mod.out


HEADER = """import BpProofs.Gen.SrcCasing
import BpProofs.PyPreludeNaming
/- GENERATED by harness/extract_srcnaming.py from the Python AST of src/betterproto/compile/naming.py -- do not edit.
   Each definition is the statement-by-statement translation of the named function; `casing.X(e)` is the call of
   `Src.X` of BpProofs/Gen/SrcCasing.lean (the translation of casing.py's `X`, at strict = True). -/
set_option linter.unusedVariables false
namespace Bp.Src
open Bp
open Bp.Importing (Str)

"""


def render(path=SRC, casing_path=CASING_SRC):
    try:
        defs = translate(path, casing_path)
        return HEADER + "\n\n".join(defs) + "\n\nend Bp.Src\n", None
    except Unsupported as e:
        msg = "the source translator does not support the current source: %s" % e
        return HEADER + "/- TRANSLATION FAILED: %s -/\n\nend Bp.Src\n" % msg.replace("-/", "- /"), msg
    except (OSError, SyntaxError) as e:
        msg = "the source translator could not read the source: %r" % (e,)
        return HEADER + "/- TRANSLATION FAILED: %s -/\n\nend Bp.Src\n" % msg.replace("-/", "- /"), msg


def main(write_if_changed, gen_dir):
    text, err = render()
    target = os.path.join(gen_dir, "..", "..", "BpProofs", "Gen", "SrcNaming.lean")
    changed = write_if_changed(os.path.normpath(target), text)
    if err:
        print("extract_srcnaming: " + err)
    return ["SrcNaming.lean"] if changed else []


if __name__ == "__main__":
    t, e = render()
    print(t)
    if e:
        print("ERROR:", e)
