"""SOURCE TRANSLATOR, the small methods of the object state machine (properties C07 / C06 / C14 / C01): Python AST of

    Message.__setattr__, Message.__getattribute__, which_one_of, Message._include_default_value_for_oneof   -> Gen/SrcObj.lean
    Message.__bool__, serialized_on_wire, Message.is_set, Message.__eq__                                    -> Gen/SrcObjObs.lean
    Message.__copy_state_to                                                                                 -> Gen/SrcObjCopy.lean

of /repo/src/betterproto/__init__.py -> one Lean definition per method, over the vocabulary of
lean/BpProofs/PyPreludeObj.lean (which fixes what the object-level operations mean on the model's `MState`).
lean/BpProofs/SrcTieObj*.lean prove each definition EQUAL to the model function (`setAttr`, `getAttr`, `selectedInGroup`,
`slotsEqFresh`, `isSet`, `slotsEq` / `msgEq`, `shallowCopy` / `deepCopy`); lean/BpProofs/Props/C07Src*.lean state that.

Same scheme as extract_src.py / extract_srcdump.py (whose translators `Tr` / `TrDyn` are subclassed): statement by
statement, anything outside the subset raises Unsupported FOR THAT METHOD (its definition is replaced by a comment, the tie
of its file no longer checks).  Interface of the translated methods (`S`: schema, `fs`: the fields of the class):

    Src.setattr S fs self attr value                 : Py.Res MState                       -- self afterwards
    Src.getattribute S fs self name                  : Py.Res (Val × MState)               -- value, self afterwards
    Src.which_one_of S fs message group_name         : Py.Res ((Option Nat × Val) × MState)
    Src.include_default_value_for_oneof S fs self field_name meta : Py.Res Bool
    Src.msg_bool S fs self / Src.serialized_on_wire S fs message / Src.is_set S fs self name : Py.Res Bool
    Src.msg_eq S fs ne sameType self other           : Py.Res Py.EqRes
         ne        the oracle for `a != b` on two field values (only `ne a b = false → _equal_or_both_nan(a, b)` is assumed)
         sameType  `type(self) is type(other)`
    Src.copy_state_to S fs self clone dup            : Py.Res MState                       -- clone afterwards

A method that is declared an OBSERVER (no state in its result) and contains a write to an object is Unsupported.

Constructs added to those of Tr / TrDyn (types: self = a Message instance of the class, name = a field name, val, meta,
field = a dataclasses.Field, group, optgroup / optname = Optional group / name):
  reads   `super().__getattribute__(n)`, `x.__raw_get(n)`, `x._serialized_on_wire`, `x._unknown_fields`, `x._group_current`,
          `x._group_current.get(g)`, `<group_current>[g]`, `x._betterproto.oneof_group_by_field.get(n)` / `[n]` / `n in …`,
          `x._betterproto.oneof_field_by_group[g]`, `x._betterproto.meta_by_field_name[n]`, `field.name`, `meta.group`,
          `meta.optional`, `x._get_field_default(n)`, `hasattr(x, "_group_current")`, `hasattr(v, "_betterproto")`,
          `v._betterproto.meta_by_field_name` (truth value), `isinstance(v, Message)`, `v is [not] PLACEHOLDER / None /
          <PLACEHOLDER-or-None variable>`, `n == n'`, `n != "<attr>"`, `n not in {"<attr>", …}`, `<optname> == n`,
          `a != b` on values (the oracle), `_equal_or_both_nan(a, b)` (intrinsic, parameter list checked),
          `v not in (PLACEHOLDER, x._get_field_default(n))`, `type(self) is not type(other)`, `sys.version_info < (a, b)`,
          `dup(v)`, `dict(x._group_current)`, `getattr(x, n)` (= the translated __getattribute__), `bool(x)` (= the
          translated __bool__), `any(<cond> for n in x._betterproto.meta_by_field_name)`;
  narrowing `E is not None and …`, `if not <optname>: … return`, `if <opt> is [not] None:`, `if <opt> is not None and …:`
          (a `match` on the Option);
  writes  `super().__setattr__(n, v)`, `x.__dict__[n] = v`, `x.__dict__["_serialized_on_wire" | "_unknown_fields" |
          "_group_current"] = …` (the latter only with a fresh dict: storing a reference to another object's dict is
          aliasing, Unsupported), `x._group_current[g] = n`, `v._serialized_on_wire = <bool>`;
  control `try: gc = super().__getattribute__("_group_current") / except AttributeError: … / else: …`; `if` whose
          branches neither return, raise nor continue joins its effects (no duplication of what follows); `for f in
          oneof_field_by_group[g]` / `for n in meta_by_field_name` / `for n in sorted_field_names` as structural recursion
          over the list (with `continue`, and `return` through Py.Ctl); `raise AttributeError(...)`; `return NotImplemented`.
"""
import ast
import os
import re

from extract_src import SRC, Sig, Tr, Unsupported, indent, nm
from extract_srcdump import TrDyn, PTYPE_CTOR

LEAN_TY = {"int": "Int", "bytes": "Bytes", "bool": "Bool", "none": "Unit", "val": "Val", "singleton": "Val", "self": "MState",
           "name": "Nat", "group": "Nat", "optgroup": "(Option Nat)", "optname": "(Option Nat)", "meta": "FieldD",
           "field": "(Nat × FieldD)", "gcur": "(List (Option Nat))", "gcurref": "(List (Option Nat))", "dupfn": "(Val → Val)",
           "eqres": "Py.EqRes", "members": "(List (Nat × FieldD))", "names": "(List Nat)", "retobj": "MState"}
VALS = ("val", "singleton")
OPTS = {"optgroup": "group", "optname": "name"}
ATTR_STRS = ("_serialized_on_wire", "__class__", "_betterproto")      # Py.nameIsStr is emitted for these only
FORBIDDEN_NAMES = {"S", "fs", "ne", "sameType", "fuel", "items'"}
EQ_NAN_PARAMS = ["a", "b"]


def lty(t):
    if isinstance(t, tuple):
        return "(" + " × ".join(lty(x) for x in t) + ")"
    if t not in LEAN_TY:
        raise Unsupported("no Lean type for " + str(t))
    return LEAN_TY[t]


class ObjSig(Sig):
    def lean_ret(self):
        if self.stream is None:
            return lty(self.ret)
        if self.ret in ("none", "retobj"):
            return "MState"
        return "(%s × MState)" % lty(self.ret)


def is_name(e, ident=None):
    return isinstance(e, ast.Name) and (ident is None or e.id == ident)


def has_control(stmts):
    return any(isinstance(x, (ast.Return, ast.Raise, ast.Continue, ast.Break)) for s in stmts for x in ast.walk(s))


class TrObj(TrDyn):
    def __init__(self, sig, consts, ptypes, callees, selfvar, fixed, eq_nan_ok, ne_ok=False, same_type=False):
        TrDyn.__init__(self, sig, consts, ptypes, None, None, None, set())
        self.callees = callees      # {"getattr": ObjSig of the translated __getattribute__, "bool": … of __bool__}
        self.selfvar = selfvar      # the method's own first parameter (what `super()` refers to); None for a function
        self.fixed = fixed          # [(lean name, lean type)] parameters every definition of this method takes first
        self.eq_nan_ok, self.ne_ok, self.same_type = eq_nan_ok, ne_ok, same_type
        self.narrow = {}            # source text of an Optional expression -> (Lean variable holding its content, type)

    # ------------------------------------------------------------------------------------------------ helpers
    def fixed_sig(self):
        return " ".join("(%s : %s)" % p for p in self.fixed)

    def fixed_args(self):
        return " ".join(p for p, _ in self.fixed)

    def obj(self, e, env):
        """a variable holding a Message instance of the class -> its Lean name"""
        if is_name(e) and env.get(e.id) == "self":
            return nm(e.id)
        raise Unsupported("expected a Message instance variable, got " + ast.unparse(e))

    def is_obj(self, e, env):
        return is_name(e) and env.get(e.id) == "self"

    def is_super(self, e):
        return isinstance(e, ast.Call) and is_name(e.func, "super") and not e.args and not e.keywords

    def super_obj(self, env):
        if self.selfvar is None or env.get(self.selfvar) != "self":
            raise Unsupported("super() outside a method of Message")
        return nm(self.selfvar)

    def mutable(self, x):
        if self.sig.stream is None or nm(self.sig.stream) != x:
            raise Unsupported("write to the object `%s`, whose state is not part of the result of %s (an observer)" % (x, self.sig.name))
        return x

    def pure(self, e, env, want):
        b, t, ty = self.expr(e, env)
        if b or ty != want:
            raise Unsupported("expected a pure %s, got %s of type %s" % (want, ast.unparse(e), ty))
        return t

    def val_operand(self, e, env):
        b, t = self.as_val(e, env)
        if b:
            raise Unsupported("expected a pure value operand: " + ast.unparse(e))
        return t

    def as_val(self, e, env):
        if isinstance(e, ast.Constant) and e.value is None:
            return [], "Val.none"
        b, t, ty = self.expr(e, env)
        if ty not in VALS:
            raise Unsupported("expected a field value, got %s of type %s" % (ast.unparse(e), ty))
        return b, t

    def betterproto_attr(self, e, env):
        """`x._betterproto.<attr>` for a Message instance variable x -> attr, else None"""
        if isinstance(e, ast.Attribute) and isinstance(e.value, ast.Attribute) and e.value.attr == "_betterproto" \
                and self.is_obj(e.value.value, env):
            return e.attr
        return None

    def truthy(self, text, ty):
        if ty in OPTS:
            return "(%s).isSome" % text
        if ty == "valfields":
            return "(!(%s).isEmpty)" % text
        if ty in ("group", "optgroup"):
            raise Unsupported("truth value of " + ty)
        return super().truthy(text, ty)

    # ------------------------------------------------------------------------------------------------ expressions
    def expr(self, e, env):
        key = ast.unparse(e)
        if key in self.narrow:
            return [], self.narrow[key][0], self.narrow[key][1]
        if is_name(e) and e.id not in env and e.id == "PLACEHOLDER":
            return [], "Val.ph", "singleton"
        if isinstance(e, ast.Attribute):
            return self.attribute(e, env)
        if isinstance(e, ast.Subscript):
            return self.subscript(e, env)
        if isinstance(e, ast.Compare):
            return self.compare(e, env)
        if isinstance(e, ast.BoolOp):
            return self.bool_chain(list(e.values), env, isinstance(e.op, ast.And))
        if isinstance(e, ast.IfExp):
            bc, c, tc = self.expr(e.test, env)
            try:
                b1, a = self.as_val(e.body, env)
                b2, b = self.as_val(e.orelse, env)
            except Unsupported:
                return super().expr(e, env)
            if b1 or b2:
                raise Unsupported("conditional expression with effects")

            def single(x):
                return (isinstance(x, ast.Constant) and x.value is None) or (is_name(x, "PLACEHOLDER") and "PLACEHOLDER" not in env) \
                    or (is_name(x) and env.get(x.id) == "singleton")
            return bc, "(if %s then %s else %s)" % (self.truthy(c, tc), a, b), "singleton" if single(e.body) and single(e.orelse) else "val"
        return super().expr(e, env)

    def attribute(self, e, env):
        bp = self.betterproto_attr(e, env)
        if bp is not None:
            if bp in ("meta_by_field_name", "oneof_group_by_field", "oneof_field_by_group"):
                return [], "fs", "bp." + bp
            if bp == "sorted_field_names":
                return [], "(Py.sortedFieldNames fs)", "names"
            raise Unsupported("attribute " + ast.unparse(e))
        if isinstance(e.value, ast.Attribute) and e.value.attr == "_betterproto" and e.attr == "meta_by_field_name":
            v = self.val_operand(e.value.value, env)
            return [], "(Py.valFields S %s)" % v, "valfields"
        if self.is_obj(e.value, env):
            x = nm(e.value.id)
            table = {"_serialized_on_wire": ("(Py.getOnWire %s)", "bool"), "_unknown_fields": ("(Py.getUnknown %s)", "bytes"),
                     "_group_current": ("(Py.getGroupCurrent %s)", "gcurref")}
            if e.attr in table:
                return [], table[e.attr][0] % x, table[e.attr][1]
            raise Unsupported("attribute " + ast.unparse(e))
        if is_name(e.value) and env.get(e.value.id) == "field" and e.attr == "name":
            return [], "(Py.fieldName %s)" % nm(e.value.id), "name"
        if e.attr in ("group", "optional") and isinstance(e.value, (ast.Name, ast.Subscript)):
            b, m, ty = self.expr(e.value, env)
            if ty == "meta":
                return (b, "(Py.metaGroup %s)" % m, "optgroup") if e.attr == "group" else (b, "(Py.metaOptional %s)" % m, "bool")
        raise Unsupported("attribute " + ast.unparse(e))

    def subscript(self, e, env):
        b, t, ty = self.expr(e.value, env)
        if b:
            raise Unsupported("subscript of an effectful expression: " + ast.unparse(e))
        if ty == "bp.oneof_group_by_field":
            n = self.pure(e.slice, env, "name")
            r = self.tmp()
            return [("bind", r, "Py.lookup (Py.oneofGroupByField fs %s)" % n)], r, "group"
        if ty == "bp.oneof_field_by_group":
            g = self.pure(e.slice, env, "group")
            return [], "(Py.oneofFieldByGroup fs %s)" % g, "members"
        if ty == "bp.meta_by_field_name":
            n = self.pure(e.slice, env, "name")
            r = self.tmp()
            return [("bind", r, "Py.metaByFieldName fs %s" % n)], r, "meta"
        if ty in ("gcur", "gcurref"):
            g = self.pure(e.slice, env, "group")
            r = self.tmp()
            return [("bind", r, "Py.groupCurrentIndex %s %s" % (t, g))], r, "optname"
        raise Unsupported("subscript " + ast.unparse(e))

    def compare(self, e, env):
        if len(e.ops) != 1:
            raise Unsupported("chained comparison " + ast.unparse(e))
        op, left, right = e.ops[0], e.left, e.comparators[0]

        def neg(txt, negate):
            return "(!%s)" % txt if negate else txt
        if isinstance(op, (ast.Is, ast.IsNot)):
            negate = isinstance(op, ast.IsNot)

            def type_of(x):
                return isinstance(x, ast.Call) and is_name(x.func, "type") and "type" not in env and len(x.args) == 1 \
                    and not x.keywords and self.is_obj(x.args[0], env)
            if type_of(left) and type_of(right):
                if not self.same_type or {left.args[0].id, right.args[0].id} != set(self.same_type):
                    raise Unsupported("type comparison " + ast.unparse(e))
                return [], neg("sameType", negate), "bool"
            if is_name(right, "PLACEHOLDER") and "PLACEHOLDER" not in env:
                return [], neg("(Py.isPlaceholder %s)" % self.val_operand(left, env), negate), "bool"
            if isinstance(right, ast.Constant) and right.value is None:
                b, t, ty = self.expr(left, env)
                if b:
                    raise Unsupported("identity test on an effectful expression")
                if ty in OPTS:
                    return [], neg("(%s).isNone" % t, negate), "bool"
                if ty in VALS:
                    return [], neg("(Py.isNone %s)" % t, negate), "bool"
                raise Unsupported("identity test " + ast.unparse(e))
            b, t, ty = self.expr(right, env)
            if not b and ty == "singleton":
                return [], neg("(Py.isSame %s %s)" % (self.val_operand(left, env), t), negate), "bool"
            raise Unsupported("identity test " + ast.unparse(e))
        if isinstance(op, (ast.Eq, ast.NotEq)):
            negate = isinstance(op, ast.NotEq)
            if isinstance(right, ast.Constant) and isinstance(right.value, str):
                n = self.pure(left, env, "name")
                if right.value not in ATTR_STRS:
                    raise Unsupported("comparison of a field name with the string %r" % right.value)
                return [], neg('(Py.nameIsStr %s "%s")' % (n, right.value), negate), "bool"
            if isinstance(left, ast.Attribute) and ast.unparse(left) == "sys.version_info":
                raise Unsupported("comparison " + ast.unparse(e))
            b1, a, ta = self.expr(left, env)
            b2, b, tb = self.expr(right, env)
            if (ta, tb) == ("name", "name"):
                return b1 + b2, neg("(%s == %s)" % (a, b), negate), "bool"
            if (ta, tb) == ("optname", "name"):
                return b1 + b2, neg("(%s == some %s)" % (a, b), negate), "bool"
            if (ta, tb) == ("name", "optname"):
                return b1 + b2, neg("(some %s == %s)" % (a, b), negate), "bool"
            if ta in VALS and tb in VALS and negate and self.ne_ok and not b1 and not b2:
                return [], "(ne %s %s)" % (a, b), "bool"
            raise Unsupported("comparison %s on %s, %s" % (ast.unparse(e), ta, tb))
        if isinstance(op, ast.Lt) and ast.unparse(left) == "sys.version_info" and "sys" not in env and isinstance(right, ast.Tuple) \
                and len(right.elts) == 2 and all(isinstance(x, ast.Constant) and type(x.value) is int and x.value >= 0 for x in right.elts):
            return [], "(Py.sysVersionInfoLt %d %d)" % (right.elts[0].value, right.elts[1].value), "bool"
        if isinstance(op, (ast.In, ast.NotIn)):
            negate = isinstance(op, ast.NotIn)
            if isinstance(right, (ast.Set, ast.Tuple)) and right.elts and all(isinstance(x, ast.Constant) and isinstance(x.value, str) for x in right.elts):
                n = self.pure(left, env, "name")
                if any(x.value not in ATTR_STRS for x in right.elts):
                    raise Unsupported("membership of a field name in " + ast.unparse(right))
                return [], neg("(" + " || ".join('Py.nameIsStr %s "%s"' % (n, x.value) for x in right.elts) + ")", negate), "bool"
            if isinstance(right, ast.Tuple) and len(right.elts) == 2 and is_name(right.elts[0], "PLACEHOLDER") and "PLACEHOLDER" not in env:
                d = right.elts[1]
                if isinstance(d, ast.Call) and isinstance(d.func, ast.Attribute) and d.func.attr == "_get_field_default" \
                        and self.is_obj(d.func.value, env) and len(d.args) == 1 and not d.keywords:
                    v = self.val_operand(left, env)
                    n = self.pure(d.args[0], env, "name")
                    r = self.tmp()
                    return [("bind", r, "Py.eqFieldDefaultOf S fs %s %s" % (n, v))], neg("(Py.isPlaceholder %s || %s)" % (v, r), negate), "bool"
            b2, t2, ty2 = self.expr(right, env)
            if ty2 == "bp.oneof_group_by_field" and not b2:
                n = self.pure(left, env, "name")
                return [], neg("(Py.oneofGroupByField fs %s).isSome" % n, negate), "bool"
            raise Unsupported("membership test " + ast.unparse(e))
        raise Unsupported("comparison " + ast.unparse(e))

    def narrowing(self, e, env):
        """`E is not None` / `E` with E a pure Optional expression -> (source text of E, Lean text, content type) or None"""
        if isinstance(e, ast.Compare) and len(e.ops) == 1 and isinstance(e.ops[0], ast.IsNot) \
                and isinstance(e.comparators[0], ast.Constant) and e.comparators[0].value is None:
            inner = e.left
        else:
            inner = e
        if isinstance(inner, (ast.BoolOp, ast.Compare, ast.Call, ast.Constant)):
            return None
        try:
            snap = self.ntmp
            b, t, ty = self.expr(inner, env)
        except Unsupported:
            return None
        if b or ty not in OPTS:
            self.ntmp = snap
            return None
        return ast.unparse(inner), t, OPTS[ty]

    def bool_chain(self, vals, env, is_and):
        """short-circuit and / or over operands with a truth value -> (binds, text, "bool")"""
        first, rest = vals[0], vals[1:]
        if not rest:
            b, t, ty = self.expr(first, env)
            return b, self.truthy(t, ty), "bool"
        nar = self.narrowing(first, env) if is_and else None
        if nar is not None:
            src, t, cty = nar
            inner_e = first.left if isinstance(first, ast.Compare) else first
            var = nm(inner_e.id) if is_name(inner_e) else "n%d" % (len(self.narrow) + 1)
            saved = dict(self.narrow)
            self.narrow[src] = (var, cty)
            try:
                bi, ti, _ = self.bool_chain(rest, env, is_and)
            finally:
                self.narrow = saved
            if not bi:
                return [], "(match %s with\n  | Option.some %s => %s\n  | Option.none => false)" % (t, var, ti), "bool"
            r = self.tmp()
            inner = self.wrap(bi, ".ok %s" % ti)
            return [("bind", r, "((match %s with\n  | Option.some %s =>\n%s\n  | Option.none => .ok false) : Py.Res Bool)" % (t, var, indent(inner, 4)))], r, "bool"
        b1, t1, ty1 = self.expr(first, env)
        c1 = self.truthy(t1, ty1)
        bi, ti, _ = self.bool_chain(rest, env, is_and)
        if not bi:
            return b1, "(%s %s %s)" % (c1, "&&" if is_and else "||", ti), "bool"
        r = self.tmp()
        inner = self.wrap(bi, ".ok %s" % ti)
        if is_and:
            txt = "((if %s then\n%s\nelse .ok false) : Py.Res Bool)" % (c1, indent(inner))
        else:
            txt = "((if %s then .ok true else\n%s) : Py.Res Bool)" % (c1, indent(inner))
        return b1 + [("bind", r, txt)], r, "bool"

    def call(self, e, env):
        f = e.func
        plain = not e.keywords
        if isinstance(f, ast.Attribute):
            # super().__getattribute__(name)
            if self.is_super(f.value) and f.attr == "__getattribute__" and plain and len(e.args) == 1:
                n = self.pure(e.args[0], env, "name")
                return [], "(Py.rawGet %s %s)" % (self.super_obj(env), n), "val"
            if self.is_obj(f.value, env) and plain:
                x = nm(f.value.id)
                if f.attr == "__raw_get" and len(e.args) == 1:
                    return [], "(Py.rawGet %s %s)" % (x, self.pure(e.args[0], env, "name")), "val"
                if f.attr == "_get_field_default" and len(e.args) == 1:
                    r = self.tmp()
                    return [("bind", r, "Py.getFieldDefault S fs %s" % self.pure(e.args[0], env, "name"))], r, "val"
            if f.attr == "get" and plain and len(e.args) == 1:
                b, t, ty = self.expr(f.value, env)
                if not b and ty == "bp.oneof_group_by_field":
                    return [], "(Py.oneofGroupByField fs %s)" % self.pure(e.args[0], env, "name"), "optgroup"
                if not b and ty in ("gcur", "gcurref"):
                    return [], "(Py.groupCurrentGet %s %s)" % (t, self.pure(e.args[0], env, "group")), "optname"
            raise Unsupported("method call " + ast.unparse(e))
        if is_name(f) and f.id in env:
            if env[f.id] == "dupfn" and plain and len(e.args) == 1:
                b, v = self.as_val(e.args[0], env)
                return b, "(%s %s)" % (nm(f.id), v), "val"
            raise Unsupported("call of the variable " + f.id)
        if is_name(f) and plain:
            if f.id == "hasattr" and len(e.args) == 2 and isinstance(e.args[1], ast.Constant):
                if e.args[1].value == "_group_current" and self.is_obj(e.args[0], env):
                    return [], "(Py.hasGroupCurrent %s)" % nm(e.args[0].id), "bool"
                if e.args[1].value == "_betterproto":
                    return [], "(Py.hasBetterproto %s)" % self.val_operand(e.args[0], env), "bool"
                raise Unsupported("call " + ast.unparse(e))
            if f.id == "isinstance" and len(e.args) == 2 and is_name(e.args[1], "Message"):
                return [], "(Py.isMessage %s)" % self.val_operand(e.args[0], env), "bool"
            if f.id == "dict" and len(e.args) == 1:
                b, t, ty = self.expr(e.args[0], env)
                if not b and ty in ("gcur", "gcurref"):
                    return [], "(Py.dictCopy %s)" % t, "gcur"
                raise Unsupported("call " + ast.unparse(e))
            if f.id == "_equal_or_both_nan" and len(e.args) == 2:
                if not self.eq_nan_ok:
                    raise Unsupported("the parameter list of _equal_or_both_nan is not the expected one")
                return [], "(Py.equalOrBothNan S %s %s)" % (self.val_operand(e.args[0], env), self.val_operand(e.args[1], env)), "bool"
            if f.id == "getattr" and len(e.args) == 2 and self.is_obj(e.args[0], env):
                if "getattr" not in self.callees:
                    raise Unsupported("getattr(): Message.__getattribute__ is not translated")
                x = self.mutable(nm(e.args[0].id))
                n = self.pure(e.args[1], env, "name")
                r = self.tmp()
                return [("bind", "(%s, %s)" % (r, x), "%s S fs %s %s" % (self.callees["getattr"].name, x, n))], r, "val"
            if f.id == "bool" and len(e.args) == 1 and self.is_obj(e.args[0], env):
                if "bool" not in self.callees:
                    raise Unsupported("bool(): Message.__bool__ is not translated")
                r = self.tmp()
                return [("bind", r, "%s S fs %s" % (self.callees["bool"].name, nm(e.args[0].id)))], r, "bool"
            if f.id == "any" and len(e.args) == 1 and isinstance(e.args[0], ast.GeneratorExp):
                return self.any_gen(e.args[0], env)
            raise Unsupported("call " + ast.unparse(e))
        raise Unsupported("call " + ast.unparse(e))

    def sequence(self, it, env):
        """what a loop / generator iterates over -> (Lean list, Lean element type, element type)"""
        b, t, ty = self.expr(it, env)
        if b:
            raise Unsupported("iteration over an effectful expression")
        if ty == "members":
            return t, "(Nat × FieldD)", "field"
        if ty == "bp.meta_by_field_name":
            return "(Py.fieldNames fs)", "Nat", "name"
        if ty == "names":
            return t, "Nat", "name"
        raise Unsupported("iteration over " + ast.unparse(it))

    def any_gen(self, g, env):
        if len(g.generators) != 1:
            raise Unsupported("generator expression " + ast.unparse(g))
        c = g.generators[0]
        if c.ifs or c.is_async or not is_name(c.target) or c.target.id in env:
            raise Unsupported("generator expression " + ast.unparse(g))
        seq, ety, elty = self.sequence(c.iter, env)
        benv = dict(env)
        benv[c.target.id] = elty
        bc, tc, ty = self.expr(g.elt, benv)
        self.nloop += 1
        lname = "%s.any%d" % (self.sig.name, self.nloop)
        used = self.used([ast.Expr(value=g.elt)])
        ro = [v for v in env if v in used and env[v] in LEAN_TY]
        roargs = "".join(" " + nm(v) for v in ro)
        body = self.wrap(bc, "if %s then .ok true else %s %s%s items'" % (self.truthy(tc, ty), lname, self.fixed_args(), roargs))
        d = "def %s %s%s : List %s → Py.Res Bool\n  | [] => .ok false\n  | %s :: items' =>\n%s" % (
            lname, self.fixed_sig(), "".join(" (%s : %s)" % (nm(v), lty(env[v])) for v in ro), ety, nm(c.target.id), indent(body, 4))
        self.aux.append(d)
        r = self.tmp()
        return [("bind", r, "%s %s%s %s" % (lname, self.fixed_args(), roargs, seq))], r, "bool"

    # ------------------------------------------------------------------------------------------------ statements
    def written(self, st, env):
        """the write statement `st` performs, as (object variable, Lean text of its new value, binds) or None"""
        if isinstance(st, ast.Assign) and len(st.targets) == 1:
            tgt = st.targets[0]
            # x.__dict__[key] = value
            if isinstance(tgt, ast.Subscript) and isinstance(tgt.value, ast.Attribute) and tgt.value.attr == "__dict__" \
                    and self.is_obj(tgt.value.value, env):
                x = self.mutable(nm(tgt.value.value.id))
                k = tgt.slice
                if isinstance(k, ast.Constant):
                    b, t, ty = self.expr(st.value, env)
                    if k.value == "_serialized_on_wire" and ty == "bool":
                        return x, "Py.setOnWire %s %s" % (x, t), b
                    if k.value == "_unknown_fields" and ty == "bytes":
                        return x, "Py.setUnknown %s %s" % (x, t), b
                    if k.value == "_group_current" and ty == "gcur":
                        return x, "Py.setGroupCurrent %s %s" % (x, t), b
                    if k.value == "_group_current" and ty == "gcurref":
                        raise Unsupported("`%s` stores a reference to the _group_current dict of another object (aliasing)" % ast.unparse(st))
                    raise Unsupported("write " + ast.unparse(st))
                n = self.pure(k, env, "name")
                b, v = self.as_val(st.value, env)
                return x, "Py.rawSet %s %s %s" % (x, n, v), b
            # x._group_current[group] = name
            if isinstance(tgt, ast.Subscript) and isinstance(tgt.value, ast.Attribute) and tgt.value.attr == "_group_current" \
                    and self.is_obj(tgt.value.value, env):
                x = self.mutable(nm(tgt.value.value.id))
                g = self.pure(tgt.slice, env, "group")
                b, t, ty = self.expr(st.value, env)
                if ty != "name":
                    raise Unsupported("write " + ast.unparse(st))
                return x, "Py.groupCurrentSet %s %s %s" % (x, g, t), b
            # v._serialized_on_wire = <bool>   (v a field value)
            if isinstance(tgt, ast.Attribute) and tgt.attr == "_serialized_on_wire" and is_name(tgt.value) and env.get(tgt.value.id) == "val":
                b, t, ty = self.expr(st.value, env)
                if ty != "bool":
                    raise Unsupported("write " + ast.unparse(st))
                v = nm(tgt.value.id)
                return v, "Py.valSetOnWire %s %s" % (v, t), b
            if not isinstance(tgt, (ast.Name, ast.Tuple)):
                raise Unsupported("write " + ast.unparse(st))
        if isinstance(st, ast.Expr) and isinstance(st.value, ast.Call):
            c = st.value
            if isinstance(c.func, ast.Attribute) and self.is_super(c.func.value) and c.func.attr == "__setattr__":
                if c.keywords or len(c.args) != 2:
                    raise Unsupported("write " + ast.unparse(st))
                x = self.mutable(self.super_obj(env))
                n = self.pure(c.args[0], env, "name")
                b, v = self.as_val(c.args[1], env)
                return x, "Py.rawSet %s %s %s" % (x, n, v), b
        return None

    def assigned(self, stmts, env):
        names = set()
        for st in stmts:
            for n in ast.walk(st):
                if isinstance(n, (ast.Assign, ast.AugAssign, ast.AnnAssign)):
                    for t in (n.targets if isinstance(n, ast.Assign) else [n.target]):
                        for x in (t.elts if isinstance(t, ast.Tuple) else [t]):
                            while isinstance(x, (ast.Subscript, ast.Attribute)):
                                x = x.value      # the object written to: `x.__dict__[k] = …`, `x._group_current[g] = …`, `v.attr = …`
                            if is_name(x):
                                names.add(x.id)
                            else:
                                raise Unsupported("assignment target " + ast.unparse(t))
                elif isinstance(n, ast.For):
                    for x in ast.walk(n.target):
                        if is_name(x):
                            names.add(x.id)
                elif isinstance(n, ast.Call):
                    if isinstance(n.func, ast.Attribute) and self.is_super(n.func.value) and n.func.attr == "__setattr__" and self.selfvar:
                        names.add(self.selfvar)
                    if is_name(n.func, "getattr") and n.args and is_name(n.args[0]):
                        names.add(n.args[0].id)
                elif isinstance(n, (ast.NamedExpr, ast.Delete, ast.With, ast.Global, ast.Nonlocal, ast.Lambda, ast.FunctionDef)):
                    raise Unsupported("statement / expression " + type(n).__name__)
        return [v for v in env if v in names]

    def tup(self, vs):
        return "(" + ", ".join(nm(v) for v in vs) + ")" if len(vs) != 1 else nm(vs[0])      # "()" for no variable

    def coerce(self, e, want, env):
        if want in VALS:
            return self.as_val(e, env)
        if want == "optname":
            if isinstance(e, ast.Constant) and e.value == "" and isinstance(e.value, str):
                return [], "Py.noName"
            b, t, ty = self.expr(e, env)
            if ty == "name":
                return b, "(some %s)" % t
            if ty == "optname":
                return b, t
            raise Unsupported("expected a field name or '', got " + ast.unparse(e))
        if want == "eqres":
            if is_name(e, "NotImplemented") and "NotImplemented" not in env:
                return [], "Py.EqRes.notImplemented"
            b, t, ty = self.expr(e, env)
            if ty == "bool":
                return b, "(Py.EqRes.bool %s)" % t
            raise Unsupported("expected a bool or NotImplemented, got " + ast.unparse(e))
        b, t, ty = self.expr(e, env)
        if ty != want:
            raise Unsupported("return type %s, declared %s" % (ty, want))
        return b, t

    def ret_text(self, val, env, in_loop):
        sg = self.sig
        if sg.stream is None:
            r = val if val is not None else "()"
        elif sg.ret in ("none", "retobj"):
            r = nm(sg.stream)
        else:
            r = "(%s, %s)" % (val, nm(sg.stream))
        return ".ok (.ret %s)" % r if in_loop else ".ok %s" % r

    def block(self, stmts, env, k, in_loop):
        if not stmts:
            return k(env)
        st, rest = stmts[0], stmts[1:]
        env = dict(env)

        def go(env2):
            return self.block(rest, env2, k, in_loop)
        if isinstance(st, ast.Continue):
            if not in_loop:
                raise Unsupported("continue outside a loop")
            return k(env)
        if isinstance(st, ast.Break):
            raise Unsupported("break")
        if isinstance(st, ast.Return):
            ret = self.sig.ret
            if st.value is None or ret == "none":
                if ret != "none" or (st.value is not None and not (isinstance(st.value, ast.Constant) and st.value.value is None)):
                    raise Unsupported("return " + (ast.unparse(st.value) if st.value else "") + " in a function declared to return " + str(ret))
                return self.ret_text(None, env, in_loop)
            if ret == "retobj":
                if not (is_name(st.value) and st.value.id == self.sig.stream and env.get(st.value.id) == "self"):
                    raise Unsupported("return of something else than the object `%s`" % self.sig.stream)
                return self.ret_text(None, env, in_loop)
            if isinstance(ret, tuple):
                if not (isinstance(st.value, ast.Tuple) and len(st.value.elts) == len(ret)):
                    raise Unsupported("return " + ast.unparse(st.value))
                bs, ts = [], []
                for x, w in zip(st.value.elts, ret):
                    b, t = self.coerce(x, w, env)
                    bs += b
                    ts.append(t)
                return self.wrap(bs, self.ret_text("(" + ", ".join(ts) + ")", env, in_loop))
            b, t = self.coerce(st.value, ret, env)
            return self.wrap(b, self.ret_text(t, env, in_loop))
        if isinstance(st, ast.Try):
            return self.try_stmt(st, rest, env, k, in_loop)
        w = self.written(st, env)
        if w is not None:
            x, txt, b = w
            return self.wrap(b + [("let", x, txt)], go(env))
        if isinstance(st, ast.If):
            return self.if_stmt(st, rest, env, k, in_loop)
        if isinstance(st, ast.For):
            return self.loop(st, rest, env, k, in_loop)
        if isinstance(st, (ast.While, ast.With, ast.Assert)):
            raise Unsupported("statement " + type(st).__name__)
        if isinstance(st, ast.Assign) and len(st.targets) == 1 and is_name(st.targets[0]):
            # x = <expr>; a None / PLACEHOLDER value keeps its Val reading
            if st.targets[0].id in FORBIDDEN_NAMES or re.fullmatch(r"t\d+|n\d+", st.targets[0].id):
                raise Unsupported("local variable named " + st.targets[0].id)
            if env.get(st.targets[0].id) in ("self", "dupfn"):
                raise Unsupported("rebinding of the object variable " + st.targets[0].id)
        return Tr.block(self, stmts, env, k, in_loop)

    def try_stmt(self, st, rest, env, k, in_loop):
        if st.finalbody or len(st.handlers) != 1 or len(st.body) != 1:
            raise Unsupported("try statement")
        h, a = st.handlers[0], st.body[0]
        ok = (is_name(h.type, "AttributeError") and h.name is None and isinstance(a, ast.Assign) and len(a.targets) == 1
              and is_name(a.targets[0]) and isinstance(a.value, ast.Call) and isinstance(a.value.func, ast.Attribute)
              and self.is_super(a.value.func.value) and a.value.func.attr == "__getattribute__" and not a.value.keywords
              and len(a.value.args) == 1 and isinstance(a.value.args[0], ast.Constant) and a.value.args[0].value == "_group_current")
        if not ok:
            raise Unsupported("try statement other than `x = super().__getattribute__('_group_current')` / except AttributeError")
        var = a.targets[0].id
        if var in env or var in FORBIDDEN_NAMES:
            raise Unsupported("try target shadows a variable")
        handler = self.block(list(h.body) + rest, dict(env), k, in_loop)
        env2 = dict(env)
        env2[var] = "gcur"
        cont = self.block(list(st.orelse) + rest, env2, k, in_loop)
        return "match Py.superGetGroupCurrent %s with\n| .ok %s =>\n%s\n| .raise .attr =>\n%s\n| .raise e => .raise e\n| .diverge => .diverge" % (
            self.super_obj(env), nm(var), indent(cont), indent(handler))

    def if_stmt(self, st, rest, env, k, in_loop):
        t = st.test
        # `if x is not None and <more>:` on an Optional variable = `if x is not None: if <more>: … else: <orelse>  else: <orelse>`
        if isinstance(t, ast.BoolOp) and isinstance(t.op, ast.And):
            f0 = t.values[0]
            c0 = f0.left if (isinstance(f0, ast.Compare) and len(f0.ops) == 1 and isinstance(f0.ops[0], ast.IsNot)
                             and isinstance(f0.comparators[0], ast.Constant) and f0.comparators[0].value is None) else f0
            if is_name(c0) and env.get(c0.id) in OPTS:
                more = t.values[1] if len(t.values) == 2 else ast.BoolOp(op=ast.And(), values=list(t.values[1:]))
                inner = ast.If(test=more, body=list(st.body), orelse=list(st.orelse))
                return self.if_stmt(ast.If(test=f0, body=[inner], orelse=list(st.orelse)), rest, env, k, in_loop)
        # narrowing: `if not x:` / `if x is None:` / `if x:` / `if x is not None:` on an Optional variable
        neg_t = t.operand if isinstance(t, ast.UnaryOp) and isinstance(t.op, ast.Not) else None
        is_none = isinstance(t, ast.Compare) and len(t.ops) == 1 and isinstance(t.ops[0], ast.Is) and \
            isinstance(t.comparators[0], ast.Constant) and t.comparators[0].value is None
        var, none_first = None, None
        if neg_t is not None and is_name(neg_t) and env.get(neg_t.id) in OPTS:
            var, none_first = neg_t.id, True
        elif is_none and is_name(t.left) and env.get(t.left.id) in OPTS:
            var, none_first = t.left.id, True
        else:
            is_not_none = isinstance(t, ast.Compare) and len(t.ops) == 1 and isinstance(t.ops[0], ast.IsNot) and \
                isinstance(t.comparators[0], ast.Constant) and t.comparators[0].value is None
            cand = t.left if is_not_none else t
            if is_name(cand) and env.get(cand.id) in OPTS:
                var, none_first = cand.id, False
        if var is not None:
            env_some = dict(env)
            env_some[var] = OPTS[env[var]]
            b_none, b_some = (st.body, st.orelse) if none_first else (st.orelse, st.body)
            tn = self.block(list(b_none) + rest, dict(env), k, in_loop)
            ts = self.block(list(b_some) + rest, env_some, k, in_loop)
            return "match %s with\n| Option.none =>\n%s\n| Option.some %s =>\n%s" % (nm(var), indent(tn), nm(var), indent(ts))
        if not has_control([st]):
            # the branches only compute and write: their effects are joined, what follows is not duplicated
            outs = self.assigned([st], env)
            bc, c, tc = self.expr(t, env)
            ends = []

            def end(env2):
                ends.append(env2)
                return ".ok %s" % self.tup(outs)
            thn = self.block(list(st.body), env, end, in_loop)
            els = self.block(list(st.orelse), env, end, in_loop)
            if any(e2.get(v) != env[v] for e2 in ends for v in outs):
                raise Unsupported("a branch changes the type of a variable")
            oty = "Unit" if not outs else lty(tuple(env[v] for v in outs)) if len(outs) != 1 else lty(env[outs[0]])
            return self.wrap(bc, "((if %s then\n%s\nelse\n%s) : Py.Res %s).bind fun %s =>\n%s" % (
                self.truthy(c, tc), indent(thn), indent(els), oty, self.tup(outs), self.block(rest, env, k, in_loop)))
        bc, c, tc = self.expr(t, env)
        thn = self.block(list(st.body) + rest, env, k, in_loop)
        els = self.block(list(st.orelse) + rest, env, k, in_loop)
        return self.wrap(bc, "if %s then\n%s\nelse\n%s" % (self.truthy(c, tc), indent(thn), indent(els)))

    def loop(self, st, rest, env, k, in_loop):
        if st.orelse or in_loop or not is_name(st.target):
            raise Unsupported("for-else / nested loop / tuple target")
        tgt = st.target.id
        if tgt in env or tgt in FORBIDDEN_NAMES:
            raise Unsupported("loop target shadows a variable")
        seq, ety, elty = self.sequence(st.iter, env)
        body = list(st.body)
        benv = dict(env)
        benv[tgt] = elty
        state = [v for v in self.assigned(body, env) if v != tgt]
        for v in state:
            if env[v] == "self":
                self.mutable(nm(v))
        has_ret = any(isinstance(x, ast.Return) for s in body for x in ast.walk(s))
        used = self.used(body)
        ro = [v for v in env if v not in state and v in used and env[v] in LEAN_TY]
        self.nloop += 1
        lname = "%s.loop%d" % (self.sig.name, self.nloop)
        stup = self.tup(state) if state else "()"
        sty = lty(tuple(env[v] for v in state)) if len(state) > 1 else (lty(env[state[0]]) if state else "Unit")
        roargs = "".join(" " + nm(v) for v in ro)
        call = "%s %s%s" % (lname, self.fixed_args(), roargs)

        def again(env2):
            if any(env2.get(v) != env[v] for v in state):
                raise Unsupported("the loop body changes the type of a variable")
            return "%s items' %s" % (call, stup)
        btxt = self.block(body, benv, again, True) if has_ret else self.block_noret(body, benv, again)
        rty = "Py.Res (Py.Ctl %s %s)" % (self.sig.lean_ret(), sty) if has_ret else "Py.Res %s" % sty
        base = ".ok (.next %s)" % stup if has_ret else ".ok %s" % stup
        d = "def %s %s%s : List %s → %s → %s\n  | [], %s => %s\n  | %s :: items', %s =>\n%s" % (
            lname, self.fixed_sig(), "".join(" (%s : %s)" % (nm(v), lty(env[v])) for v in ro), ety, sty, rty, stup, base,
            nm(tgt), stup, indent(btxt, 4))
        self.aux.append(d)
        after = self.block(rest, env, k, in_loop)
        if has_ret:
            return "(%s %s %s).bind fun c =>\nmatch c with\n| .ret r => .ok r\n| .next %s =>\n%s" % (call, seq, stup, stup, indent(after))
        return "(%s %s %s).bind fun %s =>\n%s" % (call, seq, stup, stup, after)

    def block_noret(self, body, benv, again):
        return self.block(body, benv, again, True)

    def method_def(self, body, env, params):
        def fall_off(env2):
            if self.sig.ret != "none":
                raise Unsupported("control reaches the end of a function that returns a value")
            return self.ret_text(None, env2, False)
        txt = self.block(body, env, fall_off, False)
        ps = " ".join("(%s : %s)" % (nm(p), lty(t)) for p, t in params)
        d = "def %s %s %s : Py.Res %s :=\n%s" % (self.sig.name, self.fixed_sig(), ps, self.sig.lean_ret(), indent(txt))
        return "\n\n".join(self.aux + [d])


# ------------------------------------------------------------------------------------------------ what is translated
BASE_FIXED = [("S", "Schema"), ("fs", "List FieldD")]
# lean name, (class or None, python name), parameter types by POSITION, return type, index of the parameter whose state is
# part of the result (None: an observer), functions it may call {python builtin: lean name of the translated method}, extra
METHODS = {
    "SrcObj": [
        ("setattr", ("Message", "__setattr__"), ["self", "name", "val"], "none", 0, {}, {}),
        ("getattribute", ("Message", "__getattribute__"), ["self", "name"], "val", 0, {}, {}),
        ("which_one_of", (None, "which_one_of"), ["self", "group"], ("optname", "val"), 0, {"getattr": "getattribute"}, {}),
        ("include_default_value_for_oneof", ("Message", "_include_default_value_for_oneof"), ["self", "name", "meta"], "bool", None, {}, {}),
    ],
    "SrcObjObs": [
        ("msg_bool", ("Message", "__bool__"), ["self"], "bool", None, {}, {}),
        ("serialized_on_wire", (None, "serialized_on_wire"), ["self"], "bool", None, {"bool": "msg_bool"}, {}),
        ("is_set", ("Message", "is_set"), ["self", "name"], "bool", None, {}, {}),
        ("msg_eq", ("Message", "__eq__"), ["self", "self"], "eqres", None, {}, {"eq": True}),
    ],
    "SrcObjCopy": [
        ("copy_state_to", ("Message", "__copy_state_to"), ["self", "self", "dupfn"], "retobj", 1, {}, {}),
    ],
}


def find_def(tree, cls, name):
    if cls is None:
        hits = [n for n in tree.body if isinstance(n, ast.FunctionDef) and n.name == name]
    else:
        hits = [m for c in tree.body if isinstance(c, ast.ClassDef) and c.name == cls
                for m in ast.walk(c) if isinstance(m, ast.FunctionDef) and m.name == name]
    if len(hits) != 1:
        raise Unsupported("%s%s found %d times" % (cls + "." if cls else "", name, len(hits)))
    return hits[0]


def translate_group(tree, group, consts, ptypes, eq_nan_ok):
    out, done, errs = [], {}, []
    for lean, (cls, pyname), ptys, ret, threaded, calls, extra in METHODS[group]:
        try:
            fn = find_def(tree, cls, pyname)
            a = fn.args
            if a.vararg or a.kwarg or a.kwonlyargs or a.posonlyargs or len(a.args) != len(ptys) or fn.decorator_list:
                raise Unsupported("parameter list / decorators of " + pyname)
            if any(d is not None for d in a.defaults) and pyname not in ():
                raise Unsupported("default arguments of " + pyname)
            pnames = [x.arg for x in a.args]
            if len(set(pnames)) != len(pnames) or any(p in FORBIDDEN_NAMES or re.fullmatch(r"t\d+|n\d+", p) for p in pnames):
                raise Unsupported("parameter names of " + pyname)
            callees = {}
            for py, ln in calls.items():
                if ln not in done:
                    raise Unsupported("%s calls %s(), whose method is not translated" % (pyname, py))
                callees[py] = done[ln]
            sg = ObjSig(lean, [(p, t, None) for p, t in zip(pnames, ptys)], ret, pnames[threaded] if threaded is not None else None, "self")
            fixed = list(BASE_FIXED)
            if extra.get("eq"):
                fixed += [("ne", "Val → Val → Bool"), ("sameType", "Bool")]
            tr = TrObj(sg, consts, ptypes, callees, pnames[0] if cls else None, fixed, eq_nan_ok,
                       ne_ok=bool(extra.get("eq")), same_type=tuple(pnames[:2]) if extra.get("eq") else False)
            env = dict(zip(pnames, ptys))
            txt = tr.method_def(list(fn.body), env, list(zip(pnames, ptys)))
            out.append("/- %s%s  (src/betterproto/__init__.py, line %d) -/\n%s" % (cls + "." if cls else "", pyname, fn.lineno, txt))
            done[lean] = sg
        except Unsupported as e:
            msg = "%s%s: %s" % (cls + "." if cls else "", pyname, e)
            errs.append(msg)
            out.append("/- TRANSLATION FAILED: %s -/" % msg.replace("-/", "- /"))
    return out, errs


HEADER = """import BpProofs.PyPreludeObj
/- GENERATED by harness/extract_srcobj.py from the Python AST of src/betterproto/__init__.py -- do not edit.
   Each definition is the statement-by-statement translation of the named method over the vocabulary of
   BpProofs/PyPreludeObj.lean (`S`: the schema, `fs`: the fields of the class of `self`; a Message instance is an `MState`,
   a field / group name is its index). -/
set_option linter.unusedVariables false
namespace Bp.Src
open Bp

"""


def render_all(path=SRC):
    """-> {group: (text, [errors])}"""
    res = {}
    try:
        tree = ast.parse(open(path).read())
    except (OSError, SyntaxError) as e:
        msg = "the source translator could not read the source: %r" % (e,)
        return {g: (HEADER + "/- TRANSLATION FAILED: %s -/\n\nend Bp.Src\n" % msg, [msg]) for g in METHODS}
    consts, ptypes = {}, {}
    for n in tree.body:
        if isinstance(n, ast.Assign) and len(n.targets) == 1 and is_name(n.targets[0]) and isinstance(n.value, ast.Constant):
            if type(n.value.value) is int:
                consts[n.targets[0].id] = n.value.value
            elif type(n.value.value) is str and n.targets[0].id.startswith("TYPE_") and n.value.value in PTYPE_CTOR:
                ptypes[n.targets[0].id] = PTYPE_CTOR[n.value.value]
    eq_nan_ok = False
    try:
        fn = find_def(tree, None, "_equal_or_both_nan")
        a = fn.args
        eq_nan_ok = [x.arg for x in a.args] == EQ_NAN_PARAMS and not (a.defaults or a.vararg or a.kwarg or a.kwonlyargs or a.posonlyargs)
    except Unsupported:
        pass
    for g in METHODS:
        defs, errs = translate_group(tree, g, consts, ptypes, eq_nan_ok)
        res[g] = (HEADER + "\n\n".join(defs) + "\n\nend Bp.Src\n", ["the source translator does not support the current source: " + e for e in errs])
    return res


def main(write_if_changed, gen_dir):
    changed = []
    for g, (text, errs) in render_all().items():
        target = os.path.join(gen_dir, "..", "..", "BpProofs", "Gen", g + ".lean")
        if write_if_changed(os.path.normpath(target), text):
            changed.append(g + ".lean")
        for e in errs:
            print("extract_srcobj: " + e)
    return changed


if __name__ == "__main__":
    for g, (t, errs) in render_all().items():
        print(t)
        for e in errs:
            print("ERROR:", e)
