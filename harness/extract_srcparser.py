"""SOURCE TRANSLATOR (C03, touching C13 / C18): Python AST of the TRAVERSAL and REQUEST PROCESSING of the protoc plugin,
/repo/src/betterproto/plugin/parser.py -> Lean definitions.

On every run parser.py of the working tree is read with `ast` and the functions

    traverse (+ its inner generator _traverse), _make_one_of_field_compiler, read_protobuf_type,
    read_protobuf_service, generate_code

are translated statement by statement into Lean functions over the vocabulary of lean/BpProofs/PyPreludeParser.lean
(+ PyPreludeStr / PyPreludePlugin) and written to lean/BpProofs/Gen/SrcParser.lean (namespace `Bp.Src.Parser`).
`is_map(f, m)` / `is_oneof(f)` are calls of the translations of models.py's functions in Gen/SrcPlugin.lean
(extract_srcplugin.py).  lean/BpProofs/SrcTieParser*.lean proves the translated functions equal to the hand-written
model (lean/BpModel/Plugin.lean: `traverse`, `readItem`, `compilePackage`) / to closed forms;
lean/BpProofs/Props/C03SrcParser.lean states that, and the C03 sentence about classes, about the source as written.

How things are translated (what the produced text MEANS is fixed by PyPreludeParser.lean):
  * every function takes `fuel : Nat` first and returns `Py.Res …`;
  * a GENERATOR is the function returning the list of yielded values (`yielded`): `yield e` appends, `yield from g(…)`
    appends the list of `g(…)`; a function that calls itself gets `.diverge` at fuel 0 and calls itself at `fuel - 1`
    (its loops receive it as the parameter `rec_`);
  * a function with an `OutputTemplate` parameter that returns nothing (or a freshly constructed compiler object
    nobody uses) returns the changed OutputTemplate; constructing a compiler object appends to its `built` list;
  * `for x in xs` / `for i, x in enumerate(xs)` / `for k, v in d.items()` / `for y in <generator call>`: an auxiliary
    function `<f>.loop<n>` by recursion on the list, carrying the variables the body rebinds; `continue` and the end of
    the body go to the next element, `raise` leaves; `return` inside a loop is refused;
  * `if` / `elif` / `else` whose branches only rebind variables: one joined `(if … then … else …).bind fun (vars) =>`;
    an `if` with a `return` / `raise` / `continue` in a branch duplicates its continuation;
    `if isinstance(x, DescriptorProto)` is a `match` on the constructor, `x` refined inside;
  * `a.b.c = e`, `a.b[k].c = e`, `xs.append(e)`, `s.add(e)` rebind the variable at the root of the path;
    `request_data.output_packages` and `response` are such roots;
  * an expression that can raise (`d[k]`, `xs[0]`, a call of a translated function) is evaluated first, left to right,
    `(e).bind fun t =>`; it may not occur under `and` / `or`; `a if c else b` with such operands is a conditional `Res`.
Anything else raises Unsupported: the function (and every function that calls it) is then reported as NOT TRANSLATED in
the generated file, has no definition, and the tie theorems about it do not compile.
"""
import ast
import os

from extract_src import Unsupported

REPO = os.environ.get("VERIF_REPO", "/repo")
SRC = os.path.join(REPO, "src", "betterproto", "plugin", "parser.py")
REL = "src/betterproto/plugin/parser.py"
NS = "Bp.Src.Parser"

ORDER = ["traverse", "_make_one_of_field_compiler", "read_protobuf_type", "read_protobuf_service", "generate_code"]

LEAN_TY = {
    "str": "Str", "int": "Int", "bool": "Bool", "ints": "(List Int)", "strs": "(List Str)",
    "ditem": "Py.Prs.DItem", "ditems": "(List Py.Prs.DItem)", "dp": "Plugin.MsgP", "edp": "Plugin.EnumP",
    "fdp": "Plugin.FieldP", "fdps": "(List Plugin.FieldP)", "filed": "Py.Prs.FileD", "fileds": "(List Py.Prs.FileD)",
    "svcd": "Py.Prs.SvcD", "svcds": "(List Py.Prs.SvcD)", "methd": "Py.Prs.MethodD", "methds": "(List Py.Prs.MethodD)",
    "outtpl": "Py.Prs.OutTpl", "msgc": "Py.Prs.MsgC", "svcc": "Py.Prs.SvcC", "fcls": "Py.Prs.FieldCls",
    "dict": "(Py.Prs.Dict Py.Prs.OutTpl)", "dictitems": "(List (Str × Py.Prs.OutTpl))",
    "request": "Py.Prs.Request", "response": "Py.Prs.Response", "pypath": "Py.Prs.PyPath",
    "pypaths": "(List Py.Prs.PyPath)", "tc": "Py.Plg.TC", "rfile": "Py.Prs.RFile",
    "ypair": "(Py.Prs.DItem × List Int)", "ypairs": "(List (Py.Prs.DItem × List Int))",
}
ELEM = {"ints": "int", "strs": "str", "ditems": "ditem", "fdps": "fdp", "fileds": "filed", "svcds": "svcd",
        "methds": "methd", "pypaths": "pypath", "ypairs": "ypair", "dictitems": "dictitem"}
LIST_OF = {v: k for k, v in ELEM.items()}
# parameter / return annotations (text of the annotation, quotes of forward references removed)
PARAM_ANNOT = {
    "str": "str", "int": "int", "List[int]": "ints", "FileDescriptorProto": "filed",
    "DescriptorProto": "ditem",     # the module passes both kinds of item under this annotation and tests isinstance
    "Union[List[EnumDescriptorProto], List[DescriptorProto]]": "ditems", "OutputTemplate": "outtpl",
    "MessageCompiler": "msgc", "FieldDescriptorProto": "fdp", "ServiceDescriptorProto": "svcd",
    "CodeGeneratorRequest": "request",
}
GEN_ANNOT = "Generator[Tuple[Union[EnumDescriptorProto, DescriptorProto], List[int]], None, None]"
# attributes of descriptor / template objects: (object type, attribute) -> (Lean function or field, result type)
ATTRS = {
    ("ditem", "name"): ("Py.Prs.itemName %s", "str"),
    ("dp", "name"): ("Py.Plg.dName %s", "str"),
    ("dp", "enum_type"): ("Py.Prs.enumType %s", "ditems"),
    ("dp", "nested_type"): ("Py.Prs.nestedType %s", "ditems"),
    ("dp", "field"): ("Py.Prs.dFields %s", "fdps"),
    ("filed", "enum_type"): ("Py.Prs.fileEnumType %s", "ditems"),
    ("filed", "message_type"): ("Py.Prs.fileMessageType %s", "ditems"),
    ("filed", "package"): ("%s.package", "str"),
    ("filed", "name"): ("%s.name", "str"),
    ("filed", "service"): ("%s.services", "svcds"),
    ("svcd", "method"): ("%s.method", "methds"),
    ("svcd", "name"): ("%s.name", "str"),
    ("request", "parameter"): ("%s.parameter", "str"),
    ("request", "proto_file"): ("%s.proto_file", "fileds"),
    ("outtpl", "input_files"): ("%s.input_files", "fileds"),
    ("outtpl", "output"): ("%s.output", "bool"),
    ("outtpl", "pydantic_dataclasses"): ("%s.pydantic_dataclasses", "bool"),
    ("outtpl", "typing_compiler"): ("%s.typing_compiler", "tc"),
    ("response", "file"): ("%s.file", "rfiles"),
    ("pypath", "parents"): ("Py.Prs.pathParents %s", "pypaths"),
}
# attributes of an OutputTemplate that may be stored
OUTTPL_STORE = {"output": "bool", "pydantic_dataclasses": "bool", "typing_compiler": "tc"}
FIELD_CLASSES = ["FieldCompiler", "OneOfFieldCompiler", "PydanticOneOfFieldCompiler", "MapEntryCompiler"]
TC_CLASSES = {"DirectImportTypingCompiler": "(Py.Plg.TC.direct [])",
              "TypingImportTypingCompiler": "(Py.Plg.TC.typingImport false)",
              "NoTyping310TypingCompiler": "(Py.Plg.TC.noTyping310 [])"}
# names that must be bound by exactly one module-level import, from (module, level)
IMPORTS = {
    "DescriptorProto": ("betterproto.lib.google.protobuf", 0),
    "EnumDescriptorProto": ("betterproto.lib.google.protobuf", 0),
    "CodeGeneratorResponse": ("betterproto.lib.google.protobuf.compiler", 0),
    "CodeGeneratorResponseFeature": ("betterproto.lib.google.protobuf.compiler", 0),
    "CodeGeneratorResponseFile": ("betterproto.lib.google.protobuf.compiler", 0),
    "outputfile_compiler": ("compiler", 1),
    "EnumDefinitionCompiler": ("models", 1), "FieldCompiler": ("models", 1), "MapEntryCompiler": ("models", 1),
    "MessageCompiler": ("models", 1), "OneOfFieldCompiler": ("models", 1), "OutputTemplate": ("models", 1),
    "PluginRequestCompiler": ("models", 1), "PydanticOneOfFieldCompiler": ("models", 1),
    "ServiceCompiler": ("models", 1), "ServiceMethodCompiler": ("models", 1), "is_map": ("models", 1),
    "is_oneof": ("models", 1),
    "DirectImportTypingCompiler": ("typing_compiler", 1), "NoTyping310TypingCompiler": ("typing_compiler", 1),
    "TypingImportTypingCompiler": ("typing_compiler", 1),
}
BUILTINS = ["enumerate", "isinstance", "len", "str", "set", "print", "sorted", "ValueError"]
LEAN_WORDS = set("""at by do else end export extends fun from have if import in instance let match mut namespace of
open private protected section show structure then theorem universe variable where with deriving def abbrev example
inductive class axiom macro syntax notation prefix infix infixl infixr postfix set_option using calc return for
unless try catch finally nomatch nofun suffices obtain mutual partial unsafe noncomputable Type Sort Prop local
""".split())
RESERVED = ("fuel", "rec_", "yielded", "exists_", "loop_tail")    # variables of the translation itself
OUT = "yielded"
DICT_ROOT = "request_data.output_packages"


def lean_str(s):
    out = []
    for ch in s:
        if ch == "\\":
            out.append("\\\\")
        elif ch == '"':
            out.append('\\"')
        elif 32 <= ord(ch) < 127:
            out.append(ch)
        else:
            raise Unsupported("character U+%X in a str constant" % ord(ch))
    return '"%s".toList' % "".join(out)


def ln(x):
    """Lean identifier of a Python variable (or of a rooted attribute path)"""
    x = x.replace(".", "_")
    return "«%s»" % x if x in LEAN_WORDS else x


def lty(t):
    if t == "dictitem":
        return "(Str × Py.Prs.OutTpl)"
    if t == "rfiles":
        return "(List Py.Prs.RFile)"
    return LEAN_TY[t]


def ind(lines, n=1):
    return ["  " * n + l for l in lines]


def is_name(e, ident):
    return isinstance(e, ast.Name) and e.id == ident


def unq(a):
    """text of an annotation, a str constant (forward reference) replaced by its content"""
    if a is None:
        return None
    if isinstance(a, ast.Constant) and isinstance(a.value, str):
        return a.value
    return ast.unparse(a)


class Fn:
    def __init__(self, node, lean, params, kind, ret, defaults, recursive, uses_exists):
        self.node, self.lean, self.params, self.kind, self.ret = node, lean, params, kind, ret
        self.defaults, self.recursive, self.uses_exists = defaults, recursive, uses_exists

    def fixed(self):
        return ["fuel"] + (["exists_"] if self.uses_exists else [])

    def res_ty(self):
        return "Py.Res %s" % lty(self.ret)


def walk_no_comp(node):
    """ast.walk that does not enter comprehensions, lambdas or nested function definitions"""
    todo = [node]
    while todo:
        n = todo.pop()
        yield n
        for c in ast.iter_child_nodes(n):
            if isinstance(c, (ast.ListComp, ast.SetComp, ast.DictComp, ast.GeneratorExp, ast.Lambda,
                              ast.FunctionDef, ast.AsyncFunctionDef, ast.ClassDef)):
                continue
            todo.append(c)


class Module:
    def __init__(self, tree):
        self.tree = tree
        self.funcs = {n.name: n for n in tree.body if isinstance(n, ast.FunctionDef)}
        self.sigs = {}          # python name -> Fn (translated so far)
        self.failed = {}        # python name -> message
        self.out = []           # Lean text of the definitions
        self._imports_ok = {}
        self.check_module()

    # ------------------------------------------------------------ module-level facts
    def check_module(self):
        for n in ast.walk(self.tree):
            if isinstance(n, (ast.Global, ast.Nonlocal)):
                raise Unsupported("global / nonlocal statement")
            if isinstance(n, (ast.AsyncFunctionDef, ast.Lambda, ast.Try, ast.With, ast.While, ast.Delete,
                              ast.NamedExpr, ast.Await)):
                if any(n in ast.walk(self.funcs[f]) for f in ORDER if f in self.funcs):
                    raise Unsupported(type(n).__name__)
        for name in ORDER:
            if name not in self.funcs:
                raise Unsupported("no module-level function " + name)
        defs = [n.name for n in self.tree.body if isinstance(n, (ast.FunctionDef, ast.ClassDef))]
        for name in ORDER:
            if defs.count(name) != 1:
                raise Unsupported("%s is defined more than once" % name)
        # module-level statements other than imports and definitions could rebind anything
        for n in self.tree.body:
            if not isinstance(n, (ast.Import, ast.ImportFrom, ast.FunctionDef, ast.ClassDef)) and not (
                    isinstance(n, ast.Expr) and isinstance(n.value, ast.Constant)):
                raise Unsupported("module-level statement `%s`" % ast.unparse(n)[:60])
        pl = [n for n in self.tree.body if isinstance(n, ast.Import) and any(a.name == "pathlib" for a in n.names)]
        self.has_pathlib = len(pl) == 1 and all(a.asname is None for a in pl[0].names)
        sy = [n for n in self.tree.body if isinstance(n, ast.Import) and any(a.name == "sys" for a in n.names)]
        self.has_sys = len(sy) == 1 and all(a.asname is None for a in sy[0].names)

    def imported(self, name):
        """`name` is bound only by the expected module-level `from … import name`, and by nothing else in the module"""
        if name not in self._imports_ok:
            seen, ok = 0, True
            for n in ast.walk(self.tree):
                if isinstance(n, ast.ImportFrom):
                    for a in n.names:
                        if (a.asname or a.name) == name:
                            if n in self.tree.body and a.asname is None and (n.module, n.level) == IMPORTS[name]:
                                seen += 1
                            else:
                                ok = False
                elif isinstance(n, ast.Import):
                    for a in n.names:
                        if (a.asname or a.name.split(".")[0]) == name:
                            ok = False
                elif isinstance(n, ast.Name) and n.id == name and isinstance(n.ctx, (ast.Store, ast.Del)):
                    ok = False
                elif isinstance(n, ast.arg) and n.arg == name:
                    ok = False
                elif isinstance(n, (ast.FunctionDef, ast.ClassDef)) and n.name == name:
                    ok = False
            self._imports_ok[name] = ok and seen == 1
        if not self._imports_ok[name]:
            m, l = IMPORTS[name]
            raise Unsupported("`%s` is not (only) the name imported from %s%s" % (name, "." * l, m))

    def unshadowed(self, name, fn):
        """a builtin / module name is not rebound anywhere in the module"""
        for n in ast.walk(self.tree):
            if (isinstance(n, ast.Name) and n.id == name and isinstance(n.ctx, (ast.Store, ast.Del))) \
                    or (isinstance(n, ast.arg) and n.arg == name) \
                    or (isinstance(n, (ast.FunctionDef, ast.ClassDef)) and n.name == name) \
                    or (isinstance(n, ast.ImportFrom) and any((a.asname or a.name) == name for a in n.names)) \
                    or (isinstance(n, ast.Import) and name not in ("pathlib", "sys")
                        and any((a.asname or a.name.split(".")[0]) == name for a in n.names)):
                raise Unsupported("`%s` is rebound in the module" % name)

    # ------------------------------------------------------------ functions
    def signature(self, fn, lean, outer=None):
        a = fn.args
        if a.vararg or a.kwarg or a.kwonlyargs or a.posonlyargs or fn.decorator_list:
            raise Unsupported("signature of " + fn.name)
        params = []
        for p in a.args:
            t = PARAM_ANNOT.get(unq(p.annotation))
            if t is None:
                raise Unsupported("parameter %s of %s annotated %s" % (p.arg, fn.name, unq(p.annotation)))
            if p.arg in RESERVED or (len(p.arg) > 1 and p.arg[0] == "t" and p.arg[1:].isdigit()):
                raise Unsupported("parameter name " + p.arg)
            params.append((p.arg, t))
        defaults = {}
        for p, d in zip(a.args[len(a.args) - len(a.defaults):], a.defaults):
            if not (isinstance(d, ast.Constant) and isinstance(d.value, str)):
                raise Unsupported("default value of " + p.arg)
            defaults[p.arg] = lean_str(d.value)
        ret = unq(fn.returns)
        body_nodes = [n for st in fn.body if not isinstance(st, ast.FunctionDef) for n in walk_no_comp(st)]
        is_gen = any(isinstance(n, (ast.Yield, ast.YieldFrom)) for n in body_nodes)
        outs = [p for p, t in params if t == "outtpl"]
        if is_gen:
            if ret != GEN_ANNOT:
                raise Unsupported("generator %s annotated %s" % (fn.name, ret))
            kind, rty = "gen", "ypairs"
        elif ret == "CodeGeneratorResponse":
            kind, rty = "fun", "response"
        elif ret in ("None", "FieldCompiler") and len(outs) == 1:
            kind, rty = "mut", "outtpl"
        else:
            raise Unsupported("function %s returning %s" % (fn.name, ret))
        recursive = any(isinstance(n, ast.Call) and is_name(n.func, fn.name) for n in body_nodes)
        uses_exists = any(isinstance(n, ast.Attribute) and n.attr == "exists" for n in ast.walk(fn))
        return Fn(fn, lean, params, kind, rty, defaults, recursive, uses_exists)

    def translate_function(self, name):
        fn = self.funcs[name]
        inner = [st for st in fn.body if isinstance(st, ast.FunctionDef)]
        body = [st for st in fn.body if not isinstance(st, ast.FunctionDef)]
        if any(isinstance(st, ast.ClassDef) for st in fn.body):
            raise Unsupported("class definition inside " + name)
        texts = []
        local_sigs = {}
        for g in inner:
            if any(isinstance(st, (ast.FunctionDef, ast.ClassDef)) for st in g.body):
                raise Unsupported("definition nested in " + g.name)
            if g.name in self.funcs or g.name in IMPORTS or g.name in BUILTINS:
                raise Unsupported("inner function %s shadows a module-level name" % g.name)
            # the inner function may refer to its own parameters / locals, to itself and to module-level names only
            bound = {p.arg for p in g.args.args} | {g.name}
            for n in ast.walk(g):
                if isinstance(n, ast.Name) and isinstance(n.ctx, ast.Store):
                    bound.add(n.id)
            outer_locals = {p.arg for p in fn.args.args}
            for st in body:
                for n in ast.walk(st):
                    if isinstance(n, ast.Name) and isinstance(n.ctx, ast.Store):
                        outer_locals.add(n.id)
            for n in ast.walk(g):
                if isinstance(n, ast.Name) and isinstance(n.ctx, ast.Load) and n.id not in bound \
                        and n.id in outer_locals:
                    raise Unsupported("%s reads the variable %s of %s" % (g.name, n.id, name))
            sig = self.signature(g, "%s.%s" % (name, g.name))
            local_sigs[g.name] = sig
            texts += FnTr(self, sig, dict(local_sigs)).function()
        sig = self.signature(fn, name)
        texts += FnTr(self, sig, local_sigs, skip_defs=True).function()
        self.sigs[name] = sig
        self.out += texts

    def run(self):
        for name in ORDER:
            try:
                self.translate_function(name)
            except Unsupported as e:
                self.failed[name] = str(e)
                self.out.append("/- NOT TRANSLATED: %s  (%s, line %d): %s -/" % (
                    name, REL, self.funcs[name].lineno, str(e).replace("-/", "- /")))


class FnTr:
    """translation of one function body"""

    def __init__(self, mod, sig, local_sigs, skip_defs=False):
        self.mod, self.sig, self.local_sigs, self.skip_defs = mod, sig, local_sigs, skip_defs
        self.loops = []         # texts of the auxiliary loop functions
        self.nloop = 0
        self.ntmp = 0
        self.pre = []           # hoisted raising expressions of the statement being translated: (tmp, Res text)
        self.in_loop = 0

    # ------------------------------------------------------------ helpers
    def tmp(self):
        self.ntmp += 1
        return "t%d" % self.ntmp

    def hoist(self, text):
        t = self.tmp()
        self.pre.append((t, text))
        return t

    def take_pre(self):
        p, self.pre = self.pre, []
        return ["(%s).bind fun %s =>" % (r, t) for t, r in p]

    def callee(self, name):
        if name in self.local_sigs:
            return self.local_sigs[name]
        if name in self.mod.sigs:
            return self.mod.sigs[name]
        if name in self.mod.failed:
            raise Unsupported("calls %s, which is not translated" % name)
        return None

    def the_outtpl(self, env):
        vs = [v for v, t in env.items() if t == "outtpl"]
        if len(vs) != 1:
            raise Unsupported("a compiler object is constructed with %d OutputTemplate variables in scope" % len(vs))
        return vs[0]

    def fixed_args(self, callee):
        out = []
        for a in callee.fixed():
            if a == "exists_" and not self.sig.uses_exists:
                raise Unsupported("exists_ is not available")
            out.append(a)
        return out

    # ------------------------------------------------------------ which variables a statement list rebinds
    def root_of(self, e, env):
        """the variable at the root of an attribute / subscript path that is stored through"""
        while True:
            if isinstance(e, ast.Attribute) and is_name(e.value, "request_data") and e.attr == "output_packages" \
                    and env.get("request_data") == "prc":
                return DICT_ROOT
            if isinstance(e, ast.Name):
                return e.id
            if isinstance(e, (ast.Attribute, ast.Subscript)):
                e = e.value
            else:
                raise Unsupported("store through `%s`" % ast.unparse(e))

    def assigned(self, stmts, env):
        out = set()
        for st in stmts:
            for n in walk_no_comp(st):
                if isinstance(n, (ast.Assign, ast.AnnAssign, ast.AugAssign)):
                    for t in (n.targets if isinstance(n, ast.Assign) else [n.target]):
                        for x in (t.elts if isinstance(t, ast.Tuple) else [t]):
                            out.add(self.root_of(x, env))
                elif isinstance(n, (ast.Yield, ast.YieldFrom)):
                    out.add(OUT)
                elif isinstance(n, ast.Call):
                    f = n.func
                    if isinstance(f, ast.Attribute) and f.attr in ("append", "add"):
                        out.add(self.root_of(f.value, env))
                    elif isinstance(f, ast.Name):
                        cal = self.callee(f.id)
                        if cal is not None and cal.kind == "mut":
                            out.add(self.mut_target(n, cal, env))
                        elif f.id in FIELD_CLASSES + ["MessageCompiler", "EnumDefinitionCompiler", "ServiceCompiler",
                                                      "ServiceMethodCompiler"] or env.get(f.id) == "fcls":
                            out.add(self.the_outtpl(env))
        return out

    def mut_target(self, call, cal, env):
        args = self.bind_args(call, cal)
        idx = [i for i, (p, t) in enumerate(cal.params) if t == "outtpl"][0]
        a = args[idx]
        if not isinstance(a, ast.Name) or env.get(a.id) != "outtpl":
            raise Unsupported("the OutputTemplate argument of `%s` is not a variable" % ast.unparse(call)[:60])
        return a.id

    def bind_args(self, call, cal):
        """argument expressions in parameter order (None: the default)"""
        names = [p for p, _ in cal.params]
        if any(isinstance(a, ast.Starred) for a in call.args) or len(call.args) > len(names):
            raise Unsupported("call `%s`" % ast.unparse(call)[:60])
        slots = dict(zip(names, call.args))
        for k in call.keywords:
            if k.arg is None or k.arg not in names or k.arg in slots:
                raise Unsupported("call `%s`" % ast.unparse(call)[:60])
            slots[k.arg] = k.value
        out = []
        for p in names:
            if p in slots:
                out.append(slots[p])
            elif p in cal.defaults:
                out.append(None)
            else:
                raise Unsupported("argument %s missing in `%s`" % (p, ast.unparse(call)[:60]))
        return out

    # ------------------------------------------------------------ expressions
    def truth(self, e, env):
        t, ty = self.expr(e, env)
        if ty == "bool":
            return t
        if ty in ("str", "strs", "ints", "pypaths"):
            return "(!(%s).isEmpty)" % t
        raise Unsupported("truth value of %s `%s`" % (ty, ast.unparse(e)[:50]))

    def pure(self, e, env, what):
        """translate an expression that must not raise (no hoisting allowed)"""
        n = len(self.pre)
        r = self.expr(e, env)
        if len(self.pre) != n:
            raise Unsupported("%s `%s` can raise" % (what, ast.unparse(e)[:60]))
        return r

    def res_expr(self, e, env):
        """translate `e` on its own: (Res text or None when pure, pure text, type)"""
        saved, self.pre = self.pre, []
        t, ty = self.expr(e, env)
        mine, self.pre = self.pre, saved
        if not mine:
            return None, t, ty
        return " ".join("(%s).bind fun %s =>" % (r, x) for x, r in mine) + " Py.Res.ok %s" % t, t, ty

    def expr(self, e, env):
        if isinstance(e, ast.Constant):
            if isinstance(e.value, bool):
                return ("true" if e.value else "false"), "bool"
            if isinstance(e.value, int):
                return "(%d : Int)" % e.value, "int"
            if isinstance(e.value, str):
                return lean_str(e.value), "str"
            raise Unsupported("constant %r" % (e.value,))
        if isinstance(e, ast.Name):
            if e.id in env and env[e.id] not in ("prc",):
                return ln(e.id), env[e.id]
            if e.id in FIELD_CLASSES:
                self.mod.imported(e.id)
                return "Py.Prs.FieldCls.%s" % e.id, "fcls"
            raise Unsupported("name " + e.id)
        if isinstance(e, ast.JoinedStr):
            parts = []
            for v in e.values:
                if isinstance(v, ast.Constant) and isinstance(v.value, str):
                    parts.append(lean_str(v.value))
                elif isinstance(v, ast.FormattedValue) and v.conversion == -1 and v.format_spec is None:
                    t, ty = self.expr(v.value, env)
                    if ty != "str":
                        raise Unsupported("f-string part of type " + ty)
                    parts.append(t)
                else:
                    raise Unsupported("f-string `%s`" % ast.unparse(e))
            return "(" + " ++ ".join(parts or ['"".toList']) + ")", "str"
        if isinstance(e, ast.List):
            return self.list_expr(e, env)
        if isinstance(e, ast.Tuple):
            if len(e.elts) == 2:
                a, ta = self.expr(e.elts[0], env)
                b, tb = self.expr(e.elts[1], env)
                if ta == "dp":
                    a, ta = "(Py.Prs.DItem.msg %s)" % a, "ditem"
                if ta == "edp":
                    a, ta = "(Py.Prs.DItem.enum %s)" % a, "ditem"
                if (ta, tb) == ("ditem", "ints"):
                    return "(%s, %s)" % (a, b), "ypair"
            raise Unsupported("tuple `%s`" % ast.unparse(e)[:60])
        if isinstance(e, ast.Attribute):
            return self.attribute(e, env)
        if isinstance(e, ast.Subscript):
            return self.subscript(e, env)
        if isinstance(e, ast.UnaryOp) and isinstance(e.op, ast.Not):
            return "(!%s)" % self.truth(e.operand, env), "bool"
        if isinstance(e, ast.BoolOp):
            ts = [self.pure_truth(v, env) for v in e.values]
            return "(" + (" && " if isinstance(e.op, ast.And) else " || ").join(ts) + ")", "bool"
        if isinstance(e, ast.Compare):
            return self.compare(e, env)
        if isinstance(e, ast.BinOp):
            a, ta = self.expr(e.left, env)
            b, tb = self.expr(e.right, env)
            if isinstance(e.op, ast.Add) and ta == tb and ta in ("ints", "strs", "str"):
                return "(%s ++ %s)" % (a, b), ta
            if isinstance(e.op, ast.Add) and (ta, tb) == ("int", "int"):
                return "(%s + %s)" % (a, b), "int"
            if isinstance(e.op, ast.Sub) and (ta, tb) == ("pypaths", "pypaths"):
                return "(Py.Prs.setDiff %s %s)" % (a, b), "pypaths"
            raise Unsupported("operator in `%s` on %s, %s" % (ast.unparse(e)[:60], ta, tb))
        if isinstance(e, ast.IfExp):
            c = self.truth(e.test, env)
            ra, a, ta = self.res_expr(e.body, env)
            rb, b, tb = self.res_expr(e.orelse, env)
            if tb == "elist" and ta in ELEM:
                b, tb = "([] : %s)" % lty(ta), ta
            if ta == "elist" and tb in ELEM:
                a, ta = "([] : %s)" % lty(tb), tb
            if ta != tb:
                raise Unsupported("conditional expression of types %s / %s" % (ta, tb))
            if ra is None and rb is None:
                return "(if %s then %s else %s)" % (c, a, b), ta
            return self.hoist("if %s then (%s) else (%s)" % (c, ra or "Py.Res.ok %s" % a, rb or "Py.Res.ok %s" % b)), ta
        if isinstance(e, ast.ListComp):
            return self.comprehension(e, env, False)
        if isinstance(e, ast.SetComp):
            return self.comprehension(e, env, True)
        if isinstance(e, ast.Call):
            return self.call(e, env)
        raise Unsupported("expression `%s`" % ast.unparse(e)[:60])

    def pure_truth(self, e, env):
        n = len(self.pre)
        t = self.truth(e, env)
        if len(self.pre) != n:
            raise Unsupported("operand `%s` of and / or can raise" % ast.unparse(e)[:60])
        return t

    def list_expr(self, e, env):
        if not e.elts:
            return "[]", "elist"
        head, rest = None, e.elts
        if isinstance(rest[0], ast.Starred):
            head, th = self.expr(rest[0].value, env)
            if th != "ints":
                raise Unsupported("`*` of %s in a list" % th)
            rest = rest[1:]
        items = []
        for x in rest:
            if isinstance(x, ast.Starred):
                raise Unsupported("list `%s`" % ast.unparse(e))
            t, ty = self.expr(x, env)
            if ty != "int":
                raise Unsupported("list element of type %s in `%s`" % (ty, ast.unparse(e)))
            items.append(t)
        lit = "[" + ", ".join(items) + "]"
        return ("(%s ++ %s)" % (head, lit) if head else "(%s : List Int)" % lit), "ints"

    def attribute(self, e, env):
        # item.options.map_entry
        if e.attr == "map_entry" and isinstance(e.value, ast.Attribute) and e.value.attr == "options":
            x, tx = self.expr(e.value.value, env)
            if tx != "dp":
                raise Unsupported("`.options.map_entry` of " + tx)
            return "(Py.Plg.optionsMapEntry %s)" % x, "bool"
        # request_data.output_packages
        if is_name(e.value, "request_data") and e.attr == "output_packages" and env.get("request_data") == "prc":
            return ln(DICT_ROOT), "dict"
        if is_name(e.value, "CodeGeneratorResponseFeature") and "CodeGeneratorResponseFeature" not in env:
            self.mod.imported("CodeGeneratorResponseFeature")
            return lean_str(e.attr), "feature"
        x, tx = self.expr(e.value, env)
        if (tx, e.attr) in ATTRS:
            f, ty = ATTRS[(tx, e.attr)]
            return "(%s)" % (f % x) if " " in f else f % x, ty
        raise Unsupported("attribute .%s of %s" % (e.attr, tx))

    def subscript(self, e, env):
        x, tx = self.expr(e.value, env)
        s = e.slice
        if isinstance(s, ast.Slice):
            if s.step is not None or s.upper is not None or s.lower is None or tx != "str":
                raise Unsupported("slice `%s`" % ast.unparse(e))
            lo, tl = self.expr(s.lower, env)
            if tl != "int":
                raise Unsupported("slice bound of type " + tl)
            return "(Py.sliceFrom %s %s)" % (x, lo), "str"
        i, ti = self.expr(s, env)
        if tx == "dict" and ti == "str":
            return self.hoist("Py.Prs.dictGet %s %s" % (x, i)), "outtpl"
        if tx in ELEM and tx != "dictitems" and ti == "int":
            return self.hoist("Py.index %s %s" % (x, i)), ELEM[tx]
        raise Unsupported("subscript `%s` on %s" % (ast.unparse(e)[:60], tx))

    def compare(self, e, env):
        if len(e.ops) != 1:
            raise Unsupported("comparison `%s`" % ast.unparse(e))
        op = e.ops[0]
        a, ta = self.expr(e.left, env)
        b, tb = self.expr(e.comparators[0], env)
        if isinstance(op, (ast.Eq, ast.NotEq)) and ta == tb and ta in ("str", "int"):
            t = "(decide (%s = %s))" % (a, b)
            return (t if isinstance(op, ast.Eq) else "(!%s)" % t), "bool"
        if isinstance(op, (ast.Gt, ast.Lt, ast.GtE, ast.LtE)) and (ta, tb) == ("int", "int"):
            sym = {ast.Gt: ">", ast.Lt: "<", ast.GtE: "≥", ast.LtE: "≤"}[type(op)]
            return "(decide (%s %s %s))" % (a, sym, b), "bool"
        if isinstance(op, (ast.In, ast.NotIn)):
            if (ta, tb) == ("str", "strs"):
                t = "(decide (%s ∈ %s))" % (a, b)
            elif (ta, tb) == ("str", "dict"):
                t = "(Py.Prs.dictHas %s %s)" % (b, a)
            elif (ta, tb) == ("pypath", "pypaths"):
                t = "(decide (%s ∈ %s))" % (a, b)
            else:
                raise Unsupported("membership of %s in %s" % (ta, tb))
            return (t if isinstance(op, ast.In) else "(!%s)" % t), "bool"
        raise Unsupported("comparison `%s` on %s, %s" % (ast.unparse(e)[:60], ta, tb))

    def comprehension(self, e, env, is_set):
        """[elt for x in xs (if c)*]  /  {elt for x in xs for y in ys(x) (if c)*}: filter / map / flatMap, no raising part"""
        n = len(self.pre)
        env = dict(env)
        layers = []
        for g in e.generators:
            if g.is_async or not isinstance(g.target, ast.Name):
                raise Unsupported("comprehension `%s`" % ast.unparse(e)[:60])
            xs, txs = self.expr(g.iter, env)
            if txs not in ELEM or txs == "dictitems":
                raise Unsupported("comprehension over " + txs)
            self.bind_name(g.target.id, env)
            env[g.target.id] = ELEM[txs]
            conds = [self.truth(c, env) for c in g.ifs]
            layers.append((ln(g.target.id), xs, conds))
        elt, telt = self.expr(e.elt, env)
        if len(self.pre) != n:
            raise Unsupported("comprehension `%s` can raise" % ast.unparse(e)[:60])
        if telt not in LIST_OF:
            raise Unsupported("comprehension of " + telt)
        text = None
        for depth, (x, xs, conds) in reversed(list(enumerate(layers))):
            src = xs
            for c in conds:
                src = "(%s.filter (fun %s => %s))" % (src, x, c)
            if text is None:
                text = "(%s.map (fun %s => %s))" % (src, x, elt)
            else:
                text = "(%s.flatMap (fun %s => %s))" % (src, x, text)
        if is_set:
            if telt != "pypath":
                raise Unsupported("set of " + telt)
            text = "(Py.Prs.setOfList %s)" % text
        return text, LIST_OF[telt]

    def call(self, e, env):
        f = e.func
        if isinstance(f, ast.Name) and f.id not in env:
            if f.id in BUILTINS:
                self.mod.unshadowed(f.id, self.sig.node)
            if f.id == "len" and len(e.args) == 1 and not e.keywords:
                x, tx = self.expr(e.args[0], env)
                if tx not in ("str", "strs", "ints", "pypaths", "fdps"):
                    raise Unsupported("len of " + tx)
                return "(Py.llen %s)" % x, "int"
            if f.id == "str" and len(e.args) == 1 and not e.keywords:
                x, tx = self.expr(e.args[0], env)
                if tx != "pypath":
                    raise Unsupported("str() of " + tx)
                return "(Py.Prs.pathStr %s)" % x, "str"
            if f.id == "set" and not e.args and not e.keywords:
                return "[]", "elist"
            if f.id in ("is_map", "is_oneof"):
                self.mod.imported(f.id)
                want = {"is_map": ["fdp", "dp"], "is_oneof": ["fdp"]}[f.id]
                if e.keywords or len(e.args) != len(want):
                    raise Unsupported("call `%s`" % ast.unparse(e))
                args = [self.expr(a, env) for a in e.args]
                if [t for _, t in args] != want:
                    raise Unsupported("call `%s` on %s" % (ast.unparse(e), [t for _, t in args]))
                if f.id == "is_map":
                    return self.hoist("Models.is_map fuel %s (Py.Plg.ParentObj.descriptor %s)" % (args[0][0], args[1][0])), "bool"
                return self.hoist("Models.is_oneof fuel %s" % args[0][0]), "bool"
            if f.id in TC_CLASSES and not e.args and not e.keywords:
                self.mod.imported(f.id)
                return TC_CLASSES[f.id], "tc"
            if f.id == "CodeGeneratorResponse" and not e.args and not e.keywords:
                self.mod.imported(f.id)
                return "({} : Py.Prs.Response)", "response"
            if f.id == "CodeGeneratorResponseFile":
                return self.response_file(e, env)
            cal = self.callee(f.id)
            if cal is not None and cal.kind == "gen":
                args = self.call_args(e, cal, env)
                fn = "rec_" if (cal is self.sig or cal.lean == self.sig.lean) else \
                    "%s %s" % (cal.lean, " ".join(self.fixed_args(cal)))
                return self.hoist("%s %s" % (fn, " ".join(args))), cal.ret
            raise Unsupported("call `%s`" % ast.unparse(e)[:60])
        if isinstance(f, ast.Attribute):
            # pathlib.Path(*xs, "lit")
            if f.attr == "Path" and is_name(f.value, "pathlib") and "pathlib" not in env:
                if not self.mod.has_pathlib:
                    raise Unsupported("pathlib is not the module imported by `import pathlib`")
                self.mod.unshadowed("pathlib", self.sig.node)
                if e.keywords or not e.args:
                    raise Unsupported("call `%s`" % ast.unparse(e))
                parts = []
                for a in e.args:
                    if isinstance(a, ast.Starred):
                        x, tx = self.expr(a.value, env)
                        if tx != "strs":
                            raise Unsupported("Path(*%s)" % tx)
                        parts.append(x)
                    else:
                        x, tx = self.expr(a, env)
                        if tx != "str":
                            raise Unsupported("Path(%s)" % tx)
                        parts.append("[%s]" % x)
                return "(Py.Prs.pathNew (%s))" % " ++ ".join(parts), "pypath"
            x, tx = self.expr(f.value, env)
            args = [self.expr(a, env) for a in e.args]
            sig = (tx, f.attr, tuple(t for _, t in args))
            if e.keywords:
                raise Unsupported("call `%s`" % ast.unparse(e)[:60])
            if sig == ("str", "split", ("str",)) and isinstance(e.args[0], ast.Constant) and len(e.args[0].value) == 1:
                return "(Importing.splitOn '%s' %s)" % (e.args[0].value.replace("'", "\\'"), x), "strs"
            if sig == ("str", "startswith", ("str",)):
                return "(Py.Prs.startswith %s %s)" % (x, args[0][0]), "bool"
            if sig == ("pypath", "joinpath", ("str",)):
                return "(Py.Prs.pathJoin %s %s)" % (x, args[0][0]), "pypath"
            if sig == ("pypath", "exists", ()):
                return "(exists_ %s)" % x, "bool"
            if sig == ("pypaths", "union", ("pypaths",)):
                return "(Py.Prs.setUnion %s %s)" % (x, args[0][0]), "pypaths"
            if sig == ("dict", "items", ()):
                return x, "dictitems"
            raise Unsupported("method call `%s` on %s" % (ast.unparse(e)[:60], tx))
        raise Unsupported("call `%s`" % ast.unparse(e)[:60])

    def call_args(self, e, cal, env):
        out = []
        for (p, t), a in zip(cal.params, self.bind_args(e, cal)):
            if a is None:
                out.append(cal.defaults[p])
                continue
            x, tx = self.expr(a, env)
            if tx == "dp" and t == "ditem":
                x, tx = "(Py.Prs.DItem.msg %s)" % x, "ditem"
            if tx == "edp" and t == "ditem":
                x, tx = "(Py.Prs.DItem.enum %s)" % x, "ditem"
            if tx != t:
                raise Unsupported("argument %s of `%s` has type %s, not %s" % (p, ast.unparse(e)[:50], tx, t))
            out.append(x)
        return out

    def response_file(self, e, env):
        self.mod.imported("CodeGeneratorResponseFile")
        kws = {k.arg: k.value for k in e.keywords}
        if e.args or not set(kws) <= {"name", "content"} or "name" not in kws or len(kws) != len(e.keywords):
            raise Unsupported("call `%s`" % ast.unparse(e)[:60])
        n, tn = self.expr(kws["name"], env)
        if tn != "str":
            raise Unsupported("CodeGeneratorResponseFile(name=%s)" % tn)
        content = "none"
        if "content" in kws:
            c = kws["content"]
            self.mod.imported("outputfile_compiler")
            if not (isinstance(c, ast.Call) and is_name(c.func, "outputfile_compiler") and not c.args
                    and len(c.keywords) == 1 and c.keywords[0].arg == "output_file"):
                raise Unsupported("content `%s`" % ast.unparse(c)[:60])
            t, tt = self.expr(c.keywords[0].value, env)
            if tt != "outtpl":
                raise Unsupported("outputfile_compiler(output_file=%s)" % tt)
            content = "(some %s)" % t
        return "({ name := %s, content := %s } : Py.Prs.RFile)" % (n, content), "rfile"

    # ------------------------------------------------------------ constructions of compiler objects
    def construct(self, call, env):
        """a compiler-object construction: (Lean text of the changed OutputTemplate or of (object, OutputTemplate),
        type of the object or None, name of the OutputTemplate variable)"""
        f = call.func
        op = self.the_outtpl(env)
        if call.args:
            raise Unsupported("positional arguments in `%s`" % ast.unparse(call)[:60])
        kws = {k.arg: k.value for k in call.keywords}
        if None in kws or len(kws) != len(call.keywords):
            raise Unsupported("call `%s`" % ast.unparse(call)[:60])
        if is_name(f, "MessageCompiler") or is_name(f, "EnumDefinitionCompiler") or is_name(f, "ServiceCompiler"):
            cls, ptype, ptypes = f.id, "outtpl", None
        elif is_name(f, "ServiceMethodCompiler"):
            cls, ptype = f.id, "svcc"
        elif isinstance(f, ast.Name) and (f.id in FIELD_CLASSES and f.id not in env or env.get(f.id) == "fcls"):
            cls, ptype = None, "msgc"
        else:
            raise Unsupported("call `%s`" % ast.unparse(call)[:60])
        if isinstance(f, ast.Name) and f.id not in env:
            self.mod.imported(f.id)
        needs_tc = cls not in ("ServiceCompiler", "ServiceMethodCompiler")
        want = {"source_file", "parent", "proto_obj", "path"} | ({"typing_compiler"} if needs_tc else set())
        if set(kws) != want:
            raise Unsupported("arguments of `%s`" % ast.unparse(call)[:60])
        if not (isinstance(kws["source_file"], ast.Name) and env.get(kws["source_file"].id) == "filed"
                and kws["source_file"].id == "source_file" and "source_file" in [p for p, _ in self.sig.params]):
            raise Unsupported("source_file= of `%s` is not the parameter source_file" % ast.unparse(call)[:40])
        if needs_tc:
            t = kws["typing_compiler"]
            if not (isinstance(t, ast.Attribute) and t.attr == "typing_compiler" and is_name(t.value, op)):
                raise Unsupported("typing_compiler= of `%s` is not %s.typing_compiler" % (ast.unparse(call)[:40], op))
        par, tpar = self.expr(kws["parent"], env)
        if tpar != ptype or not isinstance(kws["parent"], ast.Name):
            raise Unsupported("parent= of `%s` is a %s" % (ast.unparse(call)[:40], tpar))
        if ptype == "outtpl" and kws["parent"].id != op:
            raise Unsupported("parent= of `%s`" % ast.unparse(call)[:40])
        obj, tobj = self.expr(kws["proto_obj"], env)
        path, tpath = self.expr(kws["path"], env)
        if tpath != "ints":
            raise Unsupported("path= of type " + tpath)
        o = ln(op)
        if cls == "MessageCompiler" and tobj == "dp":
            return "(Py.Prs.newMessageCompiler %s %s %s)" % (o, obj, path), "msgc", op
        if cls == "EnumDefinitionCompiler" and tobj == "edp":
            return "(Py.Prs.newEnumDefinitionCompiler %s %s %s)" % (o, obj, path), None, op
        if cls == "ServiceCompiler" and tobj == "svcd":
            return "(Py.Prs.newServiceCompiler %s %s %s)" % (o, obj, path), "svcc", op
        if cls == "ServiceMethodCompiler" and tobj == "methd":
            return "(Py.Prs.newServiceMethodCompiler %s %s %s %s)" % (o, par, obj, path), None, op
        if cls is None and tobj == "fdp":
            c, _ = self.expr(f, env)
            return "(Py.Prs.newFieldCompiler %s %s %s %s %s)" % (c, o, par, obj, path), None, op
        raise Unsupported("proto_obj= of `%s` is a %s" % (ast.unparse(call)[:40], tobj))

    def is_construction(self, e, env):
        return isinstance(e, ast.Call) and isinstance(e.func, ast.Name) and (
            (e.func.id in FIELD_CLASSES + ["MessageCompiler", "EnumDefinitionCompiler", "ServiceCompiler",
                                           "ServiceMethodCompiler"] and e.func.id not in env)
            or env.get(e.func.id) == "fcls")

    # ------------------------------------------------------------ statements
    def escapes(self, stmts):
        for st in stmts:
            for n in walk_no_comp(st):
                if isinstance(n, (ast.Return, ast.Raise)):
                    return True
                if isinstance(n, ast.Continue):
                    return True
        return False

    def tuple_of(self, vs):
        if not vs:
            return "()"
        return ln(vs[0]) if len(vs) == 1 else "(" + ", ".join(ln(v) for v in vs) + ")"

    def tuple_ty(self, vs, env):
        if not vs:
            return "Unit"
        return lty(env[vs[0]]) if len(vs) == 1 else "(" + " × ".join(lty(env[v]) for v in vs) + ")"

    def let(self, x, t, ty, env):
        env[x] = ty
        return "let %s := %s" % (ln(x), t)

    def bind_name(self, x, env):
        if x in RESERVED or (len(x) > 1 and x[0] == "t" and x[1:].isdigit()) or x in IMPORTS or x in BUILTINS or x in self.mod.funcs \
                or x in self.local_sigs or x in ("pathlib", "sys"):
            raise Unsupported("assignment to " + x)

    def block(self, stmts, env, tail):
        """lines of the translation of `stmts` followed by tail(env)"""
        if not stmts:
            return tail(env)
        st, rest = stmts[0], stmts[1:]
        env = dict(env)
        if isinstance(st, ast.Expr) and isinstance(st.value, ast.Constant) and isinstance(st.value.value, str):
            return self.block(rest, env, tail)
        if isinstance(st, ast.Pass):
            return self.block(rest, env, tail)
        if isinstance(st, (ast.Assign, ast.AnnAssign)):
            return self.assign(st, rest, env, tail)
        if isinstance(st, ast.Expr):
            return self.expr_stmt(st.value, st, rest, env, tail)
        if isinstance(st, ast.If):
            return self.if_stmt(st, rest, env, tail)
        if isinstance(st, ast.For):
            return self.for_stmt(st, rest, env, tail)
        if isinstance(st, ast.Return):
            if rest:
                raise Unsupported("statements after return")
            return self.return_stmt(st, env)
        if isinstance(st, ast.Raise):
            if rest:
                raise Unsupported("statements after raise")
            x = st.exc
            if st.cause is None and isinstance(x, ast.Call) and is_name(x.func, "ValueError") and "ValueError" not in env:
                self.mod.unshadowed("ValueError", self.sig.node)
                return ["Py.Res.raise .value"]
            raise Unsupported("raise `%s`" % ast.unparse(st)[:60])
        if isinstance(st, ast.Continue):
            if not self.in_loop:
                raise Unsupported("continue outside a loop")
            return self.loop_next(env)
        raise Unsupported("statement `%s`" % ast.unparse(st).split("\n")[0][:60])

    def return_stmt(self, st, env):
        if self.in_loop:
            raise Unsupported("return inside a loop")
        if self.sig.kind == "gen":
            if st.value is not None:
                raise Unsupported("return with a value in a generator")
            return ["Py.Res.ok %s" % OUT]
        if self.sig.kind == "mut":
            op = [p for p, t in self.sig.params if t == "outtpl"][0]
            if st.value is None or (isinstance(st.value, ast.Constant) and st.value.value is None):
                return ["Py.Res.ok %s" % ln(op)]
            if self.is_construction(st.value, env):
                t, tobj, opv = self.construct(st.value, env)
                lines = self.take_pre()
                if opv != op:
                    raise Unsupported("return of an object of another OutputTemplate")
                if tobj is None:
                    return lines + ["let %s := %s" % (ln(op), t), "Py.Res.ok %s" % ln(op)]
                return lines + ["let (_, %s) := %s" % (ln(op), t), "Py.Res.ok %s" % ln(op)]
            raise Unsupported("return `%s`" % ast.unparse(st)[:60])
        if st.value is None:
            raise Unsupported("return without a value")
        t, ty = self.expr(st.value, env)
        if ty != self.sig.ret:
            raise Unsupported("return of a %s" % ty)
        return self.take_pre() + ["Py.Res.ok %s" % t]

    def end_of_function(self, env):
        if self.sig.kind == "gen":
            return ["Py.Res.ok %s" % OUT]
        if self.sig.kind == "mut":
            return ["Py.Res.ok %s" % ln([p for p, t in self.sig.params if t == "outtpl"][0])]
        raise Unsupported("%s can end without return" % self.sig.node.name)

    def assign(self, st, rest, env, tail):
        value = st.value
        targets = st.targets if isinstance(st, ast.Assign) else [st.target]
        if value is None:
            raise Unsupported("annotation without a value")
        # x = <construction>
        if self.is_construction(value, env):
            if len(targets) != 1 or not isinstance(targets[0], ast.Name):
                raise Unsupported("assignment `%s`" % ast.unparse(st)[:60])
            x = targets[0].id
            self.bind_name(x, env)
            t, tobj, op = self.construct(value, env)
            if tobj is None:
                raise Unsupported("the object `%s` is kept" % ast.unparse(value)[:40])
            lines = self.take_pre()
            env[x] = tobj
            return lines + ["let (%s, %s) := %s" % (ln(x), ln(op), t)] + self.block(rest, env, tail)
        # request_data = PluginRequestCompiler(plugin_request_obj=request)
        if isinstance(value, ast.Call) and is_name(value.func, "PluginRequestCompiler") \
                and "PluginRequestCompiler" not in env:
            self.mod.imported("PluginRequestCompiler")
            if len(targets) != 1 or not is_name(targets[0], "request_data") or value.args \
                    or [k.arg for k in value.keywords] != ["plugin_request_obj"] \
                    or env.get(getattr(value.keywords[0].value, "id", None)) != "request" or "request_data" in env:
                raise Unsupported("statement `%s`" % ast.unparse(st)[:60])
            env["request_data"] = "prc"
            env[DICT_ROOT] = "dict"
            return ["let %s : %s := []" % (ln(DICT_ROOT), lty("dict"))] + self.block(rest, env, tail)
        # a[k] = OutputTemplate(parent_request=request_data, package_proto_obj=f)
        if isinstance(value, ast.Call) and is_name(value.func, "OutputTemplate") and "OutputTemplate" not in env:
            self.mod.imported("OutputTemplate")
            kws = {k.arg: k.value for k in value.keywords}
            tg = targets[0]
            if len(targets) != 1 or value.args or set(kws) != {"parent_request", "package_proto_obj"} \
                    or not is_name(kws["parent_request"], "request_data") or env.get("request_data") != "prc" \
                    or not isinstance(tg, ast.Subscript):
                raise Unsupported("statement `%s`" % ast.unparse(st)[:60])
            d, td = self.expr(tg.value, env)
            k, tk = self.expr(tg.slice, env)
            f, tf = self.expr(kws["package_proto_obj"], env)
            if (td, tk, tf) != ("dict", "str", "filed") or self.root_of(tg, env) != DICT_ROOT:
                raise Unsupported("statement `%s`" % ast.unparse(st)[:60])
            lines = self.take_pre()
            return lines + ["let %s := Py.Prs.dictSet %s %s (Py.Prs.newOutputTemplate %s)" % (d, d, k, f)] \
                + self.block(rest, env, tail)
        # x: Set[pathlib.Path] = set()
        if self.typed_empty(st) and isinstance(targets[0], ast.Name) and targets[0].id not in env \
                and isinstance(value, ast.Call) and is_name(value.func, "set") and not value.args and not value.keywords:
            self.mod.unshadowed("set", self.sig.node)
            self.bind_name(targets[0].id, env)
            env[targets[0].id] = self.typed_empty(st)
            return ["let %s : %s := []" % (ln(targets[0].id), lty(env[targets[0].id]))] + self.block(rest, env, tail)
        t, ty = self.expr(value, env)
        lines = self.take_pre()
        if len(targets) > 1 or not isinstance(targets[0], ast.Name):
            # evaluate once, then store left to right
            v = self.tmp()
            lines.append("let %s := %s" % (v, t))
            t = v
        for tg in targets:
            lines += self.store(tg, t, ty, env)
        return lines + self.block(rest, env, tail)

    def store(self, tg, t, ty, env):
        """`tg = <value t of type ty>`: lines"""
        if isinstance(tg, ast.Name):
            self.bind_name(tg.id, env)
            if tg.id in env and env[tg.id] != ty and not (ty == "elist" and env[tg.id] in ELEM):
                raise Unsupported("%s changes its type from %s to %s" % (tg.id, env[tg.id], ty))
            if ty == "elist":
                if tg.id not in env:
                    raise Unsupported("empty list / set without a type: " + tg.id)
                return ["let %s : %s := []" % (ln(tg.id), lty(env[tg.id]))]
            if ty in ("fcls",) or ty in LEAN_TY or ty in ("dictitem", "rfiles"):
                return [self.let(tg.id, t, ty, env)]
            raise Unsupported("a %s is stored in %s" % (ty, tg.id))
        if isinstance(tg, ast.Attribute):
            # item.name = v
            if isinstance(tg.value, ast.Name) and env.get(tg.value.id) == "ditem" and tg.attr == "name" and ty == "str":
                x = tg.value.id
                return ["let %s := Py.Prs.setItemName %s %s" % (ln(x), ln(x), t)]
            # response.supported_features = CodeGeneratorResponseFeature.X
            if isinstance(tg.value, ast.Name) and env.get(tg.value.id) == "response" and tg.attr == "supported_features" \
                    and ty == "feature":
                x = ln(tg.value.id)
                return ["let %s := { %s with supported_features := some %s }" % (x, x, t)]
            # d[k].attr = v
            if isinstance(tg.value, ast.Subscript) and tg.attr in OUTTPL_STORE and OUTTPL_STORE[tg.attr] == ty:
                d, td = self.expr(tg.value.value, env)
                k, tk = self.expr(tg.value.slice, env)
                if (td, tk) == ("dict", "str") and self.root_of(tg, env) == DICT_ROOT:
                    cur = self.hoist("Py.Prs.dictGet %s %s" % (d, k))
                    return self.take_pre() + ["let %s := Py.Prs.dictSet %s %s { %s with %s := %s }" % (d, d, k, cur, tg.attr, t)]
        raise Unsupported("assignment to `%s`" % ast.unparse(tg)[:60])

    def typed_empty(self, st):
        """x: Set[pathlib.Path] = set()  ->  the element type"""
        if isinstance(st, ast.AnnAssign) and unq(st.annotation) in ("Set[pathlib.Path]",):
            return "pypaths"
        return None

    def expr_stmt(self, e, st, rest, env, tail):
        if isinstance(e, (ast.Yield, ast.YieldFrom)):
            if self.sig.kind != "gen" or e.value is None:
                raise Unsupported("yield")
            t, ty = self.expr(e.value, env)
            lines = self.take_pre()
            if isinstance(e, ast.Yield):
                if ty != ELEM[self.sig.ret]:
                    raise Unsupported("yield of a %s" % ty)
                lines.append("let %s := %s ++ [%s]" % (OUT, OUT, t))
            else:
                if ty != self.sig.ret:
                    raise Unsupported("yield from a %s" % ty)
                lines.append("let %s := %s ++ %s" % (OUT, OUT, t))
            return lines + self.block(rest, env, tail)
        if self.is_construction(e, env):
            t, tobj, op = self.construct(e, env)
            lines = self.take_pre()
            lines.append("let %s := %s" % ("(_, %s)" % ln(op) if tobj else ln(op), t))
            return lines + self.block(rest, env, tail)
        if isinstance(e, ast.Call) and isinstance(e.func, ast.Name) and e.func.id not in env:
            # print(…, file=sys.stderr): dropped
            if e.func.id == "print":
                self.check_print(e, env)
                return self.block(rest, env, tail)
            cal = self.callee(e.func.id)
            if cal is not None and cal.kind == "mut":
                op = self.mut_target(e, cal, env)
                # a compiler object passed on must be rooted at the OutputTemplate passed with it
                for (p, t), a in zip(cal.params, self.bind_args(e, cal)):
                    if t in ("msgc", "svcc") and not (isinstance(a, ast.Name) and env.get(a.id) == t
                                                      and self.the_outtpl(env) == op):
                        raise Unsupported("compiler object argument of `%s`" % ast.unparse(e)[:50])
                args = self.call_args(e, cal, env)
                lines = self.take_pre()
                lines.append("(%s %s %s).bind fun %s =>" % (cal.lean, " ".join(self.fixed_args(cal)), " ".join(args), ln(op)))
                return lines + self.block(rest, env, tail)
        if isinstance(e, ast.Call) and isinstance(e.func, ast.Attribute) and e.func.attr in ("append", "add") \
                and len(e.args) == 1 and not e.keywords:
            return self.append_stmt(e, env) + self.block(rest, env, tail)
        raise Unsupported("statement `%s`" % ast.unparse(e)[:60])

    def check_print(self, e, env):
        self.mod.unshadowed("print", self.sig.node)
        kws = {k.arg: k.value for k in e.keywords}
        f = kws.get("file")
        if set(kws) != {"file"} or not (isinstance(f, ast.Attribute) and f.attr == "stderr" and is_name(f.value, "sys")
                                         and "sys" not in env and self.mod.has_sys):
            raise Unsupported("print that does not go to sys.stderr")
        self.mod.unshadowed("sys", self.sig.node)

    def append_stmt(self, e, env):
        tg = e.func.value
        v, tv = self.expr(e.args[0], env)
        # response.file.append(f)
        if e.func.attr == "append" and isinstance(tg, ast.Attribute) and tg.attr == "file" \
                and isinstance(tg.value, ast.Name) and env.get(tg.value.id) == "response" and tv == "rfile":
            x = ln(tg.value.id)
            return self.take_pre() + ["let %s := { %s with file := %s.file ++ [%s] }" % (x, x, x, v)]
        # d[k].input_files.append(f)
        if e.func.attr == "append" and isinstance(tg, ast.Attribute) and tg.attr == "input_files" \
                and isinstance(tg.value, ast.Subscript) and tv == "filed":
            d, td = self.expr(tg.value.value, env)
            k, tk = self.expr(tg.value.slice, env)
            if (td, tk) == ("dict", "str") and self.root_of(tg, env) == DICT_ROOT:
                cur = self.hoist("Py.Prs.dictGet %s %s" % (d, k))
                return self.take_pre() + ["let %s := Py.Prs.dictSet %s %s { %s with input_files := %s.input_files ++ [%s] }"
                                          % (d, d, k, cur, cur, v)]
        if isinstance(tg, ast.Name) and tg.id in env:
            tx = env[tg.id]
            if e.func.attr == "add" and (tx, tv) == ("pypaths", "pypath"):
                return self.take_pre() + ["let %s := Py.Prs.setAdd %s %s" % (ln(tg.id), ln(tg.id), v)]
            if e.func.attr == "append" and tx in ELEM and ELEM[tx] == tv and tx not in ("pypaths", "dictitems"):
                return self.take_pre() + ["let %s := %s ++ [%s]" % (ln(tg.id), ln(tg.id), v)]
        raise Unsupported("statement `%s`" % ast.unparse(e)[:60])

    # ---- if
    def isinstance_test(self, test, env):
        if isinstance(test, ast.Call) and is_name(test.func, "isinstance") and "isinstance" not in env \
                and len(test.args) == 2 and not test.keywords and isinstance(test.args[0], ast.Name) \
                and env.get(test.args[0].id) == "ditem" and isinstance(test.args[1], ast.Name) \
                and test.args[1].id in ("DescriptorProto", "EnumDescriptorProto") and test.args[1].id not in env:
            self.mod.unshadowed("isinstance", self.sig.node)
            self.mod.imported(test.args[1].id)
            return test.args[0].id, test.args[1].id
        return None

    def if_stmt(self, st, rest, env, tail):
        it = self.isinstance_test(st.test, env)
        branches_escape = self.escapes(st.body) or self.escapes(st.orelse)
        if it:
            x, cls = it
            ctor, rty = (".msg", "dp") if cls == "DescriptorProto" else (".enum", "edp")
            env_t = dict(env)
            env_t[x] = rty
            head = "match %s with" % ln(x)

            pre = []

            def arms(body_t, body_f):
                return ["(" + head, "| %s %s =>" % (ctor, ln(x))] + ind(body_t) + ["| _ =>"] + ind(body_f[:-1]) \
                    + ind([body_f[-1] + ")"])
        else:
            cond = self.truth(st.test, env)
            pre = self.take_pre()
            env_t = env
            head = None

            def arms(body_t, body_f):
                return ["(if %s then" % cond] + ind(body_t) + ["else"] + ind(body_f[:-1]) + ind([body_f[-1] + ")"])
        if branches_escape:
            # the continuation is duplicated into both branches
            def cont(e2):
                e3 = dict(e2)
                if it:
                    e3[it[0]] = "ditem"      # after the if the variable is the unrefined item again
                return self.block(rest, e3, tail)
            bt = self.block(st.body, env_t, cont)
            bf = self.block(st.orelse, env, cont)
            return pre + arms(bt, bf)
        vs = [v for v in env if v in (self.assigned(st.body, env_t) | self.assigned(st.orelse, env))]
        if it and it[0] in vs:
            raise Unsupported("the tested variable %s is rebound in the branch" % it[0])
        tup = self.tuple_of(vs)

        def join(e2):
            return ["Py.Res.ok %s" % tup]
        bt = self.block(st.body, env_t, join)
        bf = self.block(st.orelse, env, join)
        lines = arms(bt, bf)
        lines[-1] += ".bind fun %s =>" % tup
        return pre + lines + self.block(rest, env, tail)

    # ---- for
    def loop_next(self, env):
        lp = self.cur_loop
        lines = []
        if lp["writeback"]:
            d, k, v = lp["writeback"]
            lines.append("let %s := Py.Prs.dictSet %s %s %s" % (ln(d), ln(d), ln(k), ln(v)))
        idx = ["(%s + 1)" % ln(lp["index"])] if lp["index"] else []
        lines.append("%s %s" % (lp["head"], " ".join(idx + ["loop_tail", self.tuple_of(lp["carried"])])))
        return lines

    def for_stmt(self, st, rest, env, tail):
        if st.orelse:
            raise Unsupported("for … else")
        # a loop that only prints to stderr is dropped
        if all(isinstance(s, ast.Expr) and isinstance(s.value, ast.Call) and is_name(s.value.func, "print")
               for s in st.body):
            for s in st.body:
                self.check_print(s.value, env)
            return self.block(rest, env, tail)
        it = st.iter
        index = None
        if isinstance(it, ast.Call) and is_name(it.func, "enumerate") and "enumerate" not in env:
            self.mod.unshadowed("enumerate", self.sig.node)
            if len(it.args) != 1 or it.keywords or not isinstance(st.target, ast.Tuple) or len(st.target.elts) != 2 \
                    or not all(isinstance(x, ast.Name) for x in st.target.elts):
                raise Unsupported("loop `%s`" % ast.unparse(st).split("\n")[0][:60])
            index = st.target.elts[0].id
            elem_target = st.target.elts[1]
            it = it.args[0]
        else:
            elem_target = st.target
        xs, txs = self.expr(it, env)
        lines = self.take_pre()
        if txs not in ELEM:
            raise Unsupported("loop over a %s" % txs)
        te = ELEM[txs]
        benv = dict(env)
        if index:
            self.bind_name(index, env)
            benv[index] = "int"
        writeback = None
        if te in ("dictitem", "ypair"):
            if not (isinstance(elem_target, ast.Tuple) and len(elem_target.elts) == 2
                    and all(isinstance(x, ast.Name) for x in elem_target.elts)):
                raise Unsupported("loop target `%s`" % ast.unparse(elem_target))
            a, b = [x.id for x in elem_target.elts]
            ta, tb = ("str", "outtpl") if te == "dictitem" else ("ditem", "ints")
            for x in (a, b):
                self.bind_name(x, env)
            benv[a], benv[b] = ta, tb
            pat = "(%s, %s)" % (ln(a), ln(b))
            if te == "dictitem":
                root = self.root_of(it.func.value, env) if isinstance(it, ast.Call) else None
                if root != DICT_ROOT:
                    raise Unsupported("loop over the items of `%s`" % ast.unparse(it)[:40])
                body_assigned = self.assigned(st.body, benv)
                if root in body_assigned or a in body_assigned:
                    raise Unsupported("the dict (or the key) is rebound inside the loop over its items")
                if b in body_assigned:
                    writeback = (root, a, b)
        else:
            if not isinstance(elem_target, ast.Name):
                raise Unsupported("loop target `%s`" % ast.unparse(elem_target))
            self.bind_name(elem_target.id, env)
            benv[elem_target.id] = te
            pat = ln(elem_target.id)
        targets = {n.id for n in ast.walk(st.target) if isinstance(n, ast.Name)}
        if any(t in env for t in targets):
            raise Unsupported("loop variable %s is also a variable outside the loop" % sorted(targets & set(env)))
        # the iterated list must not be changed by the body
        assigned = self.assigned(st.body, benv)
        for n in ast.walk(it):
            if isinstance(n, ast.Name) and n.id in assigned and not (writeback and n.id == writeback[0]):
                # an OutputTemplate VARIABLE is only ever changed in its `built` list (constructions); its
                # `input_files` are changed through the dict path only
                if isinstance(it, ast.Attribute) and it.attr == "input_files" and it.value is n \
                        and env.get(n.id) == "outtpl":
                    continue
                raise Unsupported("the body of the loop rebinds %s, which the loop runs over" % n.id)
        # an element changed in place (`item.name = …`) must not be read again through the list
        if any(t in assigned for t in {n.id for n in ast.walk(st.target) if isinstance(n, ast.Name)}):
            used_in_body = {n.id for s in st.body for n in ast.walk(s) if isinstance(n, ast.Name)}
            if any(isinstance(n, ast.Name) and n.id in used_in_body for n in ast.walk(it)) and te == "ditem":
                raise Unsupported("the loop changes its element in place and reads the list it runs over")
        carried = [v for v in env if v in assigned or (writeback and v == writeback[0])]
        used = {n.id for s in st.body for n in ast.walk(s) if isinstance(n, ast.Name)}
        if any(isinstance(n, ast.Attribute) and is_name(n.value, "request_data") and n.attr == "output_packages"
               for s in st.body for n in ast.walk(s)):
            used.add(DICT_ROOT)
        captured = [v for v in env if v in used and v not in carried and env[v] != "prc"]
        self.nloop += 1
        name = "%s.loop%d" % (self.sig.lean, self.nloop)
        fixed = list(self.sig.fixed()) + (["rec_"] if self.sig.recursive else [])
        head = "%s %s" % (name, " ".join(fixed + [ln(v) for v in captured]))
        sty = self.tuple_ty(carried, env)
        params = ["(fuel : Nat)"] + (["(exists_ : Py.Prs.PyPath → Bool)"] if self.sig.uses_exists else []) \
            + (["(rec_ : %s)" % self.rec_ty()] if self.sig.recursive else []) \
            + ["(%s : %s)" % (ln(v), lty(env[v])) for v in captured]
        saved = (getattr(self, "cur_loop", None), self.in_loop)
        self.cur_loop = {"head": head, "index": index, "carried": carried, "writeback": writeback}
        self.in_loop += 1
        body = self.block(st.body, benv, self.loop_next)
        self.cur_loop, self.in_loop = saved
        ipat = ["%s" % ln(index)] if index else []
        text = ["def %s %s :" % (name, " ".join(params)),
                "    %s%s → %s → Py.Res %s" % ("Int → " if index else "", lty(txs), sty, sty),
                "  | %s => Py.Res.ok %s" % (", ".join((["_"] if index else []) + ["[]", self.tuple_of(carried)]),
                                      self.tuple_of(carried)),
                "  | %s =>" % ", ".join(ipat + ["%s :: loop_tail" % pat, self.tuple_of(carried)])] + ind(body, 2)
        self.loops.append("\n".join(text))
        lines.append("(%s %s).bind fun %s =>" % (head, " ".join((["(0 : Int)"] if index else []) + [xs, self.tuple_of(carried)]),
                                                 self.tuple_of(carried)))
        return lines + self.block(rest, env, tail)

    def rec_ty(self):
        return " → ".join([lty(t) for _, t in self.sig.params] + ["Py.Res %s" % lty(self.sig.ret)])

    # ------------------------------------------------------------ the function
    def function(self):
        sig = self.sig
        fn = sig.node
        env = {}
        for p, t in sig.params:
            env[p] = t
        if sig.kind == "gen":
            env[OUT] = sig.ret
        stmts = [st for st in fn.body if not isinstance(st, ast.FunctionDef)]
        body = self.block(stmts, env, self.end_of_function)
        if sig.kind == "gen":
            body = ["let %s : %s := []" % (OUT, lty(sig.ret))] + body
        head = "/- %s  (%s, line %d) -/" % (sig.lean, REL, fn.lineno)
        fixed = "(fuel : Nat)" + (" (exists_ : Py.Prs.PyPath → Bool)" if sig.uses_exists else "")
        params = " ".join("(%s : %s)" % (ln(p), lty(t)) for p, t in sig.params)
        if sig.recursive:
            tys = " → ".join(lty(t) for _, t in sig.params)
            text = ["def %s : Nat → %s → %s" % (sig.lean, tys, sig.res_ty()),
                    "  | 0%s => Py.Res.diverge" % "".join(", _" for _ in sig.params),
                    "  | fuel + 1, %s =>" % ", ".join(ln(p) for p, _ in sig.params),
                    "    let rec_ := %s fuel" % sig.lean] + ind(body, 2)
        else:
            text = ["def %s %s %s : %s :=" % (sig.lean, fixed, params, sig.res_ty())] + ind(body)
        return [head + "\n" + "\n\n".join(self.loops + ["\n".join(text)])]


HEADER = """import BpProofs.PyPreludeParser
import BpProofs.Gen.SrcPlugin
/- GENERATED by harness/extract_srcparser.py from the Python AST of src/betterproto/plugin/parser.py -- do not edit.
   Each definition is the statement-by-statement translation of the named function (a generator: the list of the
   yielded values; a function that changes its OutputTemplate argument: the changed OutputTemplate); `<f>.loop<n>`
   is the n-th `for` loop of `<f>`.  `Models.is_map` / `Models.is_oneof` are the translations of models.py's functions
   (Gen/SrcPlugin.lean). -/
set_option linter.unusedVariables false
namespace Bp.Src.Parser
open Bp Bp.Importing
open Bp.Src

"""


def translate(path=SRC):
    tree = ast.parse(open(path).read())
    mod = Module(tree)
    mod.run()
    return mod


def render(path=SRC):
    try:
        mod = translate(path)
        errs = ["%s: %s" % (k, v) for k, v in mod.failed.items()]
        return HEADER + "\n\n".join(mod.out) + "\n\nend Bp.Src.Parser\n", ("; ".join(errs) or None)
    except Unsupported as e:
        msg = "the source translator does not support the current source: %s" % e
    except (OSError, SyntaxError) as e:
        msg = "the source translator could not read the source: %r" % (e,)
    return HEADER + "/- TRANSLATION FAILED: %s -/\n\nend Bp.Src.Parser\n" % msg.replace("-/", "- /"), msg


def main(write_if_changed, gen_dir):
    text, err = render()
    target = os.path.join(gen_dir, "..", "..", "BpProofs", "Gen", "SrcParser.lean")
    changed = write_if_changed(os.path.normpath(target), text)
    if err:
        print("extract_srcparser: " + err)
    return ["SrcParser.lean"] if changed else []


if __name__ == "__main__":
    t, e = render()
    print(t)
    if e:
        print("ERROR:", e)
