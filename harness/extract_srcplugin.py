"""SOURCE TRANSLATOR (C03): Python AST of the FIELD CLASSIFICATION of the protoc plugin,
/repo/src/betterproto/plugin/models.py -> Lean definitions.

Same scheme as extract_src.py / extract_srcimp.py / extract_srctyping.py (whose translator class `TrT` — the str /
list-of-str fragment — is subclassed here): on every run the module functions `get_map_entry`, `is_map`, `is_oneof`
and, for each of the four CONCRETE classes `FieldCompiler`, `OneOfFieldCompiler`, `PydanticOneOfFieldCompiler`,
`MapEntryCompiler`, the properties / methods `proto_name`, `py_name`, `field_wraps`, `optional`, `repeated`,
`field_type`, `packed`, `betterproto_field_args`, `py_type`, `annotation`, `get_field_string` are read from the working
tree with `ast`, translated statement by statement into pure Lean functions over the vocabulary of
lean/BpProofs/PyPrelude.lean + PyPreludeStr.lean + PyPreludeTyping.lean + PyPreludePlugin.lean, and written to
lean/BpProofs/Gen/SrcPlugin.lean (namespace `Bp.Src.Models`).  lean/BpProofs/SrcTiePlugin.lean proves each translated
function equal to the function of the hand-written model lean/BpModel/Plugin.lean (`getMapEntry`, `isMap`, `isOneof`,
`wrapsOf`, the components of `compileField`'s `CField` …); lean/BpProofs/Props/C03Src.lean states those equalities, and
what follows from them through the C03 theorems, as property obligations.

Dynamic dispatch.  A property `self.p` is looked up in the method resolution order of the concrete class of the object
(single inheritance is checked), so every function is generated once PER CONCRETE CLASS `C`, as `C.p`, from the body of
the first class in the order `C`, base of `C`, … that defines `p`, with `self.q` inside it again resolved for `C`;
`super().p` inside the body taken from class `D` is the definition of `p` found after `D` in that order, generated as
`C.p.from_<E>`.  Each function is translated on its own: one that is outside the fragment is reported as
`NOT TRANSLATED` in the generated file (with the ones that depend on it), the others are still generated.

Objects.  `self` is `Py.Plg.Self` (see PyPreludePlugin.lean): `self.proto_obj` (FieldDescriptorProto -> `Plugin.FieldP`),
`self.parent.proto_obj` (DescriptorProto -> `Plugin.MsgP`), the stored attributes of MapEntryCompiler, `use_builtins`
and the text returned by `get_type_reference(...)` are its components; `self.parent` itself is an opaque compiler
object.  A parameter annotated `DescriptorProto` receives a `Py.Plg.ParentObj` (a descriptor or a compiler object: the
source passes both).  `self.typing_compiler` is THREADED through `annotation` / `get_field_string` like the `imports` set
of extract_srcimp.py (`Py.Plg.TC`: class and state of the object); a method call on it goes through a dispatcher
`TypingCompiler.<m>` generated here from the three concrete compilers of Gen/SrcTyping.lean.

Left out on purpose (stated in the generated file): in `get_field_string` the statement
`if self.py_name in dir(builtins): self.parent.builtins_types.add(self.py_name)` (it mutates the parent and binds no
local: the translated function is the returned text); the line `get_type_reference` adds to the imports set.

Fragment of Python added to the one of extract_srctyping.TrT (anything else raises Unsupported):
  attributes of descriptor objects (`.type .label .type_name .name .number .proto3_optional .oneof_index` of a
  FieldDescriptorProto, `.nested_type .name .options.map_entry .oneof_decl[i].name .field[i]` of a DescriptorProto);
  `FieldDescriptorProtoType.<NAME>`, `FieldDescriptorProtoLabel.<NAME>`, `==` / `!=` on them,
  `FieldDescriptorProtoType(x).name`; `x in <module-level tuple of FieldDescriptorProtoType members>` (the tuple is
  translated too), `x in WRAPPER_TYPES`; `which_one_of(f, "oneof_index")[0]`; `getattr(p, "nested_type", [])`,
  `hasattr(p, "nested_type")`; `for x in <list>:` with `return` inside (no break / continue / else);
  `return None` / `return x` in a function annotated `Optional[…]`; `x is None`, `x is not None`; truth value and
  f-string of an `Optional[str]`, f-string of an int; `s.lower() .upper() .replace(a, b) .endswith(p)`; `.pop()` on a
  temporary list; `xs.append(e)` on a local list; `a and b` / `a or b` / `a if c else b` with operands that call
  properties (short-circuit kept); `pythonize_field_name(x)`; `self.<property>`, `super().<property>`,
  `self.typing_compiler.<method>(…)`; the one call `get_type_reference(package=self.output_file.package, …)`.
"""
import ast
import os

import extract_src
from extract_src import Sig, Unsupported, LEAN_TY, STREAM_TYS, nm, indent, lty
from extract_srcimp import lean_str
from extract_srctyping import TrT

REPO = os.environ.get("VERIF_REPO", "/repo")
SRC = os.path.join(REPO, "src", "betterproto", "plugin", "models.py")
TYPING_SRC = os.path.join(REPO, "src", "betterproto", "plugin", "typing_compiler.py")
REL = "src/betterproto/plugin/models.py"

LEAN_TY.update({"str": "Str", "strs": "(List Str)", "fdp": "Plugin.FieldP", "dp": "Plugin.MsgP",
                "dps": "(List Plugin.MsgP)", "optdp": "(Option Plugin.MsgP)", "optstr": "(Option Str)",
                "parentobj": "Py.Plg.ParentObj", "plgself": "Py.Plg.Self", "tc": "Py.Plg.TC", "ftype": "Nat",
                "flabel": "Plugin.Label", "compilerobj": "Unit"})
STREAM_TYS.add("tc")

RET_ANNOT = {"str": "str", "bool": "bool", "int": "int", "List[str]": "strs", "Optional[str]": "optstr",
             "Optional[DescriptorProto]": "optdp"}
PARAM_ANNOT = {"str": "str", "bool": "bool", "int": "int", "FieldDescriptorProto": "fdp", "DescriptorProto": "parentobj"}
OPTIONAL_OF = {"optdp": "dp", "optstr": "str"}
ELEM_OF = {"dps": "dp", "strs": "str"}

FUNCTIONS = ["get_map_entry", "is_map", "is_oneof"]
CLASSES = ["FieldCompiler", "OneOfFieldCompiler", "PydanticOneOfFieldCompiler", "MapEntryCompiler"]
ROOT = "FieldCompiler"          # properties are looked up from the concrete class up to this class
MEMBERS = ["proto_name", "py_name", "field_wraps", "optional", "repeated", "field_type", "packed",
           "betterproto_field_args", "py_type", "annotation", "get_field_string"]
THREADED = {"annotation", "get_field_string"}       # these take and hand back the typing compiler
TC_VAR = "self_typing_compiler"
# attributes of the object that are components of Py.Plg.Self: name -> (type, classes that store it)
SELF_ATTRS = {"proto_k_type": ("str", "MapEntryCompiler"), "proto_v_type": ("str", "MapEntryCompiler"),
              "py_k_type": ("str", "MapEntryCompiler"), "py_v_type": ("str", "MapEntryCompiler")}
FDP_ATTRS = {"type": ("Py.Plg.fType", "ftype"), "label": ("Py.Plg.fLabel", "flabel"),
             "type_name": ("Py.Plg.fTypeName", "str"), "name": ("Py.Plg.fName", "str"),
             "number": ("Py.Plg.fNumber", "int"), "proto3_optional": ("Py.Plg.fProto3Optional", "bool"),
             "oneof_index": ("Py.Plg.fOneofIndex", "int")}
DP_ATTRS = {"nested_type": ("Py.Plg.nestedType", "dps"), "name": ("Py.Plg.dName", "str")}
LABELS = {"LABEL_OPTIONAL": "Plugin.Label.optional", "LABEL_REQUIRED": "Plugin.Label.required",
          "LABEL_REPEATED": "Plugin.Label.repeated"}
# statements left out of a method (exact text): they must bind no local
SKIPPED = {"get_field_string": ["if self.py_name in dir(builtins):\n    self.parent.builtins_types.add(self.py_name)"]}
# names the module must import (and bind nowhere else): name -> allowed (module, level)
IMPORTS = {"FieldDescriptorProtoType": {("betterproto.lib.google.protobuf", 0)},
           "FieldDescriptorProtoLabel": {("betterproto.lib.google.protobuf", 0)},
           "which_one_of": {(None, 2), ("betterproto", 0)},
           "WRAPPER_TYPES": {("compile.importing", 2), ("betterproto.compile.importing", 0)},
           "get_type_reference": {("compile.importing", 2), ("betterproto.compile.importing", 0)},
           "pythonize_field_name": {("compile.naming", 2), ("betterproto.compile.naming", 0)}}
TYPE_REF_CALL = {"package": "self.output_file.package", "imports": "self.output_file.imports_end",
                 "source_type": None, "typing_compiler": "self.typing_compiler",
                 "pydantic": "self.output_file.pydantic_dataclasses"}
TC_CLASSES = [("DirectImportTypingCompiler", "direct"), ("TypingImportTypingCompiler", "typingImport"),
              ("NoTyping310TypingCompiler", "noTyping310")]


def is_name(e, ident):
    return isinstance(e, ast.Name) and e.id == ident


def is_self(e):
    return is_name(e, "self")


def is_super_call(e):
    return isinstance(e, ast.Call) and is_name(e.func, "super") and not e.args and not e.keywords


class Ctx:
    """facts about the module + the on-demand translation of the members of the concrete classes"""

    def __init__(self, tree, typing_tree):
        self.tree, self.typing_tree = tree, typing_tree
        self.classes = {n.name: n for n in tree.body if isinstance(n, ast.ClassDef)}
        self.sigs = {}
        self.done = {}          # lean name -> Sig | Unsupported
        self.out = []           # [(lean name, text)] in dependency order
        self.busy = set()
        self.tables = {}        # module-level tuples of type members: name -> Lean text
        self.members_used = []  # FieldDescriptorProtoType member names
        self.dispatchers = {}   # typing compiler method -> (Lean text, number of str params)
        self._imports_ok = {}

    # ------------------------------------------------------------ module-level facts
    def bindings(self, name):
        """every node of the module that binds `name`"""
        out = []
        for n in ast.walk(self.tree):
            if isinstance(n, ast.Name) and n.id == name and isinstance(n.ctx, (ast.Store, ast.Del)):
                out.append(n)
            elif isinstance(n, ast.arg) and n.arg == name:
                out.append(n)
            elif isinstance(n, (ast.FunctionDef, ast.AsyncFunctionDef, ast.ClassDef)) and n.name == name:
                out.append(n)
            elif isinstance(n, (ast.Import, ast.ImportFrom)):
                for a in n.names:
                    if (a.asname or a.name.split(".")[0]) == name:
                        out.append((n, a))
            elif isinstance(n, (ast.Global, ast.Nonlocal)) and name in n.names:
                out.append(n)
        return out

    def imported(self, name):
        """`name` is bound only by module-level `from <allowed module> import name`"""
        if name not in self._imports_ok:
            ok, seen = True, 0
            for b in self.bindings(name):
                if isinstance(b, tuple) and isinstance(b[0], ast.ImportFrom) and b[0] in self.tree.body \
                        and b[1].asname is None and b[1].name == name and (b[0].module, b[0].level) in IMPORTS[name]:
                    seen += 1
                else:
                    ok = False
            self._imports_ok[name] = ok and seen > 0
        if not self._imports_ok[name]:
            raise Unsupported("`%s` is not (only) the name imported from %s" % (
                name, " / ".join("%s%s" % ("." * l, m or "") for m, l in sorted(IMPORTS[name], key=str))))

    def betterproto_module(self):
        bs = self.bindings("betterproto")
        if not (len(bs) == 1 and isinstance(bs[0], tuple) and isinstance(bs[0][0], ast.Import)
                and bs[0][0] in self.tree.body and bs[0][1].name == "betterproto" and bs[0][1].asname is None):
            raise Unsupported("`betterproto` is not (only) the module bound by `import betterproto`")

    def module_function(self, name):
        bs = self.bindings(name)
        if not (len(bs) == 1 and isinstance(bs[0], ast.FunctionDef) and bs[0] in self.tree.body):
            raise Unsupported("`%s` is not (only) a function defined once at module level" % name)
        return bs[0]

    def type_table(self, name):
        """a module-level tuple of FieldDescriptorProtoType members -> name of its Lean definition"""
        if name not in self.tables:
            bs = self.bindings(name)
            asg = [n for n in self.tree.body if isinstance(n, ast.Assign) and len(n.targets) == 1
                   and is_name(n.targets[0], name)]
            if len(bs) != 1 or len(asg) != 1 or not isinstance(asg[0].value, ast.Tuple):
                raise Unsupported("`%s` is not (only) a tuple assigned once at module level" % name)
            self.imported("FieldDescriptorProtoType")
            items = []
            for x in asg[0].value.elts:
                if not (isinstance(x, ast.Attribute) and is_name(x.value, "FieldDescriptorProtoType")):
                    raise Unsupported("member %s of %s" % (ast.unparse(x), name))
                items.append(self.type_member(x.attr))
            self.tables[name] = "/- %s  (%s, line %d) -/\ndef %s : List Nat := [%s]" % (
                name, REL, asg[0].lineno, name, ", ".join(items))
        return name

    def type_member(self, member):
        if member not in self.members_used:
            self.members_used.append(member)
        return "(Py.Plg.typeMember %s)" % lean_str(member)

    def no_nested_type_on_compilers(self):
        """no class of the module defines, and no statement stores, an attribute `nested_type`"""
        for n in ast.walk(self.tree):
            if isinstance(n, ast.Attribute) and n.attr == "nested_type" and isinstance(n.ctx, (ast.Store, ast.Del)):
                raise Unsupported("an attribute `nested_type` is stored")
            if isinstance(n, ast.ClassDef):
                for m in n.body:
                    names = []
                    if isinstance(m, (ast.FunctionDef, ast.AsyncFunctionDef, ast.ClassDef)):
                        names = [m.name]
                    elif isinstance(m, ast.AnnAssign) and isinstance(m.target, ast.Name):
                        names = [m.target.id]
                    elif isinstance(m, ast.Assign):
                        names = [t.id for t in m.targets if isinstance(t, ast.Name)]
                    if "nested_type" in names:
                        raise Unsupported("class %s has a member `nested_type`" % n.name)
            if isinstance(n, ast.Call) and isinstance(n.func, ast.Name) and n.func.id in ("setattr", "__setattr__"):
                if not (len(n.args) >= 2 and isinstance(n.args[1], ast.Constant) and n.args[1].value != "nested_type"):
                    raise Unsupported("setattr with a computed name")

    # ------------------------------------------------------------ classes
    def mro(self, cname):
        """the class and its bases up to ROOT (single inheritance, all defined in this module)"""
        out = []
        c = cname
        while True:
            if c not in self.classes:
                raise Unsupported("class %s is not defined at module level" % c)
            cls = self.classes[c]
            if len([n for n in self.tree.body if isinstance(n, ast.ClassDef) and n.name == c]) != 1 or len(self.bindings(c)) != 1:
                raise Unsupported("class %s is bound more than once" % c)
            out.append(cls)
            if c == ROOT:
                return out
            if len(cls.bases) != 1 or not isinstance(cls.bases[0], ast.Name) or cls.keywords:
                raise Unsupported("bases of class %s" % c)
            c = cls.bases[0].id

    @staticmethod
    def member_def(cls, name):
        found = [m for m in cls.body if isinstance(m, (ast.FunctionDef, ast.AsyncFunctionDef)) and m.name == name]
        other = [m for m in cls.body
                 if (isinstance(m, ast.AnnAssign) and is_name(m.target, name))
                 or (isinstance(m, ast.Assign) and any(is_name(t, name) for t in m.targets))
                 or (isinstance(m, ast.ClassDef) and m.name == name)]
        if other or len(found) > 1:
            raise Unsupported("class %s binds `%s` in a way that is not one method definition" % (cls.name, name))
        return found[0] if found else None

    def resolve(self, cname, member, after=None):
        """(defining class, FunctionDef) of `member` for an object of class `cname`; `after`: start after that class"""
        order = self.mro(cname)
        if after is not None:
            idx = [i for i, c in enumerate(order) if c.name == after]
            if not idx:
                raise Unsupported("%s is not a base of %s" % (after, cname))
            order = order[idx[0] + 1:]
        for c in order:
            fn = self.member_def(c, member)
            if fn is not None:
                return c, fn
        raise Unsupported("no definition of `%s` for class %s%s between it and %s" % (
            member, cname, " after " + after if after else "", ROOT))

    def field_annotation(self, cname, attr, want):
        """the dataclass field `attr` is annotated `want` in `cname` and re-annotated by no translated subclass"""
        cls = self.classes.get(cname)
        anns = [m for m in (cls.body if cls else []) if isinstance(m, ast.AnnAssign) and is_name(m.target, attr)]
        if len(anns) != 1 or ast.unparse(anns[0].annotation).strip("\"'") != want:
            raise Unsupported("%s.%s is not annotated %s" % (cname, attr, want))
        for c in CLASSES:
            if c != cname and cname in [k.name for k in self.mro(c)]:
                for k in self.mro(c):
                    if k.name == cname:
                        break
                    if any(isinstance(m, ast.AnnAssign) and is_name(m.target, attr) for m in k.body) or \
                            self.member_def(k, attr) is not None:
                        raise Unsupported("%s rebinds `%s`" % (k.name, attr))

    def stored_attribute(self, cname, owner, attr):
        """`attr` is a dataclass field of `owner` that only `owner.__post_init__` stores: a `py_type` text
        (py_*) / the name of a FieldDescriptorProtoType member (proto_*); no class of the object's order makes it a method"""
        for c in self.mro(cname):
            if any(isinstance(m, (ast.FunctionDef, ast.AsyncFunctionDef, ast.ClassDef)) and m.name == attr for m in c.body):
                raise Unsupported("%s.%s is a method" % (c.name, attr))
            if c.name != owner and any(isinstance(m, (ast.AnnAssign, ast.Assign)) and attr in ast.unparse(m).split("=")[0].split(":")[0].split()
                                       for m in c.body):
                raise Unsupported("%s rebinds `%s`" % (c.name, attr))
        cls = self.classes[owner]
        if len([m for m in cls.body if isinstance(m, ast.AnnAssign) and is_name(m.target, attr)]) != 1:
            raise Unsupported("%s.%s is not a dataclass field" % (owner, attr))
        stores = [n for n in ast.walk(self.tree) if isinstance(n, ast.Attribute) and n.attr == attr
                  and isinstance(n.ctx, (ast.Store, ast.Del))]
        post = [m for m in cls.body if isinstance(m, ast.FunctionDef) and m.name == "__post_init__"]
        if len(post) != 1:
            raise Unsupported("%s.__post_init__" % owner)
        asg = [n for n in ast.walk(post[0]) if isinstance(n, ast.Assign) and len(n.targets) == 1
               and isinstance(n.targets[0], ast.Attribute) and n.targets[0].attr == attr and is_self(n.targets[0].value)]
        if len(stores) != 1 or len(asg) != 1 or asg[0].targets[0] is not stores[0]:
            raise Unsupported("self.%s is not stored exactly once, by %s.__post_init__" % (attr, owner))
        v = asg[0].value
        if attr.startswith("py_"):
            ok = isinstance(v, ast.Attribute) and v.attr == "py_type" and isinstance(v.value, ast.Call) \
                and is_name(v.value.func, ROOT)
        else:
            ok = isinstance(v, ast.Attribute) and v.attr == "name" and isinstance(v.value, ast.Call) \
                and is_name(v.value.func, "FieldDescriptorProtoType")
        if not ok:
            raise Unsupported("%s.__post_init__ stores `%s` in self.%s" % (owner, ast.unparse(v), attr))

    # ------------------------------------------------------------ typing compiler dispatch
    def dispatcher(self, method):
        if method not in self.dispatchers:
            tt = self.typing_tree
            subs = [n for n in ast.walk(tt) if isinstance(n, ast.ClassDef)
                    and any(ast.unparse(b).split(".")[-1] == "TypingCompiler" for b in n.bases)]
            if sorted(n.name for n in subs) != sorted(c for c, _ in TC_CLASSES) or \
                    any(n not in tt.body or len(n.bases) != 1 for n in subs):
                raise Unsupported("the subclasses of TypingCompiler are not exactly the three translated compilers")
            for n in ast.walk(self.tree):
                if isinstance(n, ast.ClassDef) and any("TypingCompiler" in ast.unparse(b) for b in n.bases):
                    raise Unsupported("models.py defines a typing compiler class")
            nparams = None
            for cls in subs:
                fns = [m for m in cls.body if isinstance(m, ast.FunctionDef) and m.name == method]
                if len(fns) != 1 or fns[0].decorator_list:
                    raise Unsupported("method %s of %s" % (method, cls.name))
                a = fns[0].args
                if a.vararg or a.kwarg or a.kwonlyargs or a.posonlyargs or a.defaults or not a.args or a.args[0].arg != "self" \
                        or any(x.annotation is None or ast.unparse(x.annotation) != "str" for x in a.args[1:]) \
                        or fns[0].returns is None or ast.unparse(fns[0].returns) != "str":
                    raise Unsupported("signature of %s.%s" % (cls.name, method))
                if nparams not in (None, len(a.args) - 1):
                    raise Unsupported("the compilers disagree on the parameters of " + method)
                nparams = len(a.args) - 1
            ps = ["a%d" % (i + 1) for i in range(nparams)]
            arms = "\n".join("  | .%s st => (%s.%s fuel st %s).bind fun (t, st) => .ok (t, .%s st)" % (
                ctor, c, method, " ".join(ps), ctor) for c, ctor in TC_CLASSES)
            txt = ("/- self.typing_compiler.%s(…): dispatch on the class of the object "
                   "(src/betterproto/plugin/typing_compiler.py) -/\n"
                   "def TypingCompiler.%s (fuel : Nat) (tc : Py.Plg.TC) %s : Py.Res (Str × Py.Plg.TC) :=\n  match tc with\n%s"
                   % (method, method, " ".join("(%s : Str)" % p for p in ps), arms))
            self.dispatchers[method] = (txt, nparams)
        return self.dispatchers[method][1]

    # ------------------------------------------------------------ translation on demand
    def lean_name(self, cname, member, definer, via_super):
        return "%s.%s.from_%s" % (cname, member, definer) if via_super else "%s.%s" % (cname, member)

    def ensure_member(self, cname, member, after=None):
        """Sig of the translation of `member` for concrete class `cname` (translating it first if needed)"""
        definer, fn = self.resolve(cname, member, after)
        name = self.lean_name(cname, member, definer.name, after is not None)
        if name in self.done:
            if isinstance(self.done[name], Unsupported):
                raise Unsupported("%s is not translated (%s)" % (name, self.done[name]))
            return self.done[name]
        if name in self.busy:
            raise Unsupported("%s is recursive" % name)
        self.busy.add(name)
        try:
            sg, txt = self.translate_member(cname, member, definer, fn, name)
            self.done[name] = sg
            self.sigs[name] = sg
            self.out.append((name, txt))
            return sg
        except Unsupported as e:
            self.done[name] = e
            self.out.append((name, None))
            raise
        finally:
            self.busy.discard(name)

    def translate_member(self, cname, member, definer, fn, name):
        decos = [ast.unparse(d) for d in fn.decorator_list]
        if not isinstance(fn, ast.FunctionDef) or decos not in (["property"], []):
            raise Unsupported("decorators of %s.%s: %r" % (definer.name, member, decos))
        is_prop = decos == ["property"]
        if is_prop and len(self.bindings("property")) != 0:
            raise Unsupported("`property` is rebound")
        a = fn.args
        if a.posonlyargs or a.kwonlyargs or a.kwarg or a.vararg or not a.args or a.args[0].arg != "self" \
                or a.args[0].annotation is not None or (is_prop and len(a.args) != 1):
            raise Unsupported("signature of %s.%s" % (definer.name, member))
        defaults = [None] * (len(a.args) - len(a.defaults)) + list(a.defaults)
        params = [("self", "plgself", None)]
        threaded = member in THREADED
        if threaded:
            params.append((TC_VAR, "tc", None))
        for x, d in list(zip(a.args, defaults))[1:]:
            s = ast.unparse(x.annotation).strip("\"'") if x.annotation is not None else None
            if s not in PARAM_ANNOT or x.arg in ("fuel", TC_VAR, "loop_tail"):
                raise Unsupported("parameter %s of %s.%s: annotation %s" % (x.arg, definer.name, member, s))
            params.append((x.arg, PARAM_ANNOT[s], d))
        rs = ast.unparse(fn.returns).strip("\"'") if fn.returns is not None else None
        if rs not in RET_ANNOT:
            raise Unsupported("return annotation of %s.%s: %s" % (definer.name, member, rs))
        sg = Sig(name, params, RET_ANNOT[rs], TC_VAR if threaded else None, "tc")
        sg.is_property = is_prop
        body, skipped = [], []
        for st in fn.body:
            if ast.unparse(st) in SKIPPED.get(member, []):
                if any(isinstance(x, ast.Name) and isinstance(x.ctx, ast.Store) for x in ast.walk(st)):
                    raise Unsupported("a skipped statement binds a local")
                skipped.append(st)
            else:
                body.append(st)
        tr = TrP(self, sg, cname, definer.name)
        txt = tr.function(body, {p: t for p, t, _ in params})
        note = "%s.%s for an object of class %s" % (definer.name, member, cname) if definer.name != cname or "from_" in name \
            else "%s.%s" % (cname, member)
        head = "/- %s  (%s, line %d)" % (note, REL, fn.lineno)
        for st in skipped:
            head += "\n   LEFT OUT (mutates self.parent, binds no local): `%s`" % " ".join(ast.unparse(st).split())
        return sg, head + " -/\n" + txt

    def ensure_function(self, fname):
        if fname in self.done:
            if isinstance(self.done[fname], Unsupported):
                raise Unsupported("%s is not translated (%s)" % (fname, self.done[fname]))
            return self.done[fname]
        if fname in self.busy:
            raise Unsupported("%s is recursive" % fname)
        self.busy.add(fname)
        try:
            fn = self.module_function(fname)
            a = fn.args
            if a.posonlyargs or a.kwonlyargs or a.kwarg or a.vararg or a.defaults or fn.decorator_list:
                raise Unsupported("signature of " + fname)
            params = []
            for x in a.args:
                s = ast.unparse(x.annotation).strip("\"'") if x.annotation is not None else None
                if s not in PARAM_ANNOT or x.arg in ("fuel", "self", "loop_tail"):
                    raise Unsupported("parameter %s of %s: annotation %s" % (x.arg, fname, s))
                params.append((x.arg, PARAM_ANNOT[s], None))
            rs = ast.unparse(fn.returns).strip("\"'") if fn.returns is not None else None
            if rs not in RET_ANNOT:
                raise Unsupported("return annotation of %s: %s" % (fname, rs))
            sg = Sig(fname, params, RET_ANNOT[rs], None)
            tr = TrP(self, sg, None, None)
            txt = "/- %s  (%s, line %d) -/\n%s" % (fname, REL, fn.lineno, tr.function(list(fn.body), {p: t for p, t, _ in params}))
            self.done[fname] = sg
            self.sigs[fname] = sg
            self.out.append((fname, txt))
            return sg
        except Unsupported as e:
            self.done[fname] = e
            self.out.append((fname, None))
            raise
        finally:
            self.busy.discard(fname)


class TrP(TrT):
    """TrT + descriptor objects, compiler objects, loops over lists"""

    def __init__(self, ctx, sig, cname, definer):
        TrT.__init__(self, ctx.sigs, sig, cname, None, True)
        self.ctx = ctx
        self.cname = cname          # concrete class of `self` (None in a module function)
        self.definer = definer      # class the body is taken from

    # ------------------------------------------------------------ helpers
    def need_self(self, env):
        if self.cname is None or env.get("self") != "plgself":
            raise Unsupported("`self` outside a method")

    def member_call(self, member, env, after=None):
        """binds + text + type of reading `self.member` / `super().member` (a property)"""
        self.need_self(env)
        sg = self.ctx.ensure_member(self.cname, member, after)
        if not getattr(sg, "is_property", False):
            raise Unsupported("%s is a method, read as an attribute" % sg.name)
        return self.invoke(sg, [], env)

    def invoke(self, sg, args, env):
        t = self.tmp()
        if sg.stream is None:
            return [("bind", t, "%s fuel self%s" % (sg.name, "".join(" " + a for a in args)))], t, sg.ret
        if env.get(TC_VAR) != "tc":
            raise Unsupported("%s uses the typing compiler, which is not threaded through %s" % (sg.name, self.sig.name))
        return [("bind", "(%s, %s)" % (t, TC_VAR), "%s fuel self %s%s" % (sg.name, TC_VAR, "".join(" " + a for a in args)))], t, sg.ret

    def coerce(self, text, ty, want, what):
        if ty == want:
            return text
        if want == "parentobj" and ty == "dp":
            return "(Py.Plg.ParentObj.descriptor %s)" % text
        if want == "parentobj" and ty == "compilerobj":
            return "Py.Plg.ParentObj.compiler"
        raise Unsupported("%s has type %s, expected %s" % (what, ty, want))

    # ------------------------------------------------------------ expressions
    def expr(self, e, env):
        ctx = self.ctx
        # ---- f-strings (str, int and Optional[str] parts)
        if isinstance(e, ast.JoinedStr):
            binds, parts = [], []
            for v in e.values:
                if isinstance(v, ast.Constant) and isinstance(v.value, str):
                    parts.append(lean_str(v.value))
                elif isinstance(v, ast.FormattedValue) and v.conversion == -1 and v.format_spec is None:
                    b, t, ty = self.expr(v.value, env)
                    binds += b
                    if ty == "str":
                        parts.append(t)
                    elif ty == "int":
                        parts.append("(Py.Plg.strOfInt %s)" % t)
                    elif ty == "optstr":
                        parts.append("(Py.Plg.fmtOptStr %s)" % t)
                    else:
                        raise Unsupported("f-string part %s of type %s" % (ast.unparse(v), ty))
                else:
                    raise Unsupported("f-string part " + ast.unparse(v))
            if not parts:
                return [], lean_str(""), "str"
            return binds, "(" + " ++ ".join(parts) + ")", "str"
        # ---- attributes
        if isinstance(e, ast.Attribute) and isinstance(e.ctx, ast.Load):
            v = e.value
            if is_name(v, "FieldDescriptorProtoType") and "FieldDescriptorProtoType" not in env:
                ctx.imported("FieldDescriptorProtoType")
                return [], ctx.type_member(e.attr), "ftype"
            if is_name(v, "FieldDescriptorProtoLabel") and "FieldDescriptorProtoLabel" not in env:
                ctx.imported("FieldDescriptorProtoLabel")
                if e.attr not in LABELS:
                    raise Unsupported("FieldDescriptorProtoLabel." + e.attr)
                return [], LABELS[e.attr], "flabel"
            # FieldDescriptorProtoType(x).name
            if e.attr == "name" and isinstance(v, ast.Call) and is_name(v.func, "FieldDescriptorProtoType") \
                    and "FieldDescriptorProtoType" not in env and len(v.args) == 1 and not v.keywords:
                ctx.imported("FieldDescriptorProtoType")
                b, x, tx = self.expr(v.args[0], env)
                if tx != "ftype":
                    raise Unsupported("FieldDescriptorProtoType(%s) of a %s" % (ast.unparse(v.args[0]), tx))
                t = self.tmp()
                return b + [("bind", t, "Py.Plg.typeEnumName %s" % x)], t, "str"
            # super().p
            if is_super_call(v) and "super" not in env:
                if ctx.bindings("super"):
                    raise Unsupported("`super` is rebound")
                return self.member_call(e.attr, env, after=self.definer)
            # self.…
            if is_self(v) and env.get("self") == "plgself":
                self.need_self(env)
                if e.attr == "proto_obj":
                    ctx.field_annotation(ROOT, "proto_obj", "FieldDescriptorProto")
                    return [], "self.proto_obj", "fdp"
                if e.attr == "parent":
                    ctx.field_annotation(ROOT, "parent", "MessageCompiler")
                    return [], "()", "compilerobj"
                if e.attr in SELF_ATTRS:
                    ty, owner = SELF_ATTRS[e.attr]
                    if owner not in [c.name for c in ctx.mro(self.cname)]:
                        raise Unsupported("self.%s on an object of class %s" % (e.attr, self.cname))
                    ctx.stored_attribute(self.cname, owner, e.attr)
                    return [], "self.%s" % e.attr, ty
                if e.attr == "use_builtins":
                    _, fn = ctx.resolve(self.cname, "use_builtins")
                    if [ast.unparse(d) for d in fn.decorator_list] != ["property"] or ast.unparse(fn.returns) != "bool":
                        raise Unsupported("use_builtins is not a bool property")
                    return [], "self.use_builtins", "bool"
                if e.attr in MEMBERS:
                    return self.member_call(e.attr, env)
                raise Unsupported("attribute self.%s" % e.attr)
            # self.parent.proto_obj
            if e.attr == "proto_obj" and isinstance(v, ast.Attribute) and v.attr == "parent" and is_self(v.value) \
                    and env.get("self") == "plgself":
                self.need_self(env)
                ctx.field_annotation(ROOT, "parent", "MessageCompiler")
                ctx.field_annotation("MessageCompiler", "proto_obj", "DescriptorProto")
                return [], "self.parent_proto_obj", "dp"
            # m.options.map_entry
            if e.attr == "map_entry" and isinstance(v, ast.Attribute) and v.attr == "options":
                b, m, tm = self.expr(v.value, env)
                if tm != "dp":
                    raise Unsupported(".options.map_entry of a " + str(tm))
                return b, "(Py.Plg.optionsMapEntry %s)" % m, "bool"
            # m.oneof_decl[i].name
            if e.attr == "name" and isinstance(v, ast.Subscript) and isinstance(v.value, ast.Attribute) \
                    and v.value.attr == "oneof_decl" and not isinstance(v.slice, ast.Slice):
                b0, m, tm = self.expr(v.value.value, env)
                if tm != "dp":
                    raise Unsupported(".oneof_decl of a " + str(tm))
                b1, i, ti = self.expr(v.slice, env)
                if ti != "int":
                    raise Unsupported("index of oneof_decl of type " + str(ti))
                t = self.tmp()
                return b0 + b1 + [("bind", t, "Py.Plg.oneofDeclName %s %s" % (m, i))], t, "str"
            # attributes of descriptor objects
            snap = self.ntmp
            try:
                b, x, tx = self.expr(v, env)
            except Unsupported:
                self.ntmp = snap
                return TrT.expr(self, e, env)
            if tx == "fdp":
                if e.attr not in FDP_ATTRS:
                    raise Unsupported("attribute %s of a FieldDescriptorProto" % e.attr)
                return b, "(%s %s)" % (FDP_ATTRS[e.attr][0], x), FDP_ATTRS[e.attr][1]
            if tx == "dp":
                if e.attr not in DP_ATTRS:
                    raise Unsupported("attribute %s of a DescriptorProto" % e.attr)
                return b, "(%s %s)" % (DP_ATTRS[e.attr][0], x), DP_ATTRS[e.attr][1]
            if tx == "parentobj":
                if e.attr != "nested_type":
                    raise Unsupported("attribute %s of the parent object" % e.attr)
                ctx.no_nested_type_on_compilers()
                t = self.tmp()
                return b + [("bind", t, "Py.Plg.nestedTypeOf %s" % x)], t, "dps"
            raise Unsupported("attribute %s of a %s" % (e.attr, tx))
        # ---- which_one_of(f, "oneof_index")[0]   /   m.field[i]
        if isinstance(e, ast.Subscript) and not isinstance(e.slice, ast.Slice):
            c = e.value
            if isinstance(c, ast.Call) and not c.keywords and len(c.args) == 2:
                f = c.func
                direct = is_name(f, "which_one_of") and "which_one_of" not in env
                dotted = isinstance(f, ast.Attribute) and f.attr == "which_one_of" and is_name(f.value, "betterproto") \
                    and "betterproto" not in env
                if direct or dotted:
                    if direct:
                        ctx.imported("which_one_of")
                    else:
                        ctx.betterproto_module()
                    if not (isinstance(c.args[1], ast.Constant) and c.args[1].value == "oneof_index"):
                        raise Unsupported("which_one_of for the group " + ast.unparse(c.args[1]))
                    if not (isinstance(e.slice, ast.Constant) and e.slice.value == 0 and type(e.slice.value) is int):
                        raise Unsupported("component %s of which_one_of" % ast.unparse(e.slice))
                    b, x, tx = self.expr(c.args[0], env)
                    if tx != "fdp":
                        raise Unsupported("which_one_of of a " + str(tx))
                    return b, "(Py.Plg.whichOneofIndex %s)" % x, "str"
            if isinstance(c, ast.Attribute) and c.attr == "field":
                snap = self.ntmp
                b0, m, tm = self.expr(c.value, env)
                if tm == "dp":
                    b1, i, ti = self.expr(e.slice, env)
                    if ti != "int":
                        raise Unsupported("index of .field of type " + str(ti))
                    t = self.tmp()
                    return b0 + b1 + [("bind", t, "Py.Plg.dField %s %s" % (m, i))], t, "fdp"
                self.ntmp = snap
        # ---- comparisons
        if isinstance(e, ast.Compare) and len(e.ops) == 1:
            op, right = e.ops[0], e.comparators[0]
            if isinstance(op, (ast.Is, ast.IsNot)) and isinstance(right, ast.Constant) and right.value is None:
                b, x, tx = self.expr(e.left, env)
                if tx not in OPTIONAL_OF:
                    raise Unsupported("`is None` on a " + str(tx))
                return b, "(%s).%s" % (x, "isNone" if isinstance(op, ast.Is) else "isSome"), "bool"
            if isinstance(op, (ast.In, ast.NotIn)) and isinstance(right, ast.Name) and right.id not in env:
                neg = "!" if isinstance(op, ast.NotIn) else ""
                if right.id == "WRAPPER_TYPES":
                    ctx.imported("WRAPPER_TYPES")
                    b, x, tx = self.expr(e.left, env)
                    if tx != "str":
                        raise Unsupported("`in WRAPPER_TYPES` of a " + str(tx))
                    return b, "(%sPy.Plg.inWrapperTypes %s)" % (neg, x), "bool"
                b, x, tx = self.expr(e.left, env)
                if tx == "ftype":
                    return b, "(%s%s.contains %s)" % (neg, ctx.type_table(right.id), x), "bool"
                raise Unsupported("membership test " + ast.unparse(e))
            if isinstance(op, (ast.Eq, ast.NotEq)):
                snap = self.ntmp
                b1, a, ta = self.expr(e.left, env)
                b2, b, tb = self.expr(right, env)
                if ta in ("ftype", "flabel") or tb in ("ftype", "flabel"):
                    if ta != tb:
                        raise Unsupported("comparison of %s with %s" % (ta, tb))
                    return b1 + b2, "(decide (%s %s %s))" % (a, "=" if isinstance(op, ast.Eq) else "≠", b), "bool"
                self.ntmp = snap
        # ---- and / or with operands that call properties: short-circuit kept
        if isinstance(e, ast.BoolOp):
            snap = self.ntmp
            vals = [self.expr(v, env) for v in e.values]
            if any(b for b, _, _ in vals[1:]):
                is_and = isinstance(e.op, ast.And)

                def build(i):
                    b, t, ty = vals[i]
                    c = self.truthy(t, ty)
                    if i == len(vals) - 1:
                        return self.wrap(b, ".ok %s" % c)
                    nxt = build(i + 1)
                    body = "if %s then\n%s\nelse\n  .ok false" % (c, indent(nxt)) if is_and else \
                        "if %s then\n  .ok true\nelse\n%s" % (c, indent(nxt))
                    return self.wrap(b, body)
                b0, t0, ty0 = vals[0]
                vals[0] = ([], t0, ty0)
                t = self.tmp()
                return b0 + [("bind", t, "(" + build(0) + ")")], t, "bool"
            if vals[0][0]:
                # only the first operand (always evaluated) calls something: its binds run first
                sym = " && " if isinstance(e.op, ast.And) else " || "
                return vals[0][0], "(" + sym.join(self.truthy(t, ty) for _, t, ty in vals) + ")", "bool"
            self.ntmp = snap
        # ---- conditional expression with effectful parts
        if isinstance(e, ast.IfExp):
            snap = self.ntmp
            bc, c, tc = self.expr(e.test, env)
            b1, a, ta = self.expr(e.body, env)
            b2, b, tb = self.expr(e.orelse, env)
            if b1 or b2:
                if ta != tb:
                    raise Unsupported("conditional expression of types %s / %s" % (ta, tb))
                t = self.tmp()
                txt = "(if %s then\n%s\nelse\n%s)" % (self.truthy(c, tc), indent(self.wrap(b1, ".ok %s" % a)),
                                                     indent(self.wrap(b2, ".ok %s" % b)))
                return bc + [("bind", t, txt)], t, ta
            self.ntmp = snap
        return TrT.expr(self, e, env)

    def truthy(self, text, ty):
        if ty == "optstr":
            return "(Py.Plg.truthyOptStr %s)" % text
        if ty in ("ftype", "flabel", "fdp", "dp", "dps", "optdp", "parentobj", "plgself", "tc", "compilerobj"):
            raise Unsupported("truth value of a " + ty)
        return TrT.truthy(self, text, ty)

    def call(self, e, env):
        f = e.func
        ctx = self.ctx
        # getattr(p, "nested_type", []) / hasattr(p, "nested_type")
        if isinstance(f, ast.Name) and f.id in ("getattr", "hasattr") and f.id not in env and not e.keywords:
            if ctx.bindings(f.id):
                raise Unsupported("`%s` is rebound" % f.id)
            if len(e.args) < 2 or not (isinstance(e.args[1], ast.Constant) and e.args[1].value == "nested_type"):
                raise Unsupported(ast.unparse(e))
            b, p, tp = self.expr(e.args[0], env)
            p = self.coerce(p, tp, "parentobj", "argument of " + f.id)
            ctx.no_nested_type_on_compilers()
            if f.id == "hasattr" and len(e.args) == 2:
                return b, "(Py.Plg.hasNestedType %s)" % p, "bool"
            if f.id == "getattr" and len(e.args) == 3 and isinstance(e.args[2], ast.List) and not e.args[2].elts:
                return b, "(Py.Plg.nestedTypeOr %s)" % p, "dps"
            raise Unsupported(ast.unparse(e))
        # pythonize_field_name(x)
        if is_name(f, "pythonize_field_name") and "pythonize_field_name" not in env and len(e.args) == 1 and not e.keywords:
            ctx.imported("pythonize_field_name")
            b, a, ta = self.expr(e.args[0], env)
            if ta != "str":
                raise Unsupported("pythonize_field_name of a " + str(ta))
            return b, "(Naming.pythonizeFieldName %s)" % a, "str"
        # get_type_reference(package=self.output_file.package, …)
        if is_name(f, "get_type_reference") and "get_type_reference" not in env:
            ctx.imported("get_type_reference")
            self.need_self(env)
            kw = {k.arg: k.value for k in e.keywords}
            if e.args or sorted(kw) != sorted(TYPE_REF_CALL) or \
                    any(want is not None and ast.unparse(kw[k]) != want for k, want in TYPE_REF_CALL.items()):
                raise Unsupported("arguments of get_type_reference: " + ast.unparse(e))
            b, a, ta = self.expr(kw["source_type"], env)
            if ta != "str":
                raise Unsupported("source_type of type " + str(ta))
            t = self.tmp()
            return b + [("bind", t, "self.get_type_reference %s" % a)], t, "str"
        # module functions
        if isinstance(f, ast.Name) and f.id in FUNCTIONS and f.id not in env:
            sg = ctx.ensure_function(f.id)
            if e.keywords or len(e.args) != len(sg.params):
                raise Unsupported("arguments of " + f.id)
            binds, args = [], []
            for (pn, pt, _), a in zip(sg.params, e.args):
                b, t, ty = self.expr(a, env)
                binds += b
                args.append(self.coerce(t, ty, pt, "argument %s of %s" % (pn, f.id)))
            t = self.tmp()
            return binds + [("bind", t, "%s fuel %s" % (sg.name, " ".join(args)))], t, sg.ret
        if isinstance(f, ast.Attribute) and not e.keywords:
            v = f.value
            # self.typing_compiler.m(…)
            if isinstance(v, ast.Attribute) and v.attr == "typing_compiler" and is_self(v.value) and env.get("self") == "plgself":
                self.need_self(env)
                if env.get(TC_VAR) != "tc":
                    raise Unsupported("the typing compiler is not threaded through " + self.sig.name)
                for c in ctx.mro(self.cname):
                    if ctx.member_def(c, "typing_compiler") is not None:
                        raise Unsupported("%s.typing_compiler is a method" % c.name)
                n = ctx.dispatcher(f.attr)
                if len(e.args) != n:
                    raise Unsupported("arguments of typing_compiler." + f.attr)
                binds, args = [], []
                for a in e.args:
                    b, t, ty = self.expr(a, env)
                    if ty != "str":
                        raise Unsupported("argument of typing_compiler.%s of type %s" % (f.attr, ty))
                    binds += b
                    args.append(t)
                t = self.tmp()
                return binds + [("bind", "(%s, %s)" % (t, TC_VAR), "TypingCompiler.%s fuel %s %s" % (f.attr, TC_VAR, " ".join(args)))], t, "str"
            # self.method(…)
            if is_self(v) and env.get("self") == "plgself" and f.attr in MEMBERS:
                self.need_self(env)
                sg = ctx.ensure_member(self.cname, f.attr)
                if getattr(sg, "is_property", False):
                    raise Unsupported("%s is a property, called" % sg.name)
                ps = [(p, t, d) for p, t, d in sg.params if p not in ("self", TC_VAR)]
                if len(e.args) > len(ps):
                    raise Unsupported("arguments of self." + f.attr)
                binds, args = [], []
                for i, (pn, pt, pd) in enumerate(ps):
                    a = e.args[i] if i < len(e.args) else pd
                    if a is None:
                        raise Unsupported("missing argument %s of self.%s" % (pn, f.attr))
                    b, t, ty = self.expr(a, env)
                    binds += b
                    args.append(self.coerce(t, ty, pt, "argument " + pn))
                b, t, ty = self.invoke(sg, args, env)
                return binds + b, t, ty
            # str methods
            if f.attr in ("lower", "upper") and not e.args:
                snap = self.ntmp
                b, s, ts = self.expr(v, env)
                if ts == "str":
                    return b, "(%s %s)" % ("Py.lower" if f.attr == "lower" else "Py.Plg.upper", s), "str"
                self.ntmp = snap
            if f.attr == "replace" and len(e.args) == 2:
                snap = self.ntmp
                b, s, ts = self.expr(v, env)
                if ts == "str":
                    b1, o, to = self.expr(e.args[0], env)
                    b2, n, tn = self.expr(e.args[1], env)
                    if to != "str" or tn != "str":
                        raise Unsupported("replace with arguments of type %s, %s" % (to, tn))
                    if not (isinstance(e.args[0], ast.Constant) and e.args[0].value):
                        raise Unsupported("replace of something that is not a non-empty str constant")
                    return b + b1 + b2, "(Py.Plg.replace %s %s %s)" % (s, o, n), "str"
                self.ntmp = snap
            if f.attr == "endswith" and len(e.args) == 1:
                snap = self.ntmp
                b, s, ts = self.expr(v, env)
                if ts == "str":
                    b1, p, tp = self.expr(e.args[0], env)
                    if tp != "str":
                        raise Unsupported("endswith of a " + str(tp))
                    return b + b1, "(Py.Plg.endswith %s %s)" % (s, p), "bool"
                self.ntmp = snap
            # <temporary list>.pop()
            if f.attr == "pop" and not e.args and isinstance(v, ast.Call):
                b, xs, tx = self.expr(v, env)
                if tx != "strs":
                    raise Unsupported("pop on a " + str(tx))
                t = self.tmp()
                return b + [("bind", t, "Py.index %s (-(1 : Int))" % xs)], t, "str"
        return TrT.call(self, e, env)

    # ------------------------------------------------------------ statements
    def block(self, stmts, env, k, in_loop):
        if stmts:
            st, rest = stmts[0], stmts[1:]
            # return in a function annotated Optional[…]
            if isinstance(st, ast.Return) and self.sig.ret in OPTIONAL_OF:
                if st.value is None or (isinstance(st.value, ast.Constant) and st.value.value is None):
                    return self.ret_text("none", env, in_loop)
                b, t, ty = self.expr(st.value, env)
                if ty == OPTIONAL_OF[self.sig.ret]:
                    t = "(some %s)" % t
                elif ty != self.sig.ret:
                    raise Unsupported("return type %s, declared %s" % (ty, self.sig.ret))
                return self.wrap(b, self.ret_text(t, env, in_loop))
            # xs.append(e) on a local list
            if isinstance(st, ast.Expr) and isinstance(st.value, ast.Call) and isinstance(st.value.func, ast.Attribute) \
                    and st.value.func.attr == "append" and isinstance(st.value.func.value, ast.Name) \
                    and env.get(st.value.func.value.id) == "strs":
                x = st.value.func.value.id
                if x in [p for p, _, _ in self.sig.params] or len(st.value.args) != 1 or st.value.keywords:
                    raise Unsupported("append on " + x)
                new = ast.Assign(targets=[ast.Name(id=x, ctx=ast.Store())],
                                 value=ast.BinOp(left=ast.Name(id=x, ctx=ast.Load()), op=ast.Add(),
                                                 right=ast.List(elts=[st.value.args[0]], ctx=ast.Load())))
                return self.block([new] + rest, env, k, in_loop)
            if isinstance(st, (ast.Break, ast.Continue)):
                raise Unsupported("break / continue")
        return TrT.block(self, stmts, env, k, in_loop)

    def loop(self, st, rest, env, k, in_loop):
        if isinstance(st, ast.For):
            snap = self.ntmp
            try:
                b0, xs, tx = self.expr(st.iter, env)
            except Unsupported:
                b0, xs, tx = [], None, None
            if tx in ELEM_OF:
                return self.for_list(st, rest, env, k, in_loop, b0, xs, tx)
            self.ntmp = snap
        return TrT.loop(self, st, rest, env, k, in_loop)

    def for_list(self, st, rest, env, k, in_loop, b0, xs, tx):
        """`for x in <list>: …` -> an auxiliary function by structural recursion on the list"""
        if st.orelse or not isinstance(st.target, ast.Name) or in_loop:
            raise Unsupported("loop else / tuple target / nested loop")
        var = st.target.id
        if var in env or var in ("fuel", "loop_tail"):
            raise Unsupported("the loop variable %s rebinds a name" % var)
        body = list(st.body)
        for s in body:
            for x in ast.walk(s):
                if isinstance(x, (ast.Break, ast.Continue, ast.For, ast.While)):
                    raise Unsupported("break / continue / nested loop")
        env = dict(env)
        self.nloop += 1
        lname = "%s.loop%d" % (self.sig.name, self.nloop)
        state = self.assigned(body, env)
        used = self.used(body)
        ro = [v for v in env if v not in state and v in used]
        params = ro + state
        stup = "(" + ", ".join(nm(v) for v in state) + ")" if len(state) != 1 else nm(state[0])
        sty = "Unit" if not state else ("(" + " × ".join(lty(env[v]) for v in state) + ")" if len(state) != 1 else lty(env[state[0]]))
        fret = self.sig.lean_ret()
        env_body = dict(env)
        env_body[var] = ELEM_OF[tx]

        def again(env2):
            return "%s fuel %s" % (lname, " ".join([nm(v) for v in params] + ["loop_tail"]))
        btxt = self.block(body, env_body, again, in_loop=True)
        sig_params = " ".join("(%s : %s)" % (nm(v), lty(env[v])) for v in params)
        d = "def %s (fuel : Nat) %s : %s → Py.Res (Py.Ctl %s %s)\n  | [] => .ok (.next %s)\n  | %s :: loop_tail =>\n%s" % (
            lname, sig_params, lty(tx), fret, sty, stup, nm(var), indent(btxt, 4))
        self.aux.append(d)
        after = self.block(rest, env, k, in_loop)
        callt = "%s fuel %s" % (lname, " ".join([nm(v) for v in params] + [xs]))
        return self.wrap(b0, "(%s).bind fun c =>\nmatch c with\n| .ret r => .ok r\n| .next %s =>\n%s" % (callt, stup, indent(after)))


# ------------------------------------------------------------------------------------------------ what is translated
def translate(path=SRC, typing_path=TYPING_SRC):
    tree = ast.parse(open(path).read())
    typing_tree = ast.parse(open(typing_path).read())
    ctx = Ctx(tree, typing_tree)
    for b in ("str", "bool", "len", "super", "property", "getattr", "hasattr"):
        if ctx.bindings(b):
            raise Unsupported("builtin `%s` is rebound" % b)
    failures = []
    for fname in FUNCTIONS:
        try:
            ctx.ensure_function(fname)
        except Unsupported as e:
            failures.append((fname, str(e)))
    for cname in CLASSES:
        for member in MEMBERS:
            try:
                ctx.ensure_member(cname, member)
            except Unsupported as e:
                failures.append(("%s.%s" % (cname, member), str(e)))
    parts = []
    if ctx.members_used:
        parts.append("/- the members of FieldDescriptorProtoType named in the source exist -/\n" + "\n".join(
            "example : Py.Plg.isTypeMember %s = true := by decide" % lean_str(m) for m in ctx.members_used))
    parts += [ctx.tables[t] for t in ctx.tables]
    parts += [ctx.dispatchers[m][0] for m in ctx.dispatchers]
    seen = set()
    for name, txt in ctx.out:
        if txt is None:
            if name not in seen:
                parts.append("/- NOT TRANSLATED: %s: %s -/" % (name, ctx.done[name]))
        else:
            parts.append(txt)
        seen.add(name)
    for name, msg in failures:
        if name not in seen:
            parts.append("/- NOT TRANSLATED: %s: %s -/" % (name, msg))
            seen.add(name)
    return parts, failures


HEADER = """import BpProofs.PyPreludePlugin
import BpProofs.Gen.SrcTyping
/- GENERATED by harness/extract_srcplugin.py from the Python AST of src/betterproto/plugin/models.py -- do not edit.
   Each definition is the statement-by-statement translation of the named function, or of the named property / method
   for an object of the named concrete class (`self.p` and `super().p` resolved in the method resolution order of that
   class).  `self` is a `Py.Plg.Self`; the typing compiler object is a parameter of `annotation` / `get_field_string`
   and is handed back with the result. -/
set_option linter.unusedVariables false
namespace Bp.Src.Models
open Bp Bp.Importing

"""


def render(path=SRC, typing_path=TYPING_SRC):
    try:
        parts, failures = translate(path, typing_path)
        err = None
        if failures:
            err = "the source translator does not support the current source: " + "; ".join("%s: %s" % f for f in failures)
        return HEADER + "\n\n".join(parts) + "\n\nend Bp.Src.Models\n", err
    except Unsupported as e:
        msg = "the source translator does not support the current source: %s" % e
        return HEADER + "/- TRANSLATION FAILED: %s -/\n\nend Bp.Src.Models\n" % msg, msg
    except (OSError, SyntaxError) as e:
        msg = "the source translator could not read the source: %r" % (e,)
        return HEADER + "/- TRANSLATION FAILED: %s -/\n\nend Bp.Src.Models\n" % msg, msg


def main(write_if_changed, gen_dir):
    text, err = render()
    target = os.path.join(gen_dir, "..", "..", "BpProofs", "Gen", "SrcPlugin.lean")
    changed = write_if_changed(os.path.normpath(target), text)
    if err:
        print("extract_srcplugin: " + err)
    return ["SrcPlugin.lean"] if changed else []


if __name__ == "__main__":
    t, e = render()
    print(t)
    if e:
        print("ERROR:", e)
