"""SOURCE TRANSLATOR for `Message.to_pydict` (per-field step), `Message.from_pydict` (per-key step) and the bodies of
`Message.to_json` / `Message.from_json` (property C14, touching C04): Python AST of /repo/src/betterproto/__init__.py ->
lean/BpProofs/Gen/SrcPyDict.lean.

  Src.to_pydict_field   the BODY of `for field_name, meta in self._betterproto.meta_by_field_name.items():` of to_pydict
  Src.from_pydict_key   the BODY of `for key in value:` of from_pydict
  Src.to_json           `return json.dumps(self.to_dict(...), indent=indent)`
  Src.from_json         `return self.from_dict(json.loads(value))`
  Src.to_pydict.default_* / Src.to_json.default_*   the default values of the keyword parameters

Same scheme as extract_srcjson.py (whose translator `TrJson` is subclassed for the field loop of to_pydict: the two
methods are written in the same style): on every run the code is read from the WORKING TREE with `ast`, translated
statement by statement into pure Lean functions over the vocabulary of PyPreludeDyn / PyPreludeJson / PyPreludeObj /
PyPreludePyDict and written out; an unsupported construct makes the translation FAIL (no definitions; the tie does not
build).  lean/BpProofs/SrcTiePyDict.lean proves the translated definitions equal to the model (`toPyDictSlot`,
`fromPyField`, `toJson`, `fromJson` of lean/BpModel/PyDict.lean); lean/BpProofs/Props/C14SrcPyDict.lean states that.

Interface of the to_pydict iteration (as `Src.to_dict_field`, the recursive call may raise):

    Src.to_pydict_field (S : Schema) (enc : Val → R PVal) (casing : KeyCase) (include_default_values : Bool)
                        (meta : FieldD) (got : Py.Got) (inclDefaultForOneof : Bool) (output : Py.JDict) : Py.Res Py.JDict

Constructs added to those of TrJson: `hasattr(<x>, "to_pydict")`; `<x>.to_pydict(casing, include_default_values)` (an
effect: AttributeError on a non-message); the constant `None` stored in the dict.

Interface of the from_pydict iteration (`self` is the state of the instance; the object `getattr` returned is the local
`v`, which is mutated IN PLACE and then stored with `setattr` — translated as a value that is threaded through):

    Src.from_pydict_key (S : Schema) (c : Nat) (dec : Nat → Val → PVal → R Val) (self : MState) (key : JKey)
                        (item : PVal) : Py.Res MState

  dec c' v d    `v.from_pydict(d)` for an instance `v` of class `c'` (the recursive call; returns the mutated instance)
  key / item    the key of the loop and `value[key]`

What must surround the loop of from_pydict (checked): `self._serialized_on_wire = True`, the loop, `return self`.
Supported in the body (anything else raises Unsupported): `field_name = safe_snake_case(key)`;
`meta = self._betterproto.meta_by_field_name.get(field_name)`; `if not meta: continue`; `if value[key] is not None:`;
tests on `meta.proto_type`, `meta.map_types and meta.map_types[1] == TYPE_MESSAGE`, `meta.wraps`;
`v = getattr(self, field_name)`; `isinstance(v, list | datetime | timedelta)`;
`cls = self._betterproto.cls_by_field[field_name]` / `[f"{field_name}.value"]`;
`for item in value[key]: v.append(cls().from_pydict(item))`; `for k in value[key]: v[k] = cls().from_pydict(value[key][k])`;
`v = value[key]`; `v.from_pydict(value[key])`; `if v is not None: setattr(self, field_name, v)`.
"""
import ast
import os

from extract_src import SRC, Sig, Unsupported, indent, nm
from extract_srcdump import PTYPE_CTOR, INCL, find_method, field_loop, VAL_TYPES
from extract_srcjson import TrJson, LEAN_TY, lty, module_facts, strip_doc

CASING_CONSTS = {"Casing.CAMEL": "KeyCase.camel", "Casing.SNAKE": "KeyCase.snake"}


class TrPyDict(TrJson):
    """one iteration of the field loop of to_pydict"""

    def as_jval(self, e, env):
        if isinstance(e, ast.Constant) and e.value is None:
            return [], "JVal.null"
        return super().as_jval(e, env)

    def call(self, e, env):
        f = e.func
        if isinstance(f, ast.Name) and f.id == "hasattr" and f.id not in env:
            if len(e.args) == 2 and not e.keywords and isinstance(e.args[1], ast.Constant) and e.args[1].value == "to_pydict":
                b, v, ty = self.expr(e.args[0], env)
                if ty not in VAL_TYPES:
                    raise Unsupported("hasattr of " + ast.unparse(e.args[0]))
                return b, "(Py.hasToPyDict %s)" % v, "bool"
            raise Unsupported("hasattr: " + ast.unparse(e))
        if isinstance(f, ast.Attribute) and f.attr == "to_dict":
            raise Unsupported("call of to_dict inside to_pydict")
        if isinstance(f, ast.Attribute) and f.attr == "to_pydict":
            ok = (len(e.args) == 2 and not e.keywords and isinstance(e.args[0], ast.Name) and env.get(e.args[0].id) == "casing"
                  and isinstance(e.args[1], ast.Name) and e.args[1].id == self.incl_var and env.get(e.args[1].id) == "bool")
            if not ok:
                raise Unsupported("arguments of the recursive call " + ast.unparse(e))
            b, v, ty = self.expr(f.value, env)
            if ty not in VAL_TYPES:
                raise Unsupported("to_pydict of " + ast.unparse(f.value))
            t = self.tmp()
            return b + [("bind", t, "Py.callToPyDict enc %s" % v)], t, "jval"
        return super().call(e, env)

    def loop(self, st, rest, env, k, in_loop):
        # as TrJson.loop, with the parameters of this translation (no enum table; `enc` can raise)
        if not isinstance(st, ast.For) or st.orelse or in_loop:
            raise Unsupported("while loop / for-else / nested loop")
        env = dict(env)
        if not isinstance(st.target, ast.Name) or st.target.id in env:
            raise Unsupported("loop target " + ast.unparse(st.target))
        sb, seq, sty = self.expr(st.iter, env)
        if sty not in VAL_TYPES:
            raise Unsupported("for over " + ast.unparse(st.iter))
        items = self.tmp()
        tgt = st.target.id
        benv = dict(env)
        benv[tgt] = "val"
        body = list(st.body)
        if any(isinstance(x, (ast.Return, ast.Break, ast.Continue, ast.For, ast.While, ast.Try)) for s in body for x in ast.walk(s)):
            raise Unsupported("return / break / continue / nested loop in a loop body")
        state = [v for v in self.assigned(body, env) if v != tgt]
        if len(state) != 1:
            raise Unsupported("a loop must update exactly one variable (updates: %s)" % state)
        sv = state[0]
        used = self.used(body)
        ro = [v for v in env if v != sv and v in used and env[v] in LEAN_TY]
        self.nloop += 1
        lname = "%s.loop%d" % (self.sig.name, self.nloop)
        fixed, fixed_sig = "S enc", "(S : Schema) (enc : Val → R PVal)"
        roargs = "".join(" " + nm(v) for v in ro)

        def again(env2):
            if env2.get(sv) != env[sv]:
                raise Unsupported("the loop changes the type of " + sv)
            return "%s %s%s items' %s" % (lname, fixed, roargs, nm(sv))
        btxt = self.block(body, benv, again, True)
        sig_params = "".join(" (%s : %s)" % (nm(v), lty(env[v])) for v in ro)
        d = "def %s %s%s : List Val → %s → Py.Res %s\n  | [], %s => .ok %s\n  | %s :: items', %s =>\n%s" % (
            lname, fixed_sig, sig_params, lty(env[sv]), lty(env[sv]), nm(sv), nm(sv), nm(tgt), nm(sv), indent(btxt, 4))
        self.aux.append(d)
        after = self.block(rest, env, k, in_loop)
        return self.wrap(sb + [("bind", items, "Py.iterItems %s" % seq)],
                         "(%s %s%s %s %s).bind fun %s =>\n%s" % (lname, fixed, roargs, items, nm(sv), nm(sv), after))

    def body_def(self, stmts):
        env = {self.meta_var: "meta", self.carry: "jdict", self.casing_var: "casing", self.incl_var: "bool"}

        def fall_off(env2):
            if env2.get(self.carry) != "jdict":
                raise Unsupported("the output dict is rebound")
            return self.carried()
        txt = self.block(stmts, env, fall_off, False)
        d = ("def %s (S : Schema) (enc : Val → R PVal) (%s : KeyCase) (%s : Bool) (%s : FieldD) (got : Py.Got) "
             "(%s : Bool) (%s : Py.JDict) : Py.Res Py.JDict :=\n%s") % (
            self.sig.name, nm(self.casing_var), nm(self.incl_var), nm(self.meta_var), INCL, nm(self.carry), indent(txt))
        return "\n\n".join(self.aux + [d])


# ------------------------------------------------------------------------------------------------ keyword defaults
def param_defaults(fn, want):
    """{param: source text of its default}; `want` = the expected parameter names after self, in order"""
    a = fn.args
    params = [x.arg for x in a.args]
    if params != ["self"] + want or a.vararg or a.kwarg or a.kwonlyargs or a.posonlyargs:
        raise Unsupported("parameters of Message.%s: %s" % (fn.name, params))
    if len(a.defaults) != len(want):
        raise Unsupported("Message.%s: every parameter after self is expected to have a default" % fn.name)
    return {p: ast.unparse(d) for p, d in zip(want, a.defaults)}


def default_def(meth, p, src):
    if src in ("True", "False"):
        return "def %s.default_%s : Bool := %s" % (meth, p, src.lower())
    if src in CASING_CONSTS:
        return "def %s.default_%s : KeyCase := %s" % (meth, p, CASING_CONSTS[src])
    if src == "None":
        return "def %s.default_%s : Py.Indent := Py.Indent.none" % (meth, p)
    raise Unsupported("default value %s of parameter %s of %s" % (src, p, meth))


# ------------------------------------------------------------------------------------------------ to_json / from_json
def bool_or_casing_arg(e, env):
    """an argument of self.to_dict(...): a parameter of the enclosing method, or a constant"""
    if isinstance(e, ast.Name) and e.id in env:
        return nm(e.id), env[e.id]
    if isinstance(e, ast.Constant) and isinstance(e.value, bool):
        return "true" if e.value else "false", "bool"
    if ast.unparse(e) in CASING_CONSTS:
        return CASING_CONSTS[ast.unparse(e)], "casing"
    raise Unsupported("argument " + ast.unparse(e))


def translate_to_json(tree):
    fn = find_method(tree, "Message", "to_json")
    dflt = param_defaults(fn, ["indent", "include_default_values", "casing"])
    # the parameter list of to_dict the call is resolved against
    td = find_method(tree, "Message", "to_dict")
    td_params = [x.arg for x in td.args.args][1:]
    if td_params != ["casing", "include_default_values"] or td.args.vararg or td.args.kwarg or td.args.kwonlyargs:
        raise Unsupported("parameters of Message.to_dict: %s" % td_params)
    td_dflt = {p: ast.unparse(d) for p, d in zip(td_params, td.args.defaults)} if len(td.args.defaults) == 2 else None
    if td_dflt is None:
        raise Unsupported("defaults of Message.to_dict")
    body = strip_doc(list(fn.body))
    if len(body) != 1 or not isinstance(body[0], ast.Return) or not isinstance(body[0].value, ast.Call):
        raise Unsupported("Message.to_json is not a single `return json.dumps(...)`")
    call = body[0].value
    if ast.unparse(call.func) != "json.dumps" or len(call.args) != 1:
        raise Unsupported("Message.to_json: " + ast.unparse(call.func))
    env = {"indent": "indent", "include_default_values": "bool", "casing": "casing"}
    # keyword arguments of json.dumps: only `indent=<the indent parameter>` (layout only); anything else (allow_nan,
    # sort_keys, default, ensure_ascii, separators, cls …) changes what is written or whether it raises: refused
    indent_arg = "Py.Indent.none"
    for k in call.keywords:
        if k.arg == "indent" and isinstance(k.value, ast.Name) and env.get(k.value.id) == "indent":
            indent_arg = nm(k.value.id)
        else:
            raise Unsupported("keyword argument of json.dumps: " + ast.unparse(k))
    inner = call.args[0]
    if not (isinstance(inner, ast.Call) and ast.unparse(inner.func) == "self.to_dict"):
        raise Unsupported("argument of json.dumps: " + ast.unparse(inner))
    given = {}
    if len(inner.args) > 2:
        raise Unsupported("arguments of self.to_dict")
    for p, a in zip(td_params, inner.args):
        given[p] = a
    for k in inner.keywords:
        if k.arg not in td_params or k.arg in given:
            raise Unsupported("keyword argument of self.to_dict: " + ast.unparse(k))
        given[k.arg] = k.value
    args = {}
    for p, want in (("casing", "casing"), ("include_default_values", "bool")):
        if p in given:
            t, ty = bool_or_casing_arg(given[p], env)
        else:
            src = td_dflt[p]
            t, ty = (src.lower(), "bool") if src in ("True", "False") else (CASING_CONSTS.get(src), "casing")
            if t is None:
                raise Unsupported("default of to_dict parameter " + p)
        if ty != want:
            raise Unsupported("argument %s of self.to_dict has type %s" % (p, ty))
        args[p] = t
    d = ("def to_json (toDict : KeyCase → Bool → JVal) (indent : Py.Indent) (include_default_values : Bool) (casing : KeyCase)"
         " : Py.Res Py.JsonText :=\n  Py.jsonDumps (toDict %s %s) %s" % (args["casing"], args["include_default_values"], indent_arg))
    defs = [default_def("to_json", p, dflt[p]) for p in ("indent", "include_default_values", "casing")]
    return "/- Message.to_json  (src/betterproto/__init__.py, line %d) -/\n%s\n\n%s" % (fn.lineno, "\n".join(defs), d)


def translate_from_json(tree):
    fn = find_method(tree, "Message", "from_json")
    a = fn.args
    if [x.arg for x in a.args] != ["self", "value"] or a.defaults or a.vararg or a.kwarg or a.kwonlyargs or a.posonlyargs:
        raise Unsupported("parameters of Message.from_json")
    body = strip_doc(list(fn.body))
    if len(body) != 1 or not isinstance(body[0], ast.Return) or ast.unparse(body[0].value) != "self.from_dict(json.loads(value))":
        raise Unsupported("Message.from_json is not `return self.from_dict(json.loads(value))`")
    d = ("def from_json (fromDict : JVal → Py.Res Val) (value : Py.JsonText) : Py.Res Val :=\n"
         "  (Py.jsonLoads value).bind fun t1 =>\n  fromDict t1")
    return "/- Message.from_json  (src/betterproto/__init__.py, line %d) -/\n%s" % (fn.lineno, d)


# ------------------------------------------------------------------------------------------------ from_pydict
class TrFromPy:
    """one iteration of the key loop of from_pydict.  Local variables: `field_name` (a field name), `meta`, `v` (the
    object that will be stored: `Val`), `cls` (a class: `Py.PCls`).  `self` is the state, threaded through."""

    def __init__(self, ptypes, value_var, key_var):
        self.ptypes, self.value_var, self.key_var = ptypes, value_var, key_var
        self.ntmp = 0
        self.aux = []
        self.nloop = 0

    def tmp(self):
        self.ntmp += 1
        return "t%d" % self.ntmp

    # -- expressions -------------------------------------------------------------------------------------------------
    def is_item(self, e):
        """value[key]"""
        return (isinstance(e, ast.Subscript) and isinstance(e.value, ast.Name) and e.value.id == self.value_var
                and isinstance(e.slice, ast.Name) and e.slice.id == self.key_var)

    def cond(self, e, env):
        """a test -> Lean Bool text"""
        if isinstance(e, ast.BoolOp) and isinstance(e.op, ast.And):
            return "(" + " && ".join(self.cond(x, env) for x in e.values) + ")"
        if isinstance(e, ast.UnaryOp) and isinstance(e.op, ast.Not):
            return "(!%s)" % self.cond(e.operand, env)
        if isinstance(e, ast.Compare) and len(e.ops) == 1:
            op, l, r = e.ops[0], e.left, e.comparators[0]
            if isinstance(op, (ast.Is, ast.IsNot)) and isinstance(r, ast.Constant) and r.value is None:
                if self.is_item(l):
                    t = "(Py.jIsNone item)"
                elif isinstance(l, ast.Name) and env.get(l.id) == "val":
                    t = "(Py.isNone %s)" % nm(l.id)
                else:
                    raise Unsupported("identity test " + ast.unparse(e))
                return t if isinstance(op, ast.Is) else "(!%s)" % t
            if isinstance(op, ast.Eq):
                lt, rt = self.ptype(l, env), self.ptype(r, env)
                return "(%s == %s)" % (lt, rt)
        if isinstance(e, ast.Attribute) and isinstance(e.value, ast.Name) and env.get(e.value.id) == "meta":
            if e.attr == "wraps":
                return "((Py.metaWraps %s)).isSome" % nm(e.value.id)
            if e.attr == "map_types":
                return "(Py.mapTypesSet %s)" % nm(e.value.id)
        if isinstance(e, ast.Call) and isinstance(e.func, ast.Name) and e.func.id == "isinstance" and len(e.args) == 2 \
                and not e.keywords and isinstance(e.args[0], ast.Name) and env.get(e.args[0].id) == "val" \
                and isinstance(e.args[1], ast.Name) and e.args[1].id in ("list", "datetime", "timedelta"):
            fn = {"list": "Py.isList", "datetime": "Py.isDatetime", "timedelta": "Py.isTimedelta"}[e.args[1].id]
            return "(%s %s)" % (fn, nm(e.args[0].id))
        raise Unsupported("test " + ast.unparse(e))

    def ptype(self, e, env):
        if isinstance(e, ast.Name) and e.id in self.ptypes and e.id not in env:
            return "PType." + self.ptypes[e.id]
        if isinstance(e, ast.Attribute) and isinstance(e.value, ast.Name) and env.get(e.value.id) == "meta" and e.attr == "proto_type":
            return "(Py.metaProtoType %s)" % nm(e.value.id)
        if isinstance(e, ast.Subscript) and isinstance(e.value, ast.Attribute) and isinstance(e.value.value, ast.Name) \
                and env.get(e.value.value.id) == "meta" and e.value.attr == "map_types" and isinstance(e.slice, ast.Constant) \
                and e.slice.value in (0, 1) and type(e.slice.value) is int:
            return "(Py.%s %s)" % (("metaMapKey", "metaMapValue")[e.slice.value], nm(e.value.value.id))
        raise Unsupported("proto type expression " + ast.unparse(e))

    # -- statements --------------------------------------------------------------------------------------------------
    def block(self, stmts, env, k):
        if not stmts:
            return k(env)
        st, rest = stmts[0], stmts[1:]
        env = dict(env)

        def go(env2):
            return self.block(rest, env2, k)
        if isinstance(st, ast.Continue):
            return ".ok self"
        if isinstance(st, ast.If):
            c = self.cond_stmt(st.test, env)
            if c is None:
                # `if not meta: continue` with meta an Option
                if not (len(st.body) == 1 and isinstance(st.body[0], ast.Continue) and not st.orelse):
                    raise Unsupported("test of an optional meta other than `if not meta: continue`")
                m = st.test.operand.id
                env[m] = "meta"
                return "match %s with\n| Option.none =>\n  .ok self\n| some %s =>\n%s" % (nm(m), nm(m), indent(go(env)))
            thn = self.block(list(st.body) + rest, env, k)
            els = self.block(list(st.orelse) + rest, env, k)
            return "if %s then\n%s\nelse\n%s" % (c, indent(thn), indent(els))
        if isinstance(st, ast.Assign) and len(st.targets) == 1 and isinstance(st.targets[0], ast.Name):
            tgt, val = st.targets[0].id, st.value
            if tgt in ("self", self.value_var, self.key_var):
                raise Unsupported("assignment to " + tgt)
            src = ast.unparse(val)
            if src == "safe_snake_case(%s)" % self.key_var and "safe_snake_case" not in env:
                env[tgt] = "fname"
                return "(Py.safeSnakeCase key).bind fun %s =>\n%s" % (nm(tgt), go(env))
            fnames = [n for n, t in env.items() if t == "fname" and isinstance(n, str)]
            for fnv in fnames:
                if src == "self._betterproto.meta_by_field_name.get(%s)" % fnv:
                    env[tgt] = "optmeta"
                    return "let %s := Py.metaByFieldName S c %s\n%s" % (nm(tgt), nm(fnv), go(env))
                if src == "getattr(self, %s)" % fnv and "getattr" not in env:
                    env[tgt] = "val"
                    env[("alias", tgt)] = fnv      # `tgt` now names the very object stored in the slot
                    return "(Py.pyGetattr S c self %s).bind fun (%s, self) =>\n%s" % (nm(fnv), nm(tgt), go(env))
                if src == "self._betterproto.cls_by_field[%s]" % fnv:
                    env[tgt] = "cls"
                    return "(Py.pyClsByField S c %s).bind fun %s =>\n%s" % (nm(fnv), nm(tgt), go(env))
                if src == "self._betterproto.cls_by_field[f'{%s}.value']" % fnv:
                    env[tgt] = "cls"
                    return "(Py.pyClsByFieldMapValue S c %s).bind fun %s =>\n%s" % (nm(fnv), nm(tgt), go(env))
            if self.is_item(val):
                env[tgt] = "val"
                env.pop(("alias", tgt), None)      # rebound: no longer the object in the slot
                return "(Py.asFieldValue item).bind fun %s =>\n%s" % (nm(tgt), go(env))
            raise Unsupported("assignment " + ast.unparse(st))
        if isinstance(st, ast.For) and not st.orelse and isinstance(st.target, ast.Name) and self.is_item(st.iter):
            tgt = st.target.id
            if tgt in env or len(st.body) != 1:
                raise Unsupported("loop " + ast.unparse(st)[:60])
            b = st.body[0]
            vs = [n for n, t in env.items() if t == "val" and isinstance(n, str)]
            cs = [n for n, t in env.items() if t == "cls" and isinstance(n, str)]
            for v in vs:
                for cvar in cs:
                    # for item in value[key]: v.append(cls().from_pydict(item))
                    if ast.unparse(b) == "%s.append(%s().from_pydict(%s))" % (v, cvar, tgt):
                        return "(Py.appendEach S dec %s %s item).bind fun %s =>\n%s%s" % (
                            nm(cvar), nm(v), nm(v), self.write_back(v, env), go(env))
                    # for k in value[key]: v[k] = cls().from_pydict(value[key][k])
                    if ast.unparse(b) == "%s[%s] = %s().from_pydict(%s[%s][%s])" % (v, tgt, cvar, self.value_var, self.key_var, tgt):
                        return "(Py.setEach S dec %s %s item).bind fun %s =>\n%s%s" % (
                            nm(cvar), nm(v), nm(v), self.write_back(v, env), go(env))
            raise Unsupported("loop body " + ast.unparse(b))
        if isinstance(st, ast.Expr) and isinstance(st.value, ast.Call):
            src = ast.unparse(st.value)
            vs = [n for n, t in env.items() if t == "val" and isinstance(n, str)]
            fnames = [n for n, t in env.items() if t == "fname" and isinstance(n, str)]
            for v in vs:
                # v.from_pydict(value[key]): mutates the object v names, in place
                if src == "%s.from_pydict(%s[%s])" % (v, self.value_var, self.key_var):
                    return "(Py.callFromPyDict dec %s item).bind fun %s =>\n%s%s" % (nm(v), nm(v), self.write_back(v, env), go(env))
                for fnv in fnames:
                    if src == "setattr(self, %s, %s)" % (fnv, v) and "setattr" not in env:
                        return "let self := Py.pySetattr S c self %s %s\n%s" % (nm(fnv), nm(v), go(env))
            raise Unsupported("call statement " + src)
        raise Unsupported("statement " + ast.unparse(st)[:80])

    def write_back(self, v, env):
        """after an IN-PLACE mutation of the object `v` names: when that object is the one stored in a slot of self
        (v = getattr(self, f), not rebound since), the slot holds the mutated object"""
        fnv = env.get(("alias", v))
        if fnv is None:
            return ""
        return "let self := Py.slotStore S c self %s %s\n" % (nm(fnv), nm(v))

    def cond_stmt(self, test, env):
        if isinstance(test, ast.UnaryOp) and isinstance(test.op, ast.Not) and isinstance(test.operand, ast.Name) \
                and env.get(test.operand.id) == "optmeta":
            return None
        return self.cond(test, env)


def translate_from_pydict(tree, ptypes):
    fn = find_method(tree, "Message", "from_pydict")
    a = fn.args
    params = [x.arg for x in a.args]
    if len(params) != 2 or params[0] != "self" or a.defaults or a.vararg or a.kwarg or a.kwonlyargs or a.posonlyargs:
        raise Unsupported("parameters of Message.from_pydict")
    value_var = params[1]
    body = strip_doc(list(fn.body))
    if len(body) != 3 or ast.unparse(body[0]) != "self._serialized_on_wire = True" or ast.unparse(body[2]) != "return self":
        raise Unsupported("Message.from_pydict is not `self._serialized_on_wire = True` / the key loop / `return self`")
    lp = body[1]
    if not (isinstance(lp, ast.For) and not lp.orelse and isinstance(lp.target, ast.Name) and isinstance(lp.iter, ast.Name)
            and lp.iter.id == value_var):
        raise Unsupported("key loop of Message.from_pydict")
    key_var = lp.target.id
    if key_var in ("self", value_var):
        raise Unsupported("loop target of from_pydict")
    tr = TrFromPy(ptypes, value_var, key_var)

    def fall_off(env):
        return ".ok self"
    txt = tr.block(list(lp.body), {}, fall_off)
    d = ("def from_pydict_key (S : Schema) (c : Nat) (dec : Nat → Val → PVal → R Val) (self : MState) (key : JKey) "
         "(item : PVal) : Py.Res MState :=\n%s") % indent(txt)
    return "/- body of the key loop of Message.from_pydict  (src/betterproto/__init__.py, line %d) -/\n%s" % (lp.lineno, d)


# ------------------------------------------------------------------------------------------------ to_pydict
def translate_to_pydict(tree, src, consts, ptypes):
    mod = module_facts(tree, src)
    fn = find_method(tree, "Message", "to_pydict")
    lp, field_var, meta_var = field_loop(fn)
    dflt = param_defaults(fn, [x.arg for x in fn.args.args][1:])
    params = [x.arg for x in fn.args.args]
    if len(params) != 3:
        raise Unsupported("parameters of Message.to_pydict")
    casing_var, incl_var = params[1], params[2]
    if dflt[casing_var] not in CASING_CONSTS or dflt[incl_var] not in ("True", "False"):
        raise Unsupported("Message.to_pydict: parameters are not (casing, include_default_values)")
    body = strip_doc(list(fn.body))
    if body[-1] is lp or not (isinstance(body[-1], ast.Return) and isinstance(body[-1].value, ast.Name)) or body[-2] is not lp:
        raise Unsupported("Message.to_pydict does not end in the field loop followed by `return <variable>`")
    carry = body[-1].value.id
    pre, seen_carry = {}, False
    for s in body[:-2]:
        if isinstance(s, ast.AnnAssign) and s.value is not None:
            tgt, val = s.target, s.value
        elif isinstance(s, ast.Assign) and len(s.targets) == 1:
            tgt, val = s.targets[0], s.value
        else:
            raise Unsupported("statement before the field loop of to_pydict: " + ast.unparse(s))
        if not isinstance(tgt, ast.Name) or tgt.id in pre or tgt.id in params or (tgt.id == carry and seen_carry):
            raise Unsupported("statement before the field loop of to_pydict: " + ast.unparse(s))
        v = ast.unparse(val)
        if tgt.id == carry and v == "{}":
            seen_carry = True
        elif v == "self._betterproto.default_gen":
            pre[tgt.id] = "defaultgen"
        else:
            raise Unsupported("statement before the field loop of to_pydict: " + ast.unparse(s))
    if not seen_carry:
        raise Unsupported("to_pydict: `%s` is not initialised to {} before the field loop" % carry)
    if len({carry, casing_var, incl_var, field_var, meta_var, "self"} | set(pre)) != 6 + len(pre):
        raise Unsupported("to_pydict: name clash between parameters, loop targets and locals")
    tr = TrPyDict(Sig("to_pydict_field", [], "none", None), consts, ptypes, field_var, meta_var, carry, mod,
                  casing_var=casing_var, incl_var=incl_var, pre=pre)
    defs = "\n".join([default_def("to_pydict", "casing", dflt[casing_var]),
                      default_def("to_pydict", "include_default_values", dflt[incl_var])])
    return "/- body of the field loop of Message.to_pydict  (src/betterproto/__init__.py, line %d) -/\n%s\n\n%s" % (
        lp.lineno, defs, tr.body_def(list(lp.body)))


def translate(path=SRC):
    src = open(path).read()
    tree = ast.parse(src)
    consts, ptypes = {}, {}
    for n in tree.body:
        if isinstance(n, ast.Assign) and len(n.targets) == 1 and isinstance(n.targets[0], ast.Name) and isinstance(n.value, ast.Constant):
            if type(n.value.value) is int:
                consts[n.targets[0].id] = n.value.value
            elif type(n.value.value) is str and n.targets[0].id.startswith("TYPE_") and n.value.value in PTYPE_CTOR:
                ptypes[n.targets[0].id] = PTYPE_CTOR[n.value.value]
    return [translate_to_pydict(tree, src, consts, ptypes), translate_from_pydict(tree, ptypes),
            translate_to_json(tree), translate_from_json(tree)]


HEADER = """import BpProofs.PyPreludePyDict
import BpModel.Gen.WireTables
/- GENERATED by harness/extract_srcpydict.py from the Python AST of src/betterproto/__init__.py -- do not edit.
   `to_pydict_field` is the statement-by-statement translation of ONE ITERATION of the field loop of Message.to_pydict
   (`got` = outcome of getattr(self, field_name), `inclDefaultForOneof` = result of
   self._include_default_value_for_oneof(...), `enc` = <sub-message>.to_pydict(casing, include_default_values), the
   loop-carried output dict is returned); `from_pydict_key` of ONE ITERATION of the key loop of Message.from_pydict
   (`self` = the state of the instance, `item` = value[key], `dec` = <instance>.from_pydict); `to_json` / `from_json` are
   the bodies of the two methods (`toDict` = self.to_dict, `fromDict` = self.from_dict). -/
set_option linter.unusedVariables false
namespace Bp.Src
open Bp

"""


def render(path=SRC):
    try:
        defs = translate(path)
        return HEADER + "\n\n".join(defs) + "\n\nend Bp.Src\n", None
    except Unsupported as e:
        msg = "the source translator does not support the current source: %s" % e
        return HEADER + "/- TRANSLATION FAILED: %s -/\n\nend Bp.Src\n" % msg, msg
    except (OSError, SyntaxError) as e:
        msg = "the source translator could not read the source: %r" % (e,)
        return HEADER + "/- TRANSLATION FAILED: %s -/\n\nend Bp.Src\n" % msg, msg


def main(write_if_changed, gen_dir):
    text, err = render()
    target = os.path.join(gen_dir, "..", "..", "BpProofs", "Gen", "SrcPyDict.lean")
    changed = write_if_changed(os.path.normpath(target), text)
    if err:
        print("extract_srcpydict: " + err)
    return ["SrcPyDict.lean"] if changed else []


if __name__ == "__main__":
    t, e = render()
    print(t)
    if e:
        print("ERROR:", e)
