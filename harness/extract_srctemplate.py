"""SOURCE TRANSLATOR (C13 / C18 / C11 / C03): the plugin's Jinja templates -> Lean functions.

On every run  src/betterproto/templates/header.py.j2  and  template.py.j2  of the working tree are parsed with
Jinja2's OWN parser, by an `Environment` built with the options `outputfile_compiler` (plugin/compiler.py) passes
(`trim_blocks=True, lstrip_blocks=True, undefined=StrictUndefined`; compiler.py is read with `ast` and the keyword
arguments of its `jinja2.Environment(...)` call are CHECKED to be exactly these, and the two `get_template` names and
the `header + body` concatenation are checked as well).  `env.parse(source)` gives the node tree with trim_blocks /
lstrip_blocks / `{%- -%}` whitespace control / comments / the dropped final newline already applied by Jinja's lexer.
The tree is translated node by node into

    Src.render_header   : Tpl.OutputFile -> List Tpl.Piece
    Src.render_template : Tpl.OutputFile -> List Tpl.Piece          (lean/BpProofs/Gen/SrcTemplate.lean)

over the abstract context of lean/BpProofs/PyPreludeTemplate.lean (the records list exactly the attributes the templates
read; SCHEMA below is the same list, with types):

    Template / Output / TemplateData   concatenation of pieces; data is `.lit "<text>"`
    {{ e }}                            `.expr "<source of e>" <value>`   (e : str, or int through `Tpl.jstrInt`)
                                       the source text is CANONICAL: a loop variable is written `<iterable>[]`, a
                                       `set` variable as its defining expression — `output_file.imports_end[]`,
                                       `output_file.services[].methods[].route` — so renaming a template variable
                                       changes nothing, and the five loops over import sets have five different tags
    {% for x in it %}                  `List.flatMap (fun x => body) it`; `Tpl.forLast it (fun x loop_last => body)`
                                       when the body reads `loop.last` (nothing else of `loop` is accepted)
    {% if %} / {% elif %} / {% else %}  `if t then … else …` with the truthiness of t's type
    {% set x = e %}                    `let x := e` (top level of a template only)
    e|sort                             `Tpl.jsort e` (no arguments)  — every other filter is REFUSED (`unique` too)
    not / and / or                     in test position only
    x.attr, x.method(...)              by SCHEMA, everything else refused; `sep.join(xs)`, `s.strip(chars)`

Anything else (node type, filter, test, attribute, call shape, `loop` attribute, for-else, recursive loops, macros,
includes, blocks, …) -> Unsupported: the generated file then holds no definition and every tie theorem fails.

lean/BpProofs/SrcTieTemplate.lean proves the translated functions equal to the named, structured model functions of
lean/BpProofs/TemplateModel.lean; Props/C13SrcTemplate.lean, C18SrcTemplate.lean, C11SrcTemplate.lean,
C03SrcTemplate.lean state the properties.  harness/tests/check_srctemplate.py validates translator + prelude against
the real Jinja on random contexts.
"""
import ast
import hashlib
import os

from extract_src import Unsupported

REPO = os.environ.get("VERIF_REPO", "/repo")
TPL_DIR = os.path.join(REPO, "src", "betterproto", "templates")
COMPILER = os.path.join(REPO, "src", "betterproto", "plugin", "compiler.py")
OUT = "SrcTemplate.lean"

# ---- the context: type -> attribute -> type.   ("list", T) / ("set", "str") / "dict" / "str" / "bool" / "int";
# ("method", [arg types], result type) is a method that must be CALLED with that many positional arguments.
SCHEMA = {
    "OutputFile": {
        "input_filenames": ("list", "str"), "enums": ("list", "EnumDef"), "messages": ("list", "Message"),
        "services": ("list", "Service"), "python_module_imports": ("set", "str"), "datetime_imports": ("set", "str"),
        "pydantic_imports": ("set", "str"), "imports_type_checking_only": ("set", "str"),
        "imports_end": ("set", "str"), "pydantic_dataclasses": "bool", "typing_compiler": "TypingCompiler"},
    "EnumDef": {"py_name": "str", "comment": "str", "entries": ("list", "EnumEntry")},
    "EnumEntry": {"name": "str", "value": "int", "comment": "str"},
    "Message": {"py_name": "str", "comment": "str", "fields": ("list", "Field"), "deprecated": "bool",
                "has_deprecated_fields": "bool", "deprecated_fields": ("list", "str"), "has_oneof_fields": "bool"},
    "Field": {"get_field_string": ("method", [], "str"), "comment": "str"},
    "Service": {"py_name": "str", "comment": "str", "methods": ("list", "Method")},
    "Method": {"py_name": "str", "comment": "str", "route": "str", "client_streaming": "bool",
               "server_streaming": "bool", "py_input_message_param": "str", "py_input_message_type": "str",
               "py_output_message_type": "str", "proto_obj": "MethodProto"},
    "MethodProto": {"options": "MethodOptions"},
    "MethodOptions": {"deprecated": "bool"},
    "TypingCompiler": {
        "optional": ("method", ["str"], "str"), "dict": ("method", ["str", "str"], "str"),
        "union": ("method", ["str", "str"], "str"), "iterable": ("method", ["str"], "str"),
        "async_iterable": ("method", ["str"], "str"), "async_iterator": ("method", ["str"], "str"),
        "imports": ("method", [], "dict"), "import_lines": ("method", [], ("list", "str"))},
}
ENV_OPTIONS = {"trim_blocks": True, "lstrip_blocks": True}


def LEAN_TY(t):
    return "Tpl.Str" if t == "str" else "Tpl." + t


def lean_string(s):
    out = []
    for ch in s:
        if ch == "\\":
            out.append("\\\\")
        elif ch == '"':
            out.append('\\"')
        elif ch == "\n":
            out.append("\\n")
        elif ch == "\t":
            out.append("\\t")
        elif ch == "\r":
            out.append("\\r")
        elif 32 <= ord(ch) < 127:
            out.append(ch)
        else:
            out.append("\\u{%x}" % ord(ch))
    return '"' + "".join(out) + '"'


def check_compiler():
    """compiler.py: Environment(trim_blocks=True, lstrip_blocks=True, loader=FileSystemLoader(..), undefined=
    StrictUndefined), body = get_template("template.py.j2"), header = get_template("header.py.j2"),
    code = header.render(output_file=…) + body.render(output_file=…)"""
    with open(COMPILER) as f:
        tree = ast.parse(f.read())
    fn = [n for n in tree.body if isinstance(n, ast.FunctionDef) and n.name == "outputfile_compiler"]
    if len(fn) != 1:
        raise Unsupported("compiler.py: no single outputfile_compiler")
    fn = fn[0]
    envs = [n for n in ast.walk(fn) if isinstance(n, ast.Call) and ast.unparse(n.func) == "jinja2.Environment"]
    if len(envs) != 1 or envs[0].args:
        raise Unsupported("compiler.py: not exactly one jinja2.Environment(...) call with keywords only")
    kw = {k.arg: k.value for k in envs[0].keywords}
    if set(kw) != {"trim_blocks", "lstrip_blocks", "loader", "undefined"}:
        raise Unsupported("compiler.py: Environment options are %s" % sorted(kw, key=str))
    for k, v in ENV_OPTIONS.items():
        if not (isinstance(kw[k], ast.Constant) and kw[k].value is v):
            raise Unsupported("compiler.py: Environment option %s" % k)
    if ast.unparse(kw["undefined"]) != "jinja2.StrictUndefined":
        raise Unsupported("compiler.py: undefined=")
    if not ast.unparse(kw["loader"]).startswith("jinja2.FileSystemLoader("):
        raise Unsupported("compiler.py: loader=")
    # the statements between the Environment and ruff: the two templates and how their renderings are joined
    text = [ast.unparse(st) for st in fn.body]
    want = ["body_template = env.get_template('template.py.j2')",
            "header_template = env.get_template('header.py.j2')",
            "code = body_template.render(output_file=output_file)",
            "code = header_template.render(output_file=output_file) + code"]
    idx = [text.index(w) if w in text else -1 for w in want]
    if -1 in idx or idx != sorted(idx) or idx[-1] - idx[0] != 3:
        raise Unsupported("compiler.py: the template loading / rendering statements changed")
    return True


class Tr:
    def __init__(self, name):
        self.name = name
        self.fresh = 0

    # ---------- expressions: -> (lean term, type, source text)
    def expr(self, e, env):
        from jinja2 import nodes as N
        if isinstance(e, N.Name):
            if e.ctx != "load" or e.name not in env:
                raise Unsupported("%s: name %s" % (self.name, e.name))
            if e.name == "loop":
                raise Unsupported("%s: bare `loop`" % self.name)
            return env[e.name][0], env[e.name][1], env[e.name][2]
        if isinstance(e, N.Const):
            if isinstance(e.value, str):
                return "%s.toList" % lean_string(e.value), "str", repr(e.value)
            raise Unsupported("%s: constant %r" % (self.name, e.value))
        if isinstance(e, N.Getattr):
            if e.ctx != "load":
                raise Unsupported("%s: attribute store" % self.name)
            if isinstance(e.node, N.Name) and e.node.name == "loop":
                if "loop" not in env or e.attr != "last":
                    raise Unsupported("%s: loop.%s" % (self.name, e.attr))
                return env["loop"][0], "bool", "loop.last"
            t, ty, src = self.expr(e.node, env)
            if not isinstance(ty, str) or ty not in SCHEMA or e.attr not in SCHEMA[ty]:
                raise Unsupported("%s: attribute .%s of %s" % (self.name, e.attr, ty))
            aty = SCHEMA[ty][e.attr]
            if isinstance(aty, tuple) and aty[0] == "method":
                raise Unsupported("%s: method %s.%s used without a call" % (self.name, ty, e.attr))
            return "%s.%s" % (t, e.attr), aty, "%s.%s" % (src, e.attr)
        if isinstance(e, N.Call):
            if e.kwargs or e.dyn_args is not None or e.dyn_kwargs is not None:
                raise Unsupported("%s: call with keywords / * / **" % self.name)
            f = e.node
            if not isinstance(f, N.Getattr) or f.ctx != "load":
                raise Unsupported("%s: call of a non-attribute" % self.name)
            args = [self.expr(a, env) for a in e.args]
            asrc = ", ".join(a[2] for a in args)
            # sep.join(xs)
            if isinstance(f.node, N.Const) and isinstance(f.node.value, str) and f.attr == "join":
                if len(args) != 1 or args[0][1] != ("list", "str"):
                    raise Unsupported("%s: str.join of %s" % (self.name, [a[1] for a in args]))
                return ("(Tpl.jjoin %s.toList %s)" % (lean_string(f.node.value), args[0][0]), "str",
                        "%r.join(%s)" % (f.node.value, asrc))
            t, ty, src = self.expr(f.node, env)
            if ty == "str" and f.attr == "strip":
                if len(args) != 1 or args[0][1] != "str" or not isinstance(e.args[0], N.Const):
                    raise Unsupported("%s: str.strip arguments" % self.name)
                return "(Py.strStrip %s %s)" % (t, args[0][0]), "str", "%s.strip(%s)" % (src, asrc)
            if isinstance(ty, str) and ty in SCHEMA and f.attr in SCHEMA[ty]:
                m = SCHEMA[ty][f.attr]
                if not (isinstance(m, tuple) and m[0] == "method"):
                    raise Unsupported("%s: %s.%s is not a method" % (self.name, ty, f.attr))
                if [a[1] for a in args] != m[1]:
                    raise Unsupported("%s: arguments of %s.%s: %s" % (self.name, ty, f.attr, [a[1] for a in args]))
                term = "%s.%s" % (t, f.attr)
                if args:
                    term = "(%s %s)" % (term, " ".join(a[0] for a in args))
                return term, m[2], "%s.%s(%s)" % (src, f.attr, asrc)
            raise Unsupported("%s: call %s.%s" % (self.name, ty, f.attr))
        if isinstance(e, N.Filter):
            if e.name != "sort" or e.args or e.kwargs or e.dyn_args is not None or e.dyn_kwargs is not None \
                    or e.node is None:
                raise Unsupported("%s: filter |%s" % (self.name, e.name))
            t, ty, src = self.expr(e.node, env)
            if ty not in (("set", "str"), ("list", "str")):
                raise Unsupported("%s: |sort of %s" % (self.name, ty))
            return "(Tpl.jsort %s)" % t, ("list", "str"), "%s|sort" % src
        raise Unsupported("%s: expression node %s" % (self.name, type(e).__name__))

    def test(self, e, env):
        """an expression in test position -> Lean Bool term"""
        from jinja2 import nodes as N
        if isinstance(e, N.Not):
            return "(!%s)" % self.test(e.node, env)
        if isinstance(e, N.And):
            return "(%s && %s)" % (self.test(e.left, env), self.test(e.right, env))
        if isinstance(e, N.Or):
            return "(%s || %s)" % (self.test(e.left, env), self.test(e.right, env))
        t, ty, _ = self.expr(e, env)
        if ty == "bool":
            return t
        if ty == "str" or ty == "dict" or (isinstance(ty, tuple) and ty[0] in ("list", "set")):
            return "(!(%s).isEmpty)" % t
        raise Unsupported("%s: truth value of %s" % (self.name, ty))

    # ---------- statements: -> Lean term of type List Tpl.Piece
    def output(self, n, env):
        from jinja2 import nodes as N
        ps = []
        for x in n.nodes:
            if isinstance(x, N.TemplateData):
                ps.append("Tpl.Piece.lit %s" % lean_string(x.data))
            else:
                t, ty, src = self.expr(x, env)
                if ty == "str":
                    ps.append("Tpl.Piece.expr %s %s" % (lean_string(src), t))
                elif ty == "int":
                    ps.append("Tpl.Piece.expr %s (Tpl.jstrInt %s)" % (lean_string(src), t))
                else:
                    raise Unsupported("%s: {{ %s }} of type %s" % (self.name, src, ty))
        return "([" + ", ".join(ps) + "] : List Tpl.Piece)"

    def uses_loop(self, body):
        from jinja2 import nodes as N
        for st in body:
            for x in st.find_all(N.Name):
                if x.name == "loop":
                    return True
        return False

    def block(self, stmts, env, depth, top=False):
        from jinja2 import nodes as N
        ind = "  " * depth
        if not stmts:
            return ind + "([] : List Tpl.Piece)"
        st, rest = stmts[0], stmts[1:]
        if isinstance(st, N.Assign):
            if not top or not isinstance(st.target, N.Name) or st.target.ctx != "store":
                raise Unsupported("%s: {%% set %%} below the top level / of a non-name" % self.name)
            x = st.target.name
            if x in env or x == "loop":
                raise Unsupported("%s: {%% set %s %%} rebinds" % (self.name, x))
            t, ty, xsrc = self.expr(st.node, env)
            env = dict(env)
            env[x] = ("v_" + x, ty, xsrc)
            return ind + "(let v_%s := %s\n" % (x, t) + self.block(rest, env, depth, top) + ")"
        head = self.stmt(st, env, depth + 1 if rest else depth)
        if not rest:
            return head
        return ind + "(List.append\n" + head + "\n" + self.block(rest, env, depth + 1, top) + ")"

    def stmt(self, st, env, depth):
        from jinja2 import nodes as N
        ind = "  " * depth
        if isinstance(st, N.Output):
            return ind + self.output(st, env)
        if isinstance(st, N.For):
            if st.else_ or st.test is not None or st.recursive:
                raise Unsupported("%s: for with else / filter / recursive" % self.name)
            if not isinstance(st.target, N.Name) or st.target.ctx != "store":
                raise Unsupported("%s: for target" % self.name)
            x = st.target.name
            if x in env or x == "loop":
                raise Unsupported("%s: loop variable %s shadows" % (self.name, x))
            it, ity, itsrc = self.expr(st.iter, env)
            if not (isinstance(ity, tuple) and ity[0] in ("list", "set")):
                raise Unsupported("%s: for over %s" % (self.name, ity))
            env2 = dict(env)
            env2[x] = ("v_" + x, ity[1], "(%s)[]" % itsrc if "|" in itsrc else itsrc + "[]")
            env2.pop("loop", None)
            if self.uses_loop(st.body):
                self.fresh += 1
                last = "loop_last%d" % self.fresh
                env2["loop"] = (last, "loop", "loop")
                body = self.block(st.body, env2, depth + 2)
                return ind + "(Tpl.forLast %s (fun (v_%s : %s) (%s : Bool) =>\n%s))" % (it, x, LEAN_TY(ity[1]), last, body)
            body = self.block(st.body, env2, depth + 2)
            return ind + "(List.flatMap (fun (v_%s : %s) =>\n%s) %s)" % (x, LEAN_TY(ity[1]), body, it)
        if isinstance(st, N.If):
            t = self.test(st.test, env)
            a = self.block(st.body, env, depth + 2)
            if st.elif_:
                # Jinja keeps `elif` branches in a list; nest them
                first, more = st.elif_[0], st.elif_[1:]
                nested = N.If(first.test, first.body, more, st.else_)
                b = self.stmt(nested, env, depth + 2)
            else:
                b = self.block(st.else_, env, depth + 2)
            return ind + "(if %s then\n%s\n%s else\n%s)" % (t, a, ind, b)
        raise Unsupported("%s: statement node %s" % (self.name, type(st).__name__))


def translate(fname, lean_name):
    import jinja2
    from jinja2 import nodes as N
    path = os.path.join(TPL_DIR, fname)
    with open(path) as f:
        source = f.read()
    env = jinja2.Environment(loader=jinja2.FileSystemLoader(TPL_DIR), undefined=jinja2.StrictUndefined,
                             **ENV_OPTIONS)
    tree = env.parse(source)
    if not isinstance(tree, N.Template):
        raise Unsupported(fname + ": not a Template")
    tr = Tr(fname)
    body = tr.block(list(tree.body), {"output_file": ("output_file", "OutputFile", "output_file")}, 1, top=True)
    return ("/- %s -/\ndef %s (output_file : Tpl.OutputFile) : List Tpl.Piece :=\n%s\n" % (fname, lean_name, body),
            source)


def generate():
    head = ["import BpProofs.PyPreludeTemplate",
            "/- GENERATED by harness/extract_srctemplate.py from src/betterproto/templates/*.j2 (and the Environment",
            "   options of src/betterproto/plugin/compiler.py) of the working tree -- do not edit",
            "   source-hash: %s -/",
            "set_option maxRecDepth 4000",
            "namespace Bp.Src", "open Bp", ""]
    try:
        check_compiler()
        h, hs = translate("header.py.j2", "render_header")
        t, ts = translate("template.py.j2", "render_template")
        digest = hashlib.sha256((hs + "\0" + ts).encode()).hexdigest()[:16]
        body = [h, t,
                "/-- `outputfile_compiler` before ruff: `header.render(...) + body.render(...)` -/",
                "def render_module (output_file : Tpl.OutputFile) : List Tpl.Piece :=",
                "  render_header output_file ++ render_template output_file", ""]
    except Unsupported as e:
        digest = "unsupported"
        body = ["/- TRANSLATION FAILED: %s -/" % str(e).replace("-/", "- /"), ""]
    return "\n".join(head) % digest + "\n".join(body) + "\nend Bp.Src\n"


def main(write_if_changed, gen_dir):
    out = os.path.join(gen_dir, "..", "..", "BpProofs", "Gen", OUT)
    return [OUT] if write_if_changed(os.path.normpath(out), generate()) else []


if __name__ == "__main__":
    print(generate())
