"""SOURCE TRANSLATOR, Timestamp / Duration arithmetic (property C15): Python AST of the methods of `_Duration` /
`_Timestamp` of /repo/src/betterproto/__init__.py -> Lean definitions.

Same scheme as extract_src.py (whose statement translator `Tr` is subclassed here): on every run the methods listed in
METHODS are read from the WORKING TREE with `ast`, translated statement by statement into pure Lean functions over the
vocabulary of lean/BpProofs/PyPrelude.lean + lean/BpProofs/PyPreludeTime.lean and written to
lean/BpProofs/Gen/SrcTime.lean.  lean/BpProofs/SrcTieTime.lean proves each translated function equal to the model
function of lean/BpModel/Time.lean for every integer argument; lean/BpProofs/Props/C15Src.lean states those equalities
(and the C15 properties of the translated source) as property obligations.

Representation: `datetime` = Int microseconds since the epoch (UTC), `timedelta` = Int microseconds, a Timestamp /
Duration message = its (seconds, nanos) pair of ints.

Constructs added to those of extract_src.Tr (anything else raises Unsupported -> generated file without definitions):
  `divmod(a, b)` for a positive constant b; `abs(a)`; `cls(a, b)` in a classmethod (the message with seconds=a, nanos=b:
  dataclass field order of the well-known types); `self.seconds` / `self.nanos` in a method (int parameters);
  keyword-only parameters with a default `timedelta(microseconds=<positive int constant>)` (bound to their default: no
  caller passes them, they are the usual "default as a cached constant" idiom); `timedelta // <such a constant>`;
  `timedelta(days=, seconds=, microseconds=)` on int arguments; `timedelta(seconds=<int>, microseconds=<int> / 1e3)` (the
  float intrinsic justified in PyPreludeTime.lean); `td.days / .seconds / .microseconds`; `datetime - datetime`,
  `datetime + timedelta`; the module constant DATETIME_ZERO (only while the module defines it as
  `datetime(1970, 1, 1, tzinfo=timezone.utc)`); integer-valued floats: `<int> * 1e3`, `x % 1e9`, `x // 1e6`, `int(x)`,
  `x == 0` (exact below 2^53, which the intrinsics check); `dt.microsecond` of a parameter represented by that field, the
  statements that only handle the not-modelled date-time text being left out (TrTime.select); the f-strings
  `f"{text}Z"`, `f"{text}.{digits:0Wd}Z"` as `Py.fmtFrac0` / `Py.fmtFrac W digits`, `f"{…}{<float>:09d}"` as the
  ValueError it raises; the strings "-" / "" as a sign flag; the f-strings
  `f"{sign}{seconds}.{digits:0Wd}s"` (W a literal width: 03d, 06d) as `Py.fmtSecs sign seconds W digits`.
There are no loops in these methods (a loop raises Unsupported), so the definitions take no fuel.
"""
import ast
import datetime as _dt
import os
import re

from extract_src import EXC, SRC, Sig, Tr, Unsupported, indent, nm

LEAN_TY = {"int": "Int", "bool": "Bool", "timedelta": "Int", "datetime": "Int", "sign": "Bool",
           "float_div_1e3": "Int",                 # the float `x / 1e3`, represented by the int x
           "durtext": "(Bool × Int × Int × Int)",  # see Py.fmtSecs
           "ifloat": "Int",                        # an integer-valued float below 2^53 in magnitude (PyPreludeTime)
           "fractext": "(Option (Int × Int))"}     # see Py.fmtFrac


def lty(t):
    if isinstance(t, tuple):
        return "(" + " × ".join(lty(x) for x in t) + ")"
    if t not in LEAN_TY:
        raise Unsupported("no Lean type for " + str(t))
    return LEAN_TY[t]


def ilit(v):
    return "(%d : Int)" % v


def fconst(e):
    """value of a positive integer-valued float constant (1e3, 1e6, 1e9 …), else None"""
    if isinstance(e, ast.Constant) and type(e.value) is float and e.value > 0 and e.value == int(e.value) and e.value < 2.0**53:
        return int(e.value)
    return None


class PyRaises(Exception):
    """evaluating the expression raises this Python exception, whatever the values"""

    def __init__(self, exc):
        super().__init__(exc)
        self.exc = exc


class TrTime(Tr):
    """translator of one method body"""

    def __init__(self, sig, consts, kind, epoch_ok):
        super().__init__({}, sig, consts)
        self.kind = kind            # "classmethod" | "staticmethod" | "method"
        self.epoch_ok = epoch_ok    # the module defines DATETIME_ZERO as datetime(1970, 1, 1, tzinfo=timezone.utc)
        self.tdconst = {}           # local name -> microseconds of the constant timedelta it is bound to
        self.fieldparams = {}       # parameter represented by some of its fields only: name -> {attribute: Lean parameter}
        self.opaque = set()         # names holding text / date objects that are not modelled

    # ------------------------------------------------------------------------------------------------ expressions
    def expr(self, e, env):
        if isinstance(e, ast.Constant) and isinstance(e.value, str):
            if e.value == "-":
                return [], "true", "sign"
            if e.value == "":
                return [], "false", "sign"
            raise Unsupported("string constant %r" % e.value)
        if isinstance(e, ast.Constant) and isinstance(e.value, float):
            raise Unsupported("float constant %r outside `<int> / 1e3`" % e.value)
        if isinstance(e, ast.Name) and e.id not in env and e.id == "DATETIME_ZERO":
            if not self.epoch_ok:
                raise Unsupported("DATETIME_ZERO is no longer datetime(1970, 1, 1, tzinfo=timezone.utc)")
            return [], "Py.epochUtc", "datetime"
        if isinstance(e, ast.Attribute):
            if isinstance(e.value, ast.Name) and e.value.id == "self" and "self" not in env:
                if self.kind == "method" and e.attr in ("seconds", "nanos"):
                    return [], "self_" + e.attr, "int"
                raise Unsupported("attribute self.%s" % e.attr)
            if isinstance(e.value, ast.Name) and e.value.id in self.fieldparams and e.value.id not in env:
                if e.attr in self.fieldparams[e.value.id]:
                    return [], self.fieldparams[e.value.id][e.attr], "int"
                raise Unsupported("attribute %s.%s" % (e.value.id, e.attr))
            b, a, ta = self.expr(e.value, env)
            if ta == "timedelta" and e.attr in ("days", "seconds", "microseconds"):
                return b, "(Py.td%s %s)" % (e.attr.capitalize(), a), "int"
            raise Unsupported("attribute .%s of %s" % (e.attr, ta))
        if isinstance(e, ast.BinOp) and not isinstance(e.op, ast.Pow):
            b1, a, ta = self.expr(e.left, env)
            op = type(e.op).__name__
            if ta == "int" and op == "Div" and isinstance(e.right, ast.Constant) and type(e.right.value) is float \
                    and e.right.value == 1000.0:
                return b1, a, "float_div_1e3"
            c = fconst(e.right)
            if c is not None:
                # arithmetic of integer-valued floats with a float constant: exact below 2^53, checked by the intrinsic
                fn = {("int", "Mult"): "fmul", ("ifloat", "Mult"): "fmul", ("ifloat", "Mod"): "fmod",
                      ("ifloat", "FloorDiv"): "ffloordiv"}.get((ta, op))
                if fn is None:
                    raise Unsupported("operator %s on %s and the float constant %r" % (op, ta, e.right.value))
                t = self.tmp()
                return b1 + [("bind", t, "Py.%s %s %s" % (fn, a, ilit(c)))], t, "ifloat"
            b2, b, tb = self.expr(e.right, env)
            if (ta, tb) == ("int", "int") and op != "Div":
                return super().expr(e, env)
            if (ta, op, tb) == ("timedelta", "FloorDiv", "timedelta"):
                if not (isinstance(e.right, ast.Name) and self.tdconst.get(e.right.id, 0) > 0):
                    raise Unsupported("timedelta // something that is not a positive constant timedelta")
                return b1 + b2, "(Py.tdFloorDiv %s %s)" % (a, b), "int"
            if (ta, op, tb) == ("datetime", "Sub", "datetime"):
                return b1 + b2, "(Py.dtSub %s %s)" % (a, b), "timedelta"
            if (ta, op, tb) == ("datetime", "Add", "timedelta"):
                return b1 + b2, "(Py.dtAdd %s %s)" % (a, b), "datetime"
            raise Unsupported("operator %s on %s, %s" % (op, ta, tb))
        if isinstance(e, ast.Compare) and len(e.ops) == 1:
            b1, a, ta = self.expr(e.left, env)
            b2, b, tb = self.expr(e.comparators[0], env)
            if "ifloat" in (ta, tb):
                # Python compares a float with an int / a float exactly
                sym = {"Lt": "<", "LtE": "≤", "Gt": ">", "GtE": "≥", "Eq": "=", "NotEq": "≠"}.get(type(e.ops[0]).__name__)
                if sym is None or not {ta, tb} <= {"int", "ifloat"}:
                    raise Unsupported("comparison %s on %s, %s" % (type(e.ops[0]).__name__, ta, tb))
                return b1 + b2, "(decide (%s %s %s))" % (a, sym, b), "bool"
            return super().expr(e, env)
        if isinstance(e, ast.JoinedStr):
            v = e.values
            if v and isinstance(v[0], ast.FormattedValue) and isinstance(v[0].value, ast.Name) and v[0].value.id in self.opaque:
                return self.fstring_frac(e, env)
            return self.fstring(e, env)
        return super().expr(e, env)

    @staticmethod
    def spec_width(fv):
        """W of a `:0Wd` format spec (zero-padded decimal of width W), else None"""
        spec = fv.format_spec
        if isinstance(spec, ast.JoinedStr) and len(spec.values) == 1 and isinstance(spec.values[0], ast.Constant):
            m = re.fullmatch(r"0([1-9][0-9]*)d", str(spec.values[0].value))
            if m:
                return int(m.group(1))
        return None

    def fstring_frac(self, e, env):
        """f"{text}Z" -> Py.fmtFrac0;  f"{text}.{digits:0Wd}Z" -> Py.fmtFrac W digits;  a float field with a `d` format
        spec raises ValueError (`text`: an opaque name, the isoformat() date-time to the second)"""
        v = e.values
        if v[0].conversion != -1 or v[0].format_spec is not None:
            raise Unsupported("f-string " + ast.unparse(e))
        if len(v) == 2 and isinstance(v[1], ast.Constant) and v[1].value == "Z":
            return [], "Py.fmtFrac0", "fractext"
        if len(v) >= 3 and isinstance(v[1], ast.Constant) and v[1].value == "." and isinstance(v[2], ast.FormattedValue) \
                and v[2].conversion == -1:
            width = self.spec_width(v[2])
            if width is None:
                raise Unsupported("format spec of " + ast.unparse(e))
            b, dig, ty = self.expr(v[2].value, env)
            if ty == "ifloat" and not b:
                raise PyRaises("ValueError")   # format code 'd' for an object of type float
            if ty == "int" and len(v) == 4 and isinstance(v[3], ast.Constant) and v[3].value == "Z":
                return b, "(Py.fmtFrac %s %s)" % (ilit(width), dig), "fractext"
        raise Unsupported("f-string " + ast.unparse(e))

    def fstring(self, e, env):
        """f"{sign}{seconds}.{digits:0Wd}s" -> Py.fmtSecs sign seconds W digits"""
        v = e.values
        ok = (len(v) == 5 and isinstance(v[0], ast.FormattedValue) and isinstance(v[1], ast.FormattedValue)
              and isinstance(v[2], ast.Constant) and v[2].value == "." and isinstance(v[3], ast.FormattedValue)
              and isinstance(v[4], ast.Constant) and v[4].value == "s"
              and all(x.conversion == -1 for x in (v[0], v[1], v[3]))
              and v[0].format_spec is None and v[1].format_spec is None and v[3].format_spec is not None)
        if not ok:
            raise Unsupported("f-string " + ast.unparse(e))
        width = self.spec_width(v[3])
        if width is None:
            raise Unsupported("format spec of " + ast.unparse(e))
        b0, sg, t0 = self.expr(v[0].value, env)
        b1, sec, t1 = self.expr(v[1].value, env)
        b2, dig, t2 = self.expr(v[3].value, env)
        if (t0, t1, t2) != ("sign", "int", "int"):
            raise Unsupported("f-string fields of type %s, %s, %s" % (t0, t1, t2))
        return b0 + b1 + b2, "(Py.fmtSecs %s %s %s %s)" % (sg, sec, ilit(width), dig), "durtext"

    def call(self, e, env):
        f = e.func
        if isinstance(f, ast.Name) and f.id not in env:
            if f.id == "divmod" and len(e.args) == 2 and not e.keywords:
                b1, a, ta = self.expr(e.args[0], env)
                b2, b, tb = self.expr(e.args[1], env)
                if ta != "int" or tb != "int" or not self.const_positive(e.args[1]):
                    raise Unsupported("divmod on %s, %s / by something that is not a positive constant" % (ta, tb))
                return b1 + b2, "(Py.divmod %s %s)" % (a, b), ("int", "int")
            if f.id == "abs" and len(e.args) == 1 and not e.keywords:
                b1, a, ta = self.expr(e.args[0], env)
                if ta != "int":
                    raise Unsupported("abs of " + str(ta))
                return b1, "(Py.abs %s)" % a, "int"
            if f.id == "cls" and self.kind == "classmethod" and len(e.args) == 2 and not e.keywords:
                b1, a, ta = self.expr(e.args[0], env)
                b2, b, tb = self.expr(e.args[1], env)
                if ta != "int" or tb != "int":
                    raise Unsupported("cls(%s, %s)" % (ta, tb))
                return b1 + b2, "(%s, %s)" % (a, b), ("int", "int")
            if f.id == "timedelta":
                return self.timedelta(e, env)
            if f.id == "int" and len(e.args) == 1 and not e.keywords:
                b1, a, ta = self.expr(e.args[0], env)
                if ta == "ifloat":
                    return b1, a, "int"   # int() of an integer-valued float
        return super().call(e, env)

    def timedelta(self, e, env):
        if e.args:
            raise Unsupported("timedelta with positional arguments")
        kw = {}
        binds = []
        for k in e.keywords:
            if k.arg not in ("days", "seconds", "microseconds") or k.arg in kw:
                raise Unsupported("timedelta keyword %s" % k.arg)
            b, t, ty = self.expr(k.value, env)
            binds += b
            kw[k.arg] = (t, ty)
        tys = {k: ty for k, (_, ty) in kw.items()}
        if all(ty == "int" for ty in tys.values()):
            args = [kw.get(k, (ilit(0), "int"))[0] for k in ("days", "seconds", "microseconds")]
            return binds, "(Py.timedelta %s)" % " ".join(args), "timedelta"
        if tys == {"seconds": "int", "microseconds": "float_div_1e3"}:
            return binds, "(Py.timedeltaSecondsFloatMicros %s %s)" % (kw["seconds"][0], kw["microseconds"][0]), "timedelta"
        raise Unsupported("timedelta arguments of type %r" % (tys,))

    # -------------------------------------------------------------------------------------------------- statements
    def loop(self, st, rest, env, k, in_loop):
        raise Unsupported("loop in a Timestamp / Duration method")

    def block(self, stmts, env, k, in_loop):
        if stmts and isinstance(stmts[0], ast.Return) and isinstance(stmts[0].value, ast.JoinedStr):
            try:
                return super().block(stmts, env, k, in_loop)
            except PyRaises as r:
                return ".raise " + EXC[r.exc]
        return super().block(stmts, env, k, in_loop)

    def select(self, fn):
        """the statements that are translated.  When a parameter is represented by some of its fields only
        (`dt` by `dt.microsecond` in timestamp_to_json) the top-level statements that only move NOT MODELLED objects
        around (the datetime itself, its copy, its isoformat() text: no declared field is read, no numeric local is
        read or written, no return / raise / loop) are left out; the names they bind are `opaque`: usable only as the
        leading `{text}` of the returned f-string."""
        if not self.fieldparams:
            return list(fn.body)
        local = {a.arg for a in fn.args.args} | {x.id for st in fn.body for x in ast.walk(st)
                                                 if isinstance(x, ast.Name) and isinstance(x.ctx, ast.Store)}
        self.opaque = set(self.fieldparams)
        numeric, reassigned, out = set(), set(), []
        for st in fn.body:
            names = [x for x in ast.walk(st) if isinstance(x, ast.Name)]
            loads = {x.id for x in names if isinstance(x.ctx, ast.Load)} & local
            stores = {x.id for x in names if isinstance(x.ctx, ast.Store)}
            reads = [x for x in ast.walk(st) if isinstance(x, ast.Attribute) and isinstance(x.value, ast.Name)
                     and x.value.id in self.fieldparams and x.attr in self.fieldparams[x.value.id]]
            ctl = any(isinstance(x, (ast.Return, ast.Raise, ast.While, ast.For, ast.Try, ast.With, ast.Assert, ast.Delete,
                                     ast.Global, ast.Nonlocal, ast.NamedExpr, ast.Yield, ast.YieldFrom, ast.Await,
                                     ast.Lambda, ast.FunctionDef, ast.ClassDef)) for x in ast.walk(st))
            if stores and not reads and not ctl and loads <= self.opaque and not (stores & numeric):
                self.opaque |= stores
                reassigned |= stores & set(self.fieldparams)
                continue
            if any(x.value.id in reassigned for x in reads):
                raise Unsupported("a field of a parameter is read after the parameter was rebound")
            if stores & self.opaque:
                raise Unsupported("a translated statement binds the not-modelled name(s) %s" % sorted(stores & self.opaque))
            numeric |= stores
            out.append(st)
        return out

    def method(self, fn, env):
        """Lean definition of the method `fn` (no fuel parameter: there are no loops)"""
        binds = []
        stored = {x.id for st in fn.body for x in ast.walk(st) if isinstance(x, ast.Name) and isinstance(x.ctx, ast.Store)}
        for a, d in zip(fn.args.kwonlyargs, fn.args.kw_defaults):
            # keyword-only parameter with a constant timedelta default: bound to the default
            if d is None or a.arg in stored:
                raise Unsupported("keyword-only parameter %s without default / reassigned" % a.arg)
            b, t, ty = self.expr(d, {})
            if b or ty != "timedelta":
                raise Unsupported("default of %s: %s" % (a.arg, ast.unparse(d)))
            try:
                val = eval(compile(ast.Expression(d), "<default>", "eval"), {"__builtins__": {}, "timedelta": _dt.timedelta}, {})
                us = val // _dt.timedelta(microseconds=1)
            except Exception:
                raise Unsupported("default of %s is not a constant: %s" % (a.arg, ast.unparse(d)))
            self.tdconst[a.arg] = us
            env[a.arg] = "timedelta"
            binds.append(("let", nm(a.arg), t))

        def fall_off(env2):
            raise Unsupported("control reaches the end of a method that returns a value")
        self.fresh_stream = {}
        txt = self.wrap(binds, self.block(self.select(fn), env, fall_off, False))
        params = " ".join("(%s : %s)" % (nm(p), lty(t)) for p, t, _ in self.sig.params)
        return "def %s %s : Py.Res %s :=\n%s" % (self.sig.name, params, lty(self.sig.ret), indent(txt))


# ------------------------------------------------------------------------------------------------ what is translated
# (lean name, class, method, declared result type, parameters represented by some of their int fields only)
METHODS = [
    ("duration_from_timedelta", "_Duration", "from_timedelta", ("int", "int"), {}),
    ("duration_to_timedelta", "_Duration", "to_timedelta", "timedelta", {}),
    ("duration_delta_to_json", "_Duration", "delta_to_json", "durtext", {}),
    ("timestamp_from_datetime", "_Timestamp", "from_datetime", ("int", "int"), {}),
    ("timestamp_to_datetime", "_Timestamp", "to_datetime", "datetime", {}),
    # the fractional digits of the JSON text as a function of `dt.microsecond`; the date-time text to the second
    # (astimezone / replace / isoformat) is not modelled: see TrTime.select
    # (timestamp_to_json: the fragment translation `timestamp_to_json_frac` is subsumed by the WHOLE translation of
    #  harness/extract_srcleaf.py; it read a field of `dt` and refuses the repaired source D52, which rebinds `dt` first)
]
# modelled but NOT translated (BpModel/Time.lean `durFromJson`): `_Duration.delta_from_json` parses a str with `Decimal`.

RET_ANN = {("int", "int"): ('"_Duration"', '"_Timestamp"', "'_Duration'", "'_Timestamp'"), "timedelta": ("timedelta",),
           "datetime": ("datetime",), "durtext": ("str",), "fractext": ("str",)}
PARAM_ANN = {"timedelta": "timedelta", "datetime": "datetime", "int": "int"}


def find_method(tree, cls, name):
    hits = [m for c in tree.body if isinstance(c, ast.ClassDef) and c.name == cls
            for m in c.body if isinstance(m, ast.FunctionDef) and m.name == name]
    if len(hits) != 1:
        raise Unsupported("method %s.%s found %d times" % (cls, name, len(hits)))
    return hits[0]


def epoch_is_utc_1970(tree):
    """the module says `DATETIME_ZERO = datetime_default_gen()` (once) and
    `def datetime_default_gen(): return datetime(1970, 1, 1, tzinfo=timezone.utc)`"""
    assigns = [n for n in ast.walk(tree) if isinstance(n, (ast.Assign, ast.AugAssign, ast.AnnAssign))
               and any(isinstance(x, ast.Name) and x.id == "DATETIME_ZERO" and isinstance(x.ctx, ast.Store) for x in ast.walk(n))]
    if len(assigns) != 1 or assigns[0] not in tree.body or not isinstance(assigns[0], ast.Assign):
        return False
    val = assigns[0].value
    want = "datetime(1970, 1, 1, tzinfo=timezone.utc)"
    if ast.unparse(val) == want:
        return True
    if not (isinstance(val, ast.Call) and isinstance(val.func, ast.Name) and not val.args and not val.keywords):
        return False
    gens = [n for n in tree.body if isinstance(n, ast.FunctionDef) and n.name == val.func.id]
    if len(gens) != 1 or gens[0].decorator_list or gens[0].args.args:
        return False
    body = [s for s in gens[0].body if not (isinstance(s, ast.Expr) and isinstance(s.value, ast.Constant))]
    return len(body) == 1 and isinstance(body[0], ast.Return) and body[0].value is not None and ast.unparse(body[0].value) == want


def translate(path=SRC):
    tree = ast.parse(open(path).read())
    consts = {}
    for n in tree.body:  # module-level integer constants
        if isinstance(n, ast.Assign) and len(n.targets) == 1 and isinstance(n.targets[0], ast.Name) and \
                isinstance(n.value, ast.Constant) and type(n.value.value) is int:
            consts[n.targets[0].id] = n.value.value
    epoch_ok = epoch_is_utc_1970(tree)
    out = []
    for lean, cls, name, ret, fields in METHODS:
        fn = find_method(tree, cls, name)
        decos = [ast.unparse(d) for d in fn.decorator_list]
        if decos not in ([], ["classmethod"], ["staticmethod"]):
            raise Unsupported("decorators of %s.%s: %r" % (cls, name, decos))
        kind = decos[0] if decos else "method"
        if fn.args.vararg or fn.args.kwarg or fn.args.posonlyargs or fn.args.defaults:
            raise Unsupported("parameter list of %s.%s" % (cls, name))
        args = list(fn.args.args)
        params = []
        if kind == "classmethod":
            if not args or args[0].arg != "cls":
                raise Unsupported("first parameter of classmethod %s.%s" % (cls, name))
            args = args[1:]
        elif kind == "method":
            if not args or args[0].arg != "self":
                raise Unsupported("first parameter of method %s.%s" % (cls, name))
            args = args[1:]
            params = [("self_seconds", "int", None), ("self_nanos", "int", None)]
        fieldparams = {}
        for a in args:
            t = PARAM_ANN.get(ast.unparse(a.annotation)) if a.annotation is not None else None
            if t is None:
                raise Unsupported("parameter %s of %s.%s: annotation %s" % (a.arg, cls, name, a.annotation and ast.unparse(a.annotation)))
            if a.arg in fields:
                if t != "datetime":
                    raise Unsupported("parameter %s of %s.%s is not a datetime" % (a.arg, cls, name))
                fieldparams[a.arg] = {f: "%s_%s" % (a.arg, f) for f in fields[a.arg]}
                params += [("%s_%s" % (a.arg, f), "int", None) for f in fields[a.arg]]
            else:
                params.append((a.arg, t, None))
        if set(fields) - set(fieldparams):
            raise Unsupported("parameter(s) %s of %s.%s not found" % (sorted(set(fields) - set(fieldparams)), cls, name))
        if fn.returns is None or ast.unparse(fn.returns) not in RET_ANN[ret] or \
                (isinstance(ret, tuple) and ast.unparse(fn.returns).strip("'\"") != cls):
            raise Unsupported("return annotation of %s.%s" % (cls, name))
        sg = Sig(lean, params, ret, None)
        tr = TrTime(sg, consts, kind, epoch_ok)
        tr.fieldparams = fieldparams
        env = {p: t for p, t, _ in params}
        txt = tr.method(fn, env)
        out.append("/- %s.%s  (src/betterproto/__init__.py, line %d) -/\n%s" % (cls, name, fn.lineno, txt))
    return out


HEADER = """import BpProofs.PyPreludeTime
/- GENERATED by harness/extract_srctime.py from the Python AST of src/betterproto/__init__.py -- do not edit.
   Each definition is the statement-by-statement translation of the named method of _Duration / _Timestamp
   (datetime = Int microseconds since the epoch, timedelta = Int microseconds, message = (seconds, nanos)). -/
set_option linter.unusedVariables false
namespace Bp.Src
open Bp

"""


def render(path=SRC):
    try:
        defs = translate(path)
        return HEADER + "\n\n".join(defs) + "\n\nend Bp.Src\n", None
    except Unsupported as e:
        msg = "the source translator does not support the current source: %s" % e
        return HEADER + "/- TRANSLATION FAILED: %s -/\n\nend Bp.Src\n" % msg, msg
    except (OSError, SyntaxError) as e:
        msg = "the source translator could not read the source: %r" % (e,)
        return HEADER + "/- TRANSLATION FAILED: %s -/\n\nend Bp.Src\n" % msg, msg


def main(write_if_changed, gen_dir):
    text, err = render()
    target = os.path.join(gen_dir, "..", "..", "BpProofs", "Gen", "SrcTime.lean")
    changed = write_if_changed(os.path.normpath(target), text)
    if err:
        print("extract_srctime: " + err)
    return ["SrcTime.lean"] if changed else []


if __name__ == "__main__":
    t, e = render()
    print(t)
    if e:
        print("ERROR:", e)
