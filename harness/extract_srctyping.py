"""SOURCE TRANSLATOR (C18): Python AST of the three typing compilers of
/repo/src/betterproto/plugin/typing_compiler.py -> Lean definitions.

Same scheme as extract_src.py / extract_srcimp.py (whose translator class `TrS` — the str / list-of-str fragment — is
subclassed here): on every run the methods of `DirectImportTypingCompiler`, `TypingImportTypingCompiler` and
`NoTyping310TypingCompiler` (`optional`, `list`, `dict`, `union`, `iterable`, `async_iterable`, `async_iterator`, the
static `_fmt`, and `imports` of the TypingImport compiler) are read from the working tree with `ast`, translated
statement by statement into pure Lean functions over the vocabulary of lean/BpProofs/PyPrelude.lean +
PyPreludeStr.lean + PyPreludeTyping.lean, and written to lean/BpProofs/Gen/SrcTyping.lean as
`Bp.Src.<Class>.<method>`.  lean/BpProofs/SrcTieTyping.lean proves each translated method equal to the function of the
corresponding `Compiler` of lean/BpModel/Typing.lean (returned text and requested import);
lean/BpProofs/Props/C18Src.lean states those equalities, and what follows from them through the C18 theorems, as
property obligations.

The state of a compiler object is THREADED like the `imports` set of extract_srcimp.py: the one dataclass field of the
class is a parameter of every instance method and is handed back with the result,
  `_imports: Dict[str, Set[str]] = field(default_factory=lambda: defaultdict(set))`  ->  `self_imports : List (Str × Str)`,
        the (module, name) pairs for which `self._imports[module].add(name)` has run, in order (the field must be exactly
        this defaultdict(set): with a plain dict the subscript would raise KeyError);
  `_imported: bool = False`  ->  `self_imported : Bool`.
An instance method becomes `<Class>.<m> (fuel : Nat) (self_… : state) (params…) : Py.Res (ret × state)`, a static method
`<Class>.<m> (fuel : Nat) (params…) : Py.Res ret`.  (`fuel` is the uniform first parameter of every translated function;
there is no loop here.)

NOT translated: `imports()` of the Direct / 310 compilers (a dict comprehension over `self._imports.items()`; the
representation of the state by a list of pairs has no `items()`), the abstract base class `TypingCompiler` and its
generator `import_lines`.

Fragment of Python added to the one of extract_srcimp.TrS (anything else raises Unsupported: the generated file then
holds no definition and every tie theorem fails to compile):
  `*name: str` in a signature (a list of str); `s[a:b]` / `s[a:]` / `s[:b]` on a str; `s.startswith(p)`;
  `"<sep>".join(xs)` for a str constant of ANY length, `xs` a list of str or `map(self.<static method>, <list of str>)`;
  `self.<method>(…)` for an already translated method of the same class (state threaded for an instance method);
  the statements `self._imports[<str>].add(<str>)` and `self._imported = <bool>`; reading `self._imported`;
  the dict displays `{}` and `{<str>: None, …}` as the return value of a method annotated
  `Dict[str, Optional[Set[str]]]`.  Any other use of `self` is rejected.
"""
import ast
import os

import extract_src
from extract_src import Sig, Unsupported, LEAN_TY, STREAM_TYS, nm, indent
from extract_srcimp import TrS, lean_str

REPO = os.environ.get("VERIF_REPO", "/repo")
SRC = os.path.join(REPO, "src", "betterproto", "plugin", "typing_compiler.py")
REL = "src/betterproto/plugin/typing_compiler.py"

LEAN_TY.update({"str": "Str", "strs": "(List Str)", "pairs": "(List (Str × Str))", "flag": "Bool",
                "importmap": "(List (Str × Option (List Str)))"})
STREAM_TYS.update({"pairs", "flag"})

ANNOT = {"str": "str", "bool": "bool", "int": "int", "Dict[str, Optional[Set[str]]]": "importmap"}

CLASSES = ["DirectImportTypingCompiler", "TypingImportTypingCompiler", "NoTyping310TypingCompiler"]
REQUIRED = ["optional", "list", "dict", "union", "iterable", "async_iterable", "async_iterator"]
# the dataclass field that is the state of the object: (annotation, default) as unparsed -> state type
STATE_FIELDS = {("Dict[str, Set[str]]", "field(default_factory=lambda: defaultdict(set))"): "pairs",
                ("bool", "False"): "flag"}
# methods left out (see the module docstring): only for the state type named
SKIP = {("pairs", "imports")}


def ann(a, what):
    s = ast.unparse(a).strip("\"'") if a is not None else None
    if s not in ANNOT:
        raise Unsupported("%s: annotation %s" % (what, s))
    return ANNOT[s]


def is_self_attr(e, attr=None):
    return isinstance(e, ast.Attribute) and isinstance(e.value, ast.Name) and e.value.id == "self" \
        and (attr is None or e.attr == attr)


class TrT(TrS):
    """TrS + the methods of a compiler class"""

    def __init__(self, sigs, sig, cls, state, static):
        TrS.__init__(self, sigs, sig, {}, set())
        self.cls = cls          # class name
        self.state = state      # (attribute name, state type, Lean variable) or None
        self.static = static    # the method being translated is a staticmethod (no `self`)

    # ------------------------------------------------------------ expressions
    def self_ok(self, env):
        if self.static or "self" in env:
            raise Unsupported("`self` is not the object of the method")

    def expr(self, e, env):
        if isinstance(e, ast.Name) and e.id == "self" and "self" not in env:
            raise Unsupported("`self` used as a value")
        if isinstance(e, ast.Attribute) and isinstance(e.value, ast.Name) and e.value.id == "self" and "self" not in env:
            self.self_ok(env)
            if self.state and self.state[1] == "flag" and e.attr == self.state[0] and isinstance(e.ctx, ast.Load):
                return [], self.state[2], "bool"
            raise Unsupported("attribute self.%s as a value" % e.attr)
        if isinstance(e, ast.Subscript) and isinstance(e.slice, ast.Slice):
            snap = self.ntmp
            b0, s, ts = self.expr(e.value, env)
            if ts == "str":
                sl = e.slice
                if sl.step is not None:
                    raise Unsupported("slice with a step")
                binds = list(b0)
                lo = hi = None
                if sl.lower is not None:
                    b, lo, _ = self.pure(sl.lower, env, ("int",))
                    binds += b
                if sl.upper is not None:
                    b, hi, _ = self.pure(sl.upper, env, ("int",))
                    binds += b
                if lo is None and hi is None:
                    return binds, s, "str"
                if hi is None:
                    return binds, "(Py.sliceFrom %s %s)" % (s, lo), "str"
                if lo is None:
                    return binds, "(Py.sliceTo %s %s)" % (s, hi), "str"
                return binds, "(Py.slice %s %s %s)" % (s, lo, hi), "str"
            self.ntmp = snap
            return TrS.expr(self, e, env)
        if isinstance(e, ast.Dict):
            if self.sig.ret != "importmap":
                raise Unsupported("dict display " + ast.unparse(e))
            binds, items = [], []
            for k, v in zip(e.keys, e.values):
                if k is None or not (isinstance(v, ast.Constant) and v.value is None):
                    raise Unsupported("dict display " + ast.unparse(e))
                b, t, _ = self.pure(k, env, ("str",))
                binds += b
                items.append("(%s, none)" % t)
            return binds, "([%s] : List (Str × Option (List Str)))" % ", ".join(items), "importmap"
        return TrS.expr(self, e, env)

    def call(self, e, env):
        f = e.func
        # "<sep>".join(xs) / "<sep>".join(map(self.m, xs))
        if isinstance(f, ast.Attribute) and f.attr == "join" and isinstance(f.value, ast.Constant) \
                and isinstance(f.value.value, str) and len(e.args) == 1 and not e.keywords:
            sep = lean_str(f.value.value)
            a = e.args[0]
            if isinstance(a, ast.Call) and isinstance(a.func, ast.Name) and a.func.id == "map" and "map" not in env:
                if len(a.args) != 2 or a.keywords:
                    raise Unsupported("map with other than two arguments")
                g = a.args[0]
                if not is_self_attr(g):
                    raise Unsupported("map of " + ast.unparse(g))
                self.self_ok(env)
                sg = self.sigs.get("%s.%s" % (self.cls, g.attr))
                if sg is None or sg.stream is not None or [t for _, t, _ in sg.params] != ["str"] or sg.ret != "str":
                    raise Unsupported("map of %s: not a translated static method str -> str" % ast.unparse(g))
                b, xs, _ = self.pure(a.args[1], env, ("strs",))
                t = self.tmp()
                return b + [("bind", t, "Py.mapRes (%s fuel) %s" % (sg.name, xs))], "(Py.joinStr %s %s)" % (sep, t), "str"
            b, xs, _ = self.pure(a, env, ("strs",))
            return b, "(Py.joinStr %s %s)" % (sep, xs), "str"
        # s.startswith(p)
        if isinstance(f, ast.Attribute) and f.attr == "startswith" and len(e.args) == 1 and not e.keywords \
                and not is_self_attr(f):
            b1, s, _ = self.pure(f.value, env, ("str",))
            b2, p, _ = self.pure(e.args[0], env, ("str",))
            return b1 + b2, "(Py.startswith %s %s)" % (s, p), "bool"
        # self.m(args)
        if is_self_attr(f) and "self" not in env:
            sg = self.sigs.get("%s.%s" % (self.cls, f.attr))
            if sg is None:
                raise Unsupported("self.%s is not an (already) translated method of %s" % (f.attr, self.cls))
            if sg.stream is not None:
                self.self_ok(env)     # an instance method needs the object; a static one is reachable through the class too
            elif self.static:
                raise Unsupported("`self` in a static method")
            if e.keywords:
                raise Unsupported("keyword arguments of self.%s" % f.attr)
            ps = [(p, t) for p, t, _ in sg.params if t not in STREAM_TYS]
            if len(ps) != len(e.args) or any(isinstance(a, ast.Starred) for a in e.args):
                raise Unsupported("arguments of self.%s" % f.attr)
            binds, args = [], []
            for (pn, pt), a in zip(ps, e.args):
                b, t, ty = self.expr(a, env)
                if ty != pt:
                    raise Unsupported("argument %s of self.%s has type %s, expected %s" % (pn, f.attr, ty, pt))
                binds += b
                args.append(t)
            t = self.tmp()
            if sg.stream is None:
                return binds + [("bind", t, "%s fuel %s" % (sg.name, " ".join(args)))], t, sg.ret
            st = self.state[2]
            return binds + [("bind", "(%s, %s)" % (t, st), "%s fuel %s %s" % (sg.name, st, " ".join(args)))], t, sg.ret
        return TrS.call(self, e, env)

    # ------------------------------------------------------------ statements
    def block(self, stmts, env, k, in_loop):
        if stmts:
            st, rest = stmts[0], stmts[1:]
            # self._imports[<module>].add(<name>)
            if isinstance(st, ast.Expr) and isinstance(st.value, ast.Call) and isinstance(st.value.func, ast.Attribute) \
                    and isinstance(st.value.func.value, ast.Subscript) and is_self_attr(st.value.func.value.value) \
                    and "self" not in env:
                c = st.value
                attr = c.func.value.value.attr
                self.self_ok(env)
                if not (self.state and self.state[1] == "pairs" and attr == self.state[0]):
                    raise Unsupported("self.%s[…] is not the defaultdict(set) of the class" % attr)
                if not (c.func.attr == "add" and len(c.args) == 1 and not c.keywords):
                    raise Unsupported("method %s of a member of self.%s" % (c.func.attr, attr))
                b1, m, _ = self.pure(c.func.value.slice, env, ("str",))
                b2, n, _ = self.pure(c.args[0], env, ("str",))
                s = self.state[2]
                return self.wrap(b1 + b2 + [("let", s, "%s ++ [(%s, %s)]" % (s, m, n))],
                                 self.block(rest, dict(env), k, in_loop))
            # self._imported = <bool>
            if isinstance(st, ast.Assign) and len(st.targets) == 1 and is_self_attr(st.targets[0]) and "self" not in env:
                attr = st.targets[0].attr
                self.self_ok(env)
                if not (self.state and self.state[1] == "flag" and attr == self.state[0]):
                    raise Unsupported("assignment to self.%s" % attr)
                b, t, _ = self.pure(st.value, env, ("bool",))
                return self.wrap(b + [("let", self.state[2], t)], self.block(rest, dict(env), k, in_loop))
            # no other statement may store into / delete from the object
            for x in ast.walk(st) if not isinstance(st, (ast.If, ast.For, ast.While, ast.With)) else []:
                if isinstance(x, (ast.Attribute, ast.Subscript)) and isinstance(x.ctx, (ast.Store, ast.Del)):
                    raise Unsupported("store into " + ast.unparse(x))
        return TrS.block(self, stmts, env, k, in_loop)


# ------------------------------------------------------------------------------------------------ what is translated
def imported_from(tree, name, module):
    """`name` is bound by `from <module> import name` at module level and nowhere else in the file"""
    ok = any(isinstance(n, ast.ImportFrom) and n.module == module and n.level == 0
             and any(a.name == name and a.asname is None for a in n.names) for n in tree.body)
    for n in ast.walk(tree):
        if isinstance(n, ast.Name) and n.id == name and isinstance(n.ctx, (ast.Store, ast.Del)):
            ok = False
        if isinstance(n, ast.arg) and n.arg == name:
            ok = False
        if isinstance(n, (ast.FunctionDef, ast.AsyncFunctionDef, ast.ClassDef)) and n.name == name:
            ok = False
        if isinstance(n, (ast.Import, ast.ImportFrom)):
            for a in n.names:
                if (a.asname or a.name) == name and not (isinstance(n, ast.ImportFrom) and n.module == module
                                                          and n.level == 0 and a.asname is None and a.name == name):
                    ok = False
    return ok


def class_state(tree, cls):
    """(attribute, state type, Lean variable) of the one dataclass field of the class"""
    decos = [ast.unparse(d) for d in cls.decorator_list]
    if decos != ["dataclass"] or not imported_from(tree, "dataclass", "dataclasses"):
        raise Unsupported("class %s is not decorated with (only) dataclasses.dataclass" % cls.name)
    fields = [n for n in cls.body if isinstance(n, (ast.AnnAssign, ast.Assign))]
    if len(fields) != 1 or not isinstance(fields[0], ast.AnnAssign) or not isinstance(fields[0].target, ast.Name) \
            or fields[0].value is None:
        raise Unsupported("class %s: expected exactly one annotated field with a default" % cls.name)
    f = fields[0]
    key = (ast.unparse(f.annotation), ast.unparse(f.value))
    if key not in STATE_FIELDS:
        raise Unsupported("class %s: field %s: %s = %s" % (cls.name, f.target.id, key[0], key[1]))
    ty = STATE_FIELDS[key]
    if ty == "pairs":
        for name, mod in (("field", "dataclasses"), ("defaultdict", "collections")):
            if not imported_from(tree, name, mod):
                raise Unsupported("`%s` is not (only) the one imported from %s" % (name, mod))
        for n in ast.walk(tree):
            if isinstance(n, ast.Name) and n.id == "set" and isinstance(n.ctx, (ast.Store, ast.Del)):
                raise Unsupported("`set` is rebound")
    attr = f.target.id
    return attr, ty, "self" + attr if attr.startswith("_") else "self_" + attr


def translate(path=SRC):
    tree = ast.parse(open(path).read())
    for b in ("map", "str", "bool"):
        for n in ast.walk(tree):
            if (isinstance(n, ast.Name) and n.id == b and isinstance(n.ctx, (ast.Store, ast.Del))) or \
                    (isinstance(n, (ast.FunctionDef, ast.ClassDef)) and n.name == b and n in tree.body):
                raise Unsupported("builtin `%s` is rebound" % b)
    sigs, out = {}, []
    for cname in CLASSES:
        found = [n for n in tree.body if isinstance(n, ast.ClassDef) and n.name == cname]
        if len(found) != 1:
            raise Unsupported("class %s found %d times at module level" % (cname, len(found)))
        cls = found[0]
        state = class_state(tree, cls)
        methods = [n for n in cls.body if isinstance(n, (ast.FunctionDef, ast.AsyncFunctionDef))]
        names = [m.name for m in methods]
        if len(set(names)) != len(names):
            raise Unsupported("class %s defines a method twice" % cname)
        for r in REQUIRED:
            if r not in names:
                raise Unsupported("class %s has no method %s" % (cname, r))
        for other in cls.body:
            if not isinstance(other, (ast.FunctionDef, ast.AnnAssign)) and not (
                    isinstance(other, ast.Expr) and isinstance(other.value, ast.Constant)) and not isinstance(other, ast.Pass):
                raise Unsupported("class %s: member %s" % (cname, type(other).__name__))
        for fn in methods:
            if (state[1], fn.name) in SKIP:
                continue
            if not isinstance(fn, ast.FunctionDef):
                raise Unsupported("async method %s.%s" % (cname, fn.name))
            decos = [ast.unparse(d) for d in fn.decorator_list]
            if decos not in ([], ["staticmethod"]):
                raise Unsupported("decorators of %s.%s: %r" % (cname, fn.name, decos))
            static = decos == ["staticmethod"]
            a = fn.args
            if a.posonlyargs or a.kwonlyargs or a.kwarg or a.defaults or a.kw_defaults:
                raise Unsupported("signature of %s.%s" % (cname, fn.name))
            args = list(a.args)
            if not static:
                if not args or args[0].arg != "self" or args[0].annotation is not None:
                    raise Unsupported("first parameter of %s.%s is not `self`" % (cname, fn.name))
                args = args[1:]
            what = "%s.%s" % (cname, fn.name)
            params = [(x.arg, ann(x.annotation, "parameter %s of %s" % (x.arg, what)), None) for x in args]
            if a.vararg is not None:
                if ann(a.vararg.annotation, "parameter *%s of %s" % (a.vararg.arg, what)) != "str":
                    raise Unsupported("parameter *%s of %s is not *…: str" % (a.vararg.arg, what))
                params.append((a.vararg.arg, "strs", None))
            pnames = [p for p, _, _ in params]
            if len(set(pnames)) != len(pnames) or "self" in pnames or state[2] in pnames or "fuel" in pnames:
                raise Unsupported("parameter names of " + what)
            ret = ann(fn.returns, "return of " + what)
            if static:
                sg = Sig(what, params, ret, None)
            else:
                sg = Sig(what, [(state[2], state[1], None)] + params, ret, state[2], state[1])
            tr = TrT(sigs, sg, cname, state, static)
            env = {p: t for p, t, _ in sg.params}
            txt = tr.function(list(fn.body), env)
            sigs[what] = sg          # visible to the methods that follow (no recursion)
            out.append("/- %s  (%s, line %d) -/\n%s" % (what, REL, fn.lineno, txt))
    return out


HEADER = """import BpProofs.PyPreludeTyping
/- GENERATED by harness/extract_srctyping.py from the Python AST of src/betterproto/plugin/typing_compiler.py -- do not edit.
   Each definition is the statement-by-statement translation of the named method; the state of the compiler object
   (`self._imports` as the list of (module, name) pairs added so far / `self._imported`) is a parameter and is handed
   back with the result. -/
set_option linter.unusedVariables false
namespace Bp.Src
open Bp Bp.Importing

"""


def render(path=SRC):
    try:
        defs = translate(path)
        return HEADER + "\n\n".join(defs) + "\n\nend Bp.Src\n", None
    except Unsupported as e:
        msg = "the source translator does not support the current source: %s" % e
        return HEADER + "/- TRANSLATION FAILED: %s -/\n\nend Bp.Src\n" % msg, msg
    except (OSError, SyntaxError) as e:
        msg = "the source translator could not read the source: %r" % (e,)
        return HEADER + "/- TRANSLATION FAILED: %s -/\n\nend Bp.Src\n" % msg, msg


def main(write_if_changed, gen_dir):
    text, err = render()
    target = os.path.join(gen_dir, "..", "..", "BpProofs", "Gen", "SrcTyping.lean")
    changed = write_if_changed(os.path.normpath(target), text)
    if err:
        print("extract_srctyping: " + err)
    return ["SrcTyping.lean"] if changed else []


if __name__ == "__main__":
    t, e = render()
    print(t)
    if e:
        print("ERROR:", e)
