"""Per-area extractor (C11, C18): renders the real template through the plugin of the
working tree for a probe service with the four streaming combinations under each of the
six option sets, parses the generated module with `ast` and writes what the stub and the
server base say about every RPC to lean/BpModel/Gen/StubTable.lean.

Nothing here is trusted by the theorems beyond "this is what the generated text says":
helper called by the stub method, route literal, type arguments, `async for … yield` vs
`return await`; the `__mapping__` entry (route, bound `__rpc_*`, Cardinality constant,
request / reply type); the adapter shape of `__rpc_*`; the default body of the base method.
An option set whose output cannot be generated or parsed gives rows with `ok := false`
(then the `decide` theorems over the table fail and the check searches for the input)."""
import ast
import concurrent.futures
import hashlib
import os
import re
import sys

HERE = os.path.dirname(os.path.abspath(__file__))
sys.path.insert(0, HERE)

OPTION_SETS = [
    ("direct", ()),
    ("root", ("typing.root",)),
    ("310", ("typing.310",)),
    ("direct+pydantic", ("pydantic_dataclasses",)),
    ("root+pydantic", ("typing.root", "pydantic_dataclasses")),
    ("310+pydantic", ("typing.310", "pydantic_dataclasses")),
]

PROBE_PKG = "probe.v1"
PROBE_SVC = "ProbeSvc"
# (proto method name, client streaming, server streaming); names need re-casing
PROBE_METHODS = [("UnaryUnary", False, False), ("UnaryStream", False, True),
                 ("StreamUnary", True, False), ("StreamStream", True, True)]

PROBE = """syntax = "proto3";
package probe.v1;
message ProbeReq { int32 a = 1; }
message ProbeRep { string b = 1; }
service ProbeSvc {
  rpc UnaryUnary(ProbeReq) returns (ProbeRep);
  rpc UnaryStream(ProbeReq) returns (stream ProbeRep);
  rpc StreamUnary(stream ProbeReq) returns (ProbeRep);
  rpc StreamStream(stream ProbeReq) returns (stream ProbeRep);
}
"""

FIELDS = ["opt", "ok", "proto", "clientStreaming", "serverStreaming",
          "stubName", "stubHelper", "stubRoute", "stubReqType", "stubRespType", "stubYields", "stubIterParam",
          "baseName", "baseUnimplemented", "baseYields", "baseIterParam",
          "rpcName", "rpcRecv", "rpcSend", "rpcCalls",
          "mapRoute", "mapRpc", "mapCard", "mapReqType", "mapRespType"]
BOOLS = {"ok", "clientStreaming", "serverStreaming", "stubYields", "stubIterParam", "baseUnimplemented",
         "baseYields", "baseIterParam"}


def dotted(node):
    if isinstance(node, ast.Name):
        return node.id
    if isinstance(node, ast.Attribute):
        return dotted(node.value) + "." + node.attr
    if isinstance(node, ast.Constant) and isinstance(node.value, str):
        return node.value
    return ast.dump(node)


def calls_in(node):
    return [n for n in ast.walk(node) if isinstance(n, ast.Call)]


def has_yield(fn):
    return any(isinstance(n, (ast.Yield, ast.YieldFrom)) for n in ast.walk(fn))


def mangled(cls, name):
    """python's private-name mangling of `__x` inside class `cls`"""
    if name.startswith("__") and not name.endswith("__"):
        return "_%s%s" % (cls.lstrip("_"), name)
    return name


def analyse_service(tree, svc_py):
    """returns {python method name: info} for the stub, the base methods, the adapters, and the mapping list"""
    stub = base = None
    for n in tree.body:
        if isinstance(n, ast.ClassDef) and n.name == svc_py + "Stub":
            stub = n
        if isinstance(n, ast.ClassDef) and n.name == svc_py + "Base":
            base = n
    if stub is None or base is None:
        raise ValueError("stub or base class missing")
    stubs = {}
    for fn in stub.body:
        if not isinstance(fn, ast.AsyncFunctionDef):
            continue
        helper_calls = [c for c in calls_in(fn) if isinstance(c.func, ast.Attribute) and isinstance(c.func.value, ast.Name)
                        and c.func.value.id == "self" and c.func.attr.startswith("_")]
        if len(helper_calls) != 1:
            raise ValueError("stub method %s: %d helper calls" % (fn.name, len(helper_calls)))
        c = helper_calls[0]
        args = c.args
        info = {"helper": c.func.attr, "route": dotted(args[0]) if args else "", "yields": has_yield(fn)}
        info["iterparam"] = len(fn.args.args) > 1 and fn.args.args[1].arg.endswith("_iterator")
        info["passes"] = dotted(args[1]) if len(args) > 1 else ""
        info["param"] = fn.args.args[1].arg if len(fn.args.args) > 1 else ""
        if len(args) == 3:
            info["req"], info["resp"] = "", dotted(args[2])
        elif len(args) == 4:
            info["req"], info["resp"] = dotted(args[2]), dotted(args[3])
        else:
            raise ValueError("stub method %s: helper called with %d positional args" % (fn.name, len(args)))
        kws = {k.arg: dotted(k.value) for k in c.keywords}
        info["kwok"] = kws == {"timeout": "timeout", "deadline": "deadline", "metadata": "metadata"}
        # the awaited / iterated expression is the helper call itself
        stubs[fn.name] = info
    bases, rpcs, mapping = {}, {}, []
    for fn in base.body:
        if isinstance(fn, ast.AsyncFunctionDef) and not fn.name.startswith("__rpc_"):
            first = fn.body[0]
            if isinstance(first, ast.Expr) and isinstance(first.value, ast.Constant):   # docstring
                first = fn.body[1]
            unimpl = (isinstance(first, ast.Raise) and isinstance(first.exc, ast.Call)
                      and dotted(first.exc.func) == "grpclib.GRPCError"
                      and [dotted(a) for a in first.exc.args] == ["grpclib.const.Status.UNIMPLEMENTED"])
            bases[fn.name] = {"unimpl": unimpl, "yields": has_yield(fn),
                              "iterparam": len(fn.args.args) > 1 and fn.args.args[1].arg.endswith("_iterator")}
        elif isinstance(fn, ast.AsyncFunctionDef):
            name = fn.name[len("__rpc_"):]
            recv = send = calls = "?"
            for st in fn.body:
                if isinstance(st, ast.Assign) and dotted(st.targets[0]) == "request":
                    v = st.value
                    if isinstance(v, ast.Await) and isinstance(v.value, ast.Call) and dotted(v.value.func) == "stream.recv_message":
                        recv = "recv_message"
                    elif isinstance(v, ast.Call) and dotted(v.func) == "stream.__aiter__":
                        recv = "aiter"
                elif isinstance(st, ast.Assign) and dotted(st.targets[0]) == "response":
                    v = st.value
                    if (isinstance(v, ast.Await) and isinstance(v.value, ast.Call) and dotted(v.value.func).startswith("self.")
                            and [dotted(a) for a in v.value.args] == ["request"]):
                        calls = dotted(v.value.func)[5:]
                        send = "pending"
                elif isinstance(st, ast.Expr) and isinstance(st.value, ast.Await) and isinstance(st.value.value, ast.Call):
                    c = st.value.value
                    if dotted(c.func) == "stream.send_message" and [dotted(a) for a in c.args] == ["response"] and send == "pending":
                        send = "send_message"
                    elif dotted(c.func) == "self._call_rpc_handler_server_stream" and len(c.args) == 3 \
                            and dotted(c.args[1]) == "stream" and dotted(c.args[2]) == "request" and dotted(c.args[0]).startswith("self."):
                        calls = dotted(c.args[0])[5:]
                        send = "server_stream"
            rpcs[name] = {"recv": recv, "send": send, "calls": calls}
        elif isinstance(fn, ast.FunctionDef) and fn.name == "__mapping__":
            ret = [s for s in fn.body if isinstance(s, ast.Return)][0].value
            for k, v in zip(ret.keys, ret.values):
                a = v.args
                mapping.append({"route": dotted(k), "rpc": dotted(a[0]), "card": dotted(a[1]),
                                "req": dotted(a[2]), "resp": dotted(a[3]), "ctor": dotted(v.func)})
    return stubs, bases, rpcs, mapping


def rows_for(label, opts):
    import pluginrun
    from betterproto.compile.naming import pythonize_class_name, pythonize_method_name
    bad = [dict(opt=label, ok=False, proto=m, clientStreaming=cs, serverStreaming=ss) for m, cs, ss in PROBE_METHODS]
    g = pluginrun.generate({"probe.proto": PROBE}, opts)
    try:
        if not g.ok:
            return bad, "plugin failed: " + g.log[-300:]
        src = g.files().get(os.path.join("probe", "v1", "__init__.py"))
        if src is None:
            return bad, "no output module"
        try:
            tree = ast.parse(src)
        except SyntaxError as e:
            return bad, "generated module does not parse: %s (line %s: %r)" % (e.msg, e.lineno, (e.text or "").strip())
        try:
            stubs, bases, rpcs, mapping = analyse_service(tree, pythonize_class_name(PROBE_SVC))
        except Exception as e:  # noqa
            return bad, "unexpected module shape: %r" % (e,)
        out = []
        for idx, (m, cs, ss) in enumerate(PROBE_METHODS):
            # rows are matched by *position* (declaration order), names are data
            sname = list(stubs)[idx] if idx < len(stubs) else ""
            bname = list(bases)[idx] if idx < len(bases) else ""
            rname = list(rpcs)[idx] if idx < len(rpcs) else ""
            s = stubs.get(sname, {})
            b = bases.get(bname, {})
            r = rpcs.get(rname, {})
            mp = mapping[idx] if idx < len(mapping) else {}
            ok = bool(s) and bool(b) and bool(r) and bool(mp) and s.get("kwok", False) \
                and mp.get("ctor") == "grpclib.const.Handler" and s.get("passes") == s.get("param")
            card = mp.get("card", "")
            card = card[len("grpclib.const.Cardinality."):] if card.startswith("grpclib.const.Cardinality.") else "?" + card
            mrpc = mp.get("rpc", "")
            mrpc = mrpc[len("self.__rpc_"):] if mrpc.startswith("self.__rpc_") else "?" + mrpc
            out.append(dict(
                opt=label, ok=ok, proto=m, clientStreaming=cs, serverStreaming=ss,
                stubName=sname, stubHelper=s.get("helper", ""), stubRoute=s.get("route", ""),
                stubReqType=s.get("req", ""), stubRespType=s.get("resp", ""), stubYields=s.get("yields", False),
                stubIterParam=s.get("iterparam", False),
                baseName=bname, baseUnimplemented=b.get("unimpl", False), baseYields=b.get("yields", False),
                baseIterParam=b.get("iterparam", False),
                rpcName=rname, rpcRecv=r.get("recv", ""), rpcSend=r.get("send", ""), rpcCalls=r.get("calls", ""),
                mapRoute=mp.get("route", ""), mapRpc=mrpc, mapCard=card,
                mapReqType=mp.get("req", ""), mapRespType=mp.get("resp", "")))
        return out, ""
    finally:
        g.cleanup()


def helper_cardinalities():
    """which Cardinality constant each call helper of ServiceStub passes to channel.request, and whether it
    forwards **__resolve_request_kwargs(timeout, deadline, metadata) (read from grpclib_client.py with ast)"""
    import betterproto.grpc.grpclib_client as gc
    with open(gc.__file__) as f:
        tree = ast.parse(f.read())
    out = []
    for node in tree.body:
        if isinstance(node, ast.ClassDef) and node.name == "ServiceStub":
            for fn in node.body:
                if isinstance(fn, ast.AsyncFunctionDef) and fn.name in ("_unary_unary", "_unary_stream", "_stream_unary", "_stream_stream"):
                    card, kw = "?", False
                    for c in calls_in(fn):
                        if dotted(c.func) == "self.channel.request" and len(c.args) >= 2:
                            d = dotted(c.args[1])
                            card = d[len("grpclib.const.Cardinality."):] if d.startswith("grpclib.const.Cardinality.") else "?" + d
                            for k in c.keywords:
                                if k.arg is None and isinstance(k.value, ast.Call) and dotted(k.value.func).endswith("__resolve_request_kwargs") \
                                        and [dotted(a) for a in k.value.args] == ["timeout", "deadline", "metadata"]:
                                    kw = True
                    out.append((fn.name, card, kw))
    return out


def resolve_shape():
    """for each request keyword: is its entry in ServiceStub.__resolve_request_kwargs literally
    `self.<k> if <k> is None else <k>` ?"""
    import betterproto.grpc.grpclib_client as gc
    with open(gc.__file__) as f:
        tree = ast.parse(f.read())
    out = []
    for node in ast.walk(tree):
        if isinstance(node, ast.FunctionDef) and node.name == "__resolve_request_kwargs":
            params = [a.arg for a in node.args.args[1:]]
            ret = [s for s in node.body if isinstance(s, ast.Return)]
            entries = {}
            if ret and isinstance(ret[0].value, ast.Dict):
                for k, v in zip(ret[0].value.keys, ret[0].value.values):
                    key = dotted(k)
                    ok = (isinstance(v, ast.IfExp) and dotted(v.body) == "self." + key and dotted(v.orelse) == key
                          and isinstance(v.test, ast.Compare) and dotted(v.test.left) == key and len(v.test.ops) == 1
                          and isinstance(v.test.ops[0], ast.Is) and isinstance(v.test.comparators[0], ast.Constant)
                          and v.test.comparators[0].value is None)
                    entries[key] = ok
            for k in ("timeout", "deadline", "metadata"):
                out.append((k, bool(entries.get(k)) and k in params and len(entries) == 3))
    return out


def lean_str(s):
    return '"' + s.replace("\\", "\\\\").replace('"', '\\"') + '"'


def tree_hash():
    import betterproto
    root = os.path.dirname(os.path.abspath(betterproto.__file__))
    h = hashlib.sha1()
    for dp, dn, fn in sorted(os.walk(root)):
        dn.sort()
        if "__pycache__" in dp:
            continue
        for f in sorted(fn):
            if f.endswith((".py", ".j2")):
                p = os.path.join(dp, f)
                h.update(os.path.relpath(p, root).encode())
                with open(p, "rb") as fh:
                    h.update(fh.read())
    with open(os.path.abspath(__file__), "rb") as fh:
        h.update(fh.read())
    return h.hexdigest()[:16]


def render(rows, problems, stamp):
    from betterproto.compile.naming import pythonize_method_name
    out = ["/- GENERATED by harness/extract_stub.py from the plugin + template of the working tree -- do not edit",
           "   source-hash: %s -/" % stamp,
           "namespace Bp.Gen", "",
           "structure StubRow where"]
    for f in FIELDS:
        out.append("  %s : %s" % (f, "Bool" if f in BOOLS else "String"))
    out += ["  deriving DecidableEq, Repr", ""]
    out.append("def probePackage : String := %s" % lean_str(PROBE_PKG))
    out.append("def probeService : String := %s" % lean_str(PROBE_SVC))
    out.append("/-- (proto method name, `pythonize_method_name` of it) as computed by the working tree -/")
    out.append("def probePyNames : List (String × String) := ["
               + ", ".join("(%s, %s)" % (lean_str(m), lean_str(pythonize_method_name(m))) for m, _, _ in PROBE_METHODS) + "]")
    out.append("/-- grpclib_client.ServiceStub: (helper, Cardinality it passes to channel.request, forwards the resolved kwargs) -/")
    out.append("def helperCardinality : List (String × String × Bool) := ["
               + ", ".join("(%s, %s, %s)" % (lean_str(h), lean_str(c), "true" if k else "false") for h, c, k in helper_cardinalities()) + "]")
    out.append("/-- ServiceStub.__resolve_request_kwargs: (keyword, its entry is `self.k if k is None else k`) -/")
    out.append("def resolveShape : List (String × Bool) := ["
               + ", ".join("(%s, %s)" % (lean_str(k), "true" if ok else "false") for k, ok in resolve_shape()) + "]")
    out.append("def stubOptionSets : List String := [" + ", ".join(lean_str(l) for l, _ in OPTION_SETS) + "]")
    out.append("")
    for p in problems:
        out.append("-- PROBLEM: " + p.replace("\n", " ")[:300])
    out.append("def stubTable : List StubRow := [")
    items = []
    for r in rows:
        parts = []
        for f in FIELDS:
            v = r.get(f, False if f in BOOLS else "")
            parts.append("%s := %s" % (f, ("true" if v else "false") if f in BOOLS else lean_str(v)))
        items.append("  { " + ", ".join(parts) + " }")
    out.append(",\n".join(items))
    out.append("]")
    out += ["", "end Bp.Gen"]
    return "\n".join(out) + "\n"


def compute():
    with concurrent.futures.ThreadPoolExecutor(max_workers=6) as ex:
        res = list(ex.map(lambda lo: rows_for(*lo), OPTION_SETS))
    rows, problems = [], []
    for (label, _), (rs, prob) in zip(OPTION_SETS, res):
        rows += rs
        if prob:
            problems.append("%s: %s" % (label, prob))
    return rows, problems


def main(write_if_changed, GEN):
    path = os.path.join(GEN, "StubTable.lean")
    stamp = tree_hash()
    if os.path.exists(path):
        with open(path) as f:
            m = re.search(r"source-hash: ([0-9a-f]+)", f.read(400))
        if m and m.group(1) == stamp:
            return []
    rows, problems = compute()
    return ["StubTable.lean"] if write_if_changed(path, render(rows, problems, stamp)) else []


if __name__ == "__main__":
    rows, problems = compute()
    sys.stdout.write(render(rows, problems, tree_hash()))
