"""C14, aliasing half: the SHARING PATTERN of copy / deepcopy / pickle on real betterproto object graphs,
against the heap model (lean/BpModel/Heap.lean, driver command HEAPCOPY), and the English property
"mutating a deep copy or an unpickled copy never affects the original" (and vice versa) directly.

One case (deterministic in its seed):
  1. a message from the value generators; empty repeated-message / map<K, Message> fields get an entry; then ALIASES are introduced (the same sub-message object twice in a
     list, under two map keys, in two fields, in a list and a field) — siblings under one parent, so the graph stays acyclic;
  2. the graph is walked through the PUBLIC API only (getattr, which_one_of, the declared attributes `_serialized_on_wire` / `_unknown_fields`; identity with `is`);
     reads materialise defaults, so the description has a value for every readable field (an unselected oneof
     member is `-`); the walk is depth-bounded: a message below the bound is an object without fields on both sides;
  3. copy.copy / copy.deepcopy / pickle round trip; the copy is walked the same way; sharing classes = for every path
     (to a message, list or dict) from the original and from the copy, the first path that leads to the SAME object;
  4. random mutations through one side (field assignment, oneof switch, list append of a scalar / a NEW message,
     list clear, dict store, merge of an unknown field), applied to the real objects and, as tokens, to the model;
  5. compared: the sharing classes and the abstract values of both objects after the mutations (model vs real);
     oracle: no message / list / dict object is shared by a deep or unpickled copy and its original, and the
     bytes, the value and the presence of the side that was NOT mutated are what they were.
"""
import copy
import pickle
import random

import betterproto
import bpgen

DEPTH = 3
KINDS = ("copy", "deepcopy", "pickle")
COPIERS = {"copy": copy.copy, "deepcopy": copy.deepcopy, "pickle": lambda x: pickle.loads(pickle.dumps(x))}


def hexs(b):
    return bytes(b).hex() if b else "-"


class Tags:
    """scalar payloads abstracted to numbers (equal repr <=> equal tag)"""

    def __init__(self):
        self.t = {}

    def __call__(self, v):
        k = (type(v).__name__, repr(v))
        return self.t.setdefault(k, len(self.t))


def on_wire(m):
    """the stored flag `__copy_state_to` copies (the public serialized_on_wire() also looks at the content)"""
    return int(bool(m._serialized_on_wire))


def is_msg_field(f):
    return f.ty == "message" and not f.wraps and f.kind.startswith("u")


def simple_class(schema, ci):
    """a class whose fresh instance has only scalar (immutable) field values: usable as a NEW-message payload"""
    md = schema[ci]
    if not md.fields:
        return False
    return all(not (f.repeated or f.ty == "map" or is_msg_field(f)) for f in md.fields)


class Graph:
    """walk of one root through the public API"""

    def __init__(self, schema, classes, tags):
        self.schema, self.classes, self.tags = schema, classes, tags
        self.cidx = {c: i for i, c in enumerate(classes)}

    def selected(self, m, md):
        out = []
        for g in range(md.ngroups):
            name = betterproto.which_one_of(m, "g%d" % g)[0]
            out.append(next((i for i, f in enumerate(md.fields) if f.name == name), None) if name else None)
        return out

    def slots(self, m, md):
        """(field, value or MISSING) per slot; MISSING = unselected oneof member"""
        sel = self.selected(m, md)
        res = []
        for i, f in enumerate(md.fields):
            if f.group is not None and sel[f.group] != i:
                res.append((f, Graph.MISSING))
            else:
                res.append((f, getattr(m, f.name)))
        return res

    MISSING = object()

    def paths(self, root, pfx):
        """[(path, obj, depth_left, info)] in the driver's order; info = ('msg', ci) | ('list', f) | ('dict', f)"""
        out = []

        def msg(m, p, d):
            ci = self.cidx[type(m)]
            out.append((p, m, d, ("msg", ci)))
            if d <= 0:
                return
            for i, (f, v) in enumerate(self.slots(m, self.schema[ci])):
                q = "%s/s%d" % (p, i)
                if v is Graph.MISSING:
                    continue
                if isinstance(v, list):
                    out.append((q, v, d, ("list", f)))
                    for k, x in enumerate(v):
                        if isinstance(x, betterproto.Message) and is_msg_field(f):
                            msg(x, "%s/i%d" % (q, k), d - 1)
                elif isinstance(v, dict):
                    out.append((q, v, d, ("dict", f)))
                    for k, x in enumerate(v.values()):
                        if isinstance(x, betterproto.Message) and f.mapV == "message" and f.mapVKind.startswith("u"):
                            msg(x, "%s/k%d" % (q, k), d - 1)
                elif isinstance(v, betterproto.Message) and is_msg_field(f):
                    msg(v, q, d - 1)
        msg(root, pfx, DEPTH)
        return out

    def tree(self, m, d=DEPTH):
        """the abstract value, in the driver's rendering"""
        md = self.schema[self.cidx[type(m)]]
        sel = ".".join("-" if s is None else str(s) for s in self.selected(m, md))
        head = "M(%d,%s,%s;" % (on_wire(m), hexs(getattr(m, "_unknown_fields", b"")), sel)
        if d <= 0:
            return head + ")"
        parts = []
        for f, v in self.slots(m, md):
            if v is Graph.MISSING:
                parts.append("-")
            elif isinstance(v, list):
                parts.append("L(%s)" % ",".join(self.val(x, is_msg_field(f), d - 1) for x in v))
            elif isinstance(v, dict):
                isM = f.mapV == "message" and f.mapVKind.startswith("u")
                parts.append("D(%s)" % ",".join("%d:%s" % (self.tags(k), self.val(x, isM, d - 1)) for k, x in v.items()))
            else:
                parts.append(self.val(v, is_msg_field(f), d - 1))
        return head + ",".join(parts) + ")"

    def val(self, x, is_m, d):
        if is_m and isinstance(x, betterproto.Message):
            return self.tree(x, d)
        return "l%d" % self.tags(x)

    def describe(self, root):
        """heap cells of the model for the graph under `root`: (root id, [cell tokens])"""
        ids, cells = {}, []

        def new(tokens):
            cells.append(tokens)
            return len(cells) - 1

        def hval(x, is_m, d):
            if is_m and isinstance(x, betterproto.Message):
                return "r%d" % msg(x, d)
            return "l%d" % self.tags(x)

        def msg(m, d):
            if id(m) in ids:
                return ids[id(m)]
            md = self.schema[self.cidx[type(m)]]
            u = new(["B", hexs(getattr(m, "_unknown_fields", b""))])
            g = new(["G", str(md.ngroups)] + ["-" if s is None else str(s) for s in self.selected(m, md)])
            me = new(None)
            ids[id(m)] = me
            sl = []
            if d > 0:
                for f, v in self.slots(m, md):
                    if v is Graph.MISSING:
                        sl.append("-")
                    elif isinstance(v, list):
                        if id(v) not in ids:
                            c = new(None)
                            ids[id(v)] = c
                            cells[c] = ["L", str(len(v))] + [hval(x, is_msg_field(f), d - 1) for x in v]
                        sl.append("r%d" % ids[id(v)])
                    elif isinstance(v, dict):
                        if id(v) not in ids:
                            c = new(None)
                            ids[id(v)] = c
                            isM = f.mapV == "message" and f.mapVKind.startswith("u")
                            toks = []
                            for k, x in v.items():
                                toks += [str(self.tags(k)), hval(x, isM, d - 1)]
                            cells[c] = ["D", str(len(v))] + toks
                        sl.append("r%d" % ids[id(v)])
                    else:
                        sl.append(hval(v, is_msg_field(f), d - 1))
            cells[me] = ["M", str(on_wire(m)), str(u), str(g), str(len(sl))] + sl
            return me
        r = msg(root, DEPTH)
        return r, cells


def sharing(paths):
    first, out = {}, []
    for i, (p, obj, _, _) in enumerate(paths):
        out.append("%s=%d" % (p, first.setdefault(id(obj), i)))
    return " ".join(out)


def alias(rng, m, schema, classes, ci, steps, depth=2):
    """introduce shared sub-objects among the children of one message (never an ancestor: stays acyclic)"""
    md = schema[ci]
    cur = {}
    for g in range(md.ngroups):
        cur[g] = betterproto.which_one_of(m, "g%d" % g)[0]
    by_kind = {}
    for f in md.fields:
        if f.group is not None and cur.get(f.group) != f.name:
            continue
        if is_msg_field(f):
            v = getattr(m, f.name)
            if f.repeated:
                if not v and rng.random() < 0.5:
                    v.append(bpgen.to_py(bpgen.gen_msg(rng, schema, int(f.kind[1:]), depth=1), classes))
                    steps.append("add-item:" + f.name)
                if v and rng.random() < 0.8:
                    v.append(v[rng.randrange(len(v))])
                    steps.append("dup-item:" + f.name)
                for x in v:
                    by_kind.setdefault(f.kind, []).append(x)
            elif isinstance(v, betterproto.Message) and betterproto.serialized_on_wire(v):
                by_kind.setdefault(f.kind, []).append(v)
        elif f.ty == "map" and f.mapV == "message" and f.mapVKind.startswith("u"):
            d = getattr(m, f.name)
            if not d and rng.random() < 0.6:
                d[bpgen.to_py(bpgen.gen_scalar(rng, f.mapK), None)] = bpgen.to_py(bpgen.gen_msg(rng, schema, int(f.mapVKind[1:]), depth=1), classes)
                steps.append("add-mapval:" + f.name)
            if d and rng.random() < 0.8:
                k0 = rng.choice(list(d))
                k1 = bpgen.to_py(bpgen.gen_scalar(rng, f.mapK), None)
                if k1 not in d:
                    d[k1] = d[k0]
                    steps.append("dup-mapval:" + f.name)
            for x in d.values():
                by_kind.setdefault(f.mapVKind, []).append(x)
    # the same object in a second place: a plain message field of the same class
    for f in md.fields:
        if is_msg_field(f) and not f.repeated and f.group is None and by_kind.get(f.kind) and rng.random() < 0.7:
            x = rng.choice(by_kind[f.kind])
            if schema[int(f.kind[1:])].fields:     # (__setattr__ marks a field-less message: not modelled)
                setattr(m, f.name, x)
                steps.append("share-field:" + f.name)
    if depth > 0:
        for f in md.fields:
            if f.group is not None and cur.get(f.group) != f.name:
                continue
            if is_msg_field(f) and not f.repeated:
                v = getattr(m, f.name)
                if isinstance(v, betterproto.Message) and betterproto.serialized_on_wire(v):
                    alias(rng, v, schema, classes, int(f.kind[1:]), steps, depth - 1)


def new_message(G, ci):
    """Cls() with every field read once; returns (object, payload token)"""
    x = G.classes[ci]()
    md = G.schema[ci]
    toks = []
    for f, v in G.slots(x, md):
        toks.append("-" if v is Graph.MISSING else "l%d" % G.tags(v))
    return x, "N%d:%s" % (md.ngroups, ",".join(toks))


def unknown_record(schema, ci, rng):
    used = {f.num for f in schema[ci].fields}
    n = next(k for k in (2046, 1000, 999, 19, 18, 17, 6) if k not in used)
    return betterproto.encode_varint(n << 3) + bytes([rng.randrange(1, 100)])


def mutate_once(rng, G, side, root):
    """one random mutation through `root`; returns model tokens or None"""
    table = G.paths(root, side)
    rng.shuffle(table)
    for p, obj, d, info in table:
        rel = p[len(side):].lstrip("/") or "."
        head = [side, rel]
        if info[0] == "msg":
            if d <= 0:
                continue
            ci = info[1]
            md = G.schema[ci]
            choice = rng.random()
            plain = [i for i, f in enumerate(md.fields) if f.group is None and not f.repeated and f.ty not in ("map", "message")]
            members = [i for i, f in enumerate(md.fields) if f.group is not None
                       and (f.ty != "message" or f.wraps or not f.kind.startswith("u")
                            or (simple_class(G.schema, int(f.kind[1:])) and d - 1 > 0))]
            if choice < 0.4 and plain:
                i = rng.choice(plain)
                f = md.fields[i]
                nv = bpgen.to_py(bpgen.gen_scalar(rng, f.ty), G.classes, f.ty)
                setattr(obj, f.name, nv)
                return head + ["set", str(i), "l%d" % G.tags(getattr(obj, f.name))]
            if choice < 0.8 and members:
                i = rng.choice(members)
                f = md.fields[i]
                sibs = [j for j, o in enumerate(md.fields) if o.group == f.group and j != i]
                if is_msg_field(f):
                    x, tok = new_message(G, int(f.kind[1:]))
                    setattr(obj, f.name, x)
                else:
                    one = bpgen.gen_field(rng, G.schema, f, 1)
                    setattr(obj, f.name, bpgen.to_py(one, G.classes, f.ty))
                    tok = "l%d" % G.tags(getattr(obj, f.name))
                return head + ["sel", str(f.group), str(i), ",".join(map(str, sibs)) or "-", tok]
            if rng.random() < 0.6:
                continue
            rec = unknown_record(G.schema, ci, rng)
            obj.parse(rec)
            return head + ["unk", rec.hex()]
        f = info[1]
        if info[0] == "list":
            if rng.random() < 0.15:
                obj.clear()
                return head + ["clr"]
            if is_msg_field(f):
                ci = int(f.kind[1:])
                if not (simple_class(G.schema, ci) and d - 1 > 0):
                    continue
                x, tok = new_message(G, ci)
                obj.append(x)
                return head + ["app", tok]
            if f.ty == "message" and not f.wraps:      # repeated Timestamp / Duration
                one = bpgen.gen_kind(rng, G.schema, f.kind, 1)
            else:
                one = bpgen.gen_scalar(rng, f.wraps or f.ty)
            nv = bpgen.to_py(one, G.classes, f.ty)
            obj.append(nv)
            return head + ["app", "l%d" % G.tags(nv)]
        if info[0] == "dict":
            k = bpgen.to_py(bpgen.gen_scalar(rng, f.mapK), G.classes, f.mapK)
            if list(obj) and rng.random() < 0.4:
                k = rng.choice(list(obj))
            if f.mapV == "message" and f.mapVKind.startswith("u"):
                ci = int(f.mapVKind[1:])
                if not (simple_class(G.schema, ci) and d - 1 > 0):
                    continue
                x, tok = new_message(G, ci)
                obj[k] = x
                return head + ["put", str(G.tags(k)), tok]
            if f.mapV == "message":
                one = bpgen.gen_kind(rng, G.schema, f.mapVKind, 1)
            else:
                one = bpgen.gen_scalar(rng, f.mapV)
            nv = bpgen.to_py(one, G.classes, f.mapV)
            obj[k] = nv
            return head + ["put", str(G.tags(k)), "l%d" % G.tags(nv)]
    return None


def heap_case(chk, drv, schema, classes, v, seed, inp):
    """one case; returns False when the value cannot be used (construction raises)"""
    rng = random.Random(seed)
    ci = v[1]
    try:
        m = bpgen.to_py(v, classes)
        steps = []
        alias(rng, m, schema, classes, ci, steps)
        G = Graph(schema, classes, Tags())
        opaths = G.paths(m, "o")           # materialises
        root, cells = G.describe(m)
        before = {"bytes": bytes(m), "tree": G.tree(m)}
    except Exception as e:
        chk.count("heap_skipped_" + type(e).__name__)
        return False
    kind = rng.choice(KINDS)
    inp = dict(inp, stage="heap", heap_seed=seed, copy=kind, aliases=steps)
    try:
        c = COPIERS[kind](m)
    except RecursionError:
        raise
    except Exception as e:
        chk.fail("copy-raises:" + kind, inp, repr(e))
        return True
    try:
        cpaths = G.paths(c, "c")
        cbefore = {"bytes": bytes(c), "tree": G.tree(c)}
    except Exception as e:
        chk.fail("copy-not-walkable:" + kind, inp, repr(e))
        return True
    sh = sharing(opaths + cpaths)
    chk.count("heap_" + kind)
    if steps:
        chk.count("heap_aliased")
    # ---- the English property, part 1: a deep / unpickled copy shares no mutable object with the original
    if kind != "copy":
        oid = {id(o): p for p, o, _, _ in opaths}
        for p, o, _, _ in cpaths:
            if id(o) in oid:
                chk.fail("copy-shares-object:" + kind, dict(inp, path_in_copy=p, path_in_original=oid[id(o)]),
                         "%s of the copy IS %s of the original (%s)" % (p, oid[id(o)], type(o).__name__))
                break
    # ---- mutations through one side
    side = "c" if (kind == "copy" or rng.random() < 0.75) else "o"
    muts = []
    for _ in range(rng.randint(1, 5)):
        try:
            t = mutate_once(rng, G, side, c if side == "c" else m)
        except Exception as e:
            chk.count("heap_mutation_raises_" + type(e).__name__)
            break
        if t is None:
            break
        muts.append(t)
        chk.count("heap_mut_" + t[2])
    inp["mutations"] = [" ".join(t) for t in muts]
    inp["side"] = side
    try:
        after_o = {"bytes": bytes(m), "tree": G.tree(m)}
        after_c = {"bytes": bytes(c), "tree": G.tree(c)}
    except Exception as e:
        chk.fail("copy-not-independent:" + kind, inp, "no longer encodable / readable after the mutations: %r" % e)
        return True
    # ---- the English property, part 2: the other side is untouched
    if kind != "copy":
        other, was, now = ("original", before, after_o) if side == "c" else ("copy", cbefore, after_c)
        if now["bytes"] != was["bytes"]:
            chk.fail("copy-not-independent:" + kind, inp, "%s bytes %s -> %s" % (other, was["bytes"].hex(), now["bytes"].hex()))
        elif now["tree"] != was["tree"]:
            chk.fail("copy-not-independent:" + kind, inp, "%s value %s -> %s" % (other, was["tree"], now["tree"]))
    # ---- correspondence with the heap model
    if drv:
        line = "HEAPCOPY %s %d %d %s ; %s" % (kind, root, len(cells), " ".join(" ".join(c_) for c_ in cells),
                                              " ".join(" ".join(t) for t in muts))
        r = drv.ask1(line)
        parts = r.split(" | ")
        if len(parts) != 3:
            chk.disagree("heap model rejects the case", {"line": line, **inp}, r[:200], "-")
            return True
        msh, mo, mc = parts
        same_shape = [p.split("=")[0] for p in msh.split()] == [p.split("=")[0] for p in sh.split()]
        if kind == "pickle" and not same_shape:
            chk.count("heap_pickle_shape_differs")      # the wire round trip changed the shape: value half (C01), not aliasing
        elif msh != sh:
            chk.disagree("sharing pattern after " + kind, {"line": line, **inp}, msh, sh)
        if mo != after_o["tree"]:
            chk.disagree("value of the ORIGINAL after mutating %s of a %s" % (side, kind), {"line": line, **inp}, mo, after_o["tree"])
        if kind != "pickle" and mc != after_c["tree"]:
            chk.disagree("value of the COPY after mutating %s of a %s" % (side, kind), {"line": line, **inp}, mc, after_c["tree"])
    return True


def rich_schema(rng):
    """a schema in which every kind of mutable child occurs: nested / repeated / map-valued messages (two plain
    fields of one class, so that one object can sit in both), oneofs with scalar and message members"""
    F, M = bpgen.F, bpgen.M
    sc = lambda: rng.choice(bpgen.SCALAR_T)
    nums = rng.sample([1, 2, 3, 4, 5, 7, 15, 16, 17, 100, 2047, 2048, 19000], 9)
    m0 = [F("f0", nums[0], sc()),
          F("f1", nums[1], sc(), group=0),
          F("f2", nums[2], "message", kind="u2", group=0),
          F("f3", nums[3], "message", kind="u1", repeated=True),
          F("f4", nums[4], "map", mapK=rng.choice(bpgen.MAPKEY_T), mapV="message", mapVKind="u1"),
          F("f5", nums[5], "message", kind="u1"),
          F("f6", nums[6], "message", kind="u1"),
          F("f7", nums[7], sc(), repeated=True),
          F("f8", nums[8], "map", mapK=rng.choice(bpgen.MAPKEY_T), mapV=sc())]
    rng.shuffle(m0)
    m1 = [F("f0", 1, sc()),
          F("f1", 2, sc(), group=0), F("f2", 3, sc(), group=0),
          F("f3", 4, "message", kind="u2"),
          F("f4", 5, "message", kind="u2", repeated=True),
          F("f5", 6, "map", mapK=rng.choice(bpgen.MAPKEY_T), mapV="message", mapVKind="u2"),
          F("f6", 7, sc(), optional=True)]
    rng.shuffle(m1)
    m2 = [F("f0", 1, sc()), F("f1", 2, sc(), group=0), F("f2", 3, sc(), group=0)]
    for fs in (m0, m1, m2):      # slots are in declaration order on both sides; names follow it
        for i, f in enumerate(fs):
            f.name = "f%d" % i
    return [M("M0", m0, 1), M("M1", m1, 1), M("M2", m2, 1)]


def stage_rich(chk, drv, nvals):
    """cases over a rich schema (see rich_schema); HEAPCOPY needs no schema registration"""
    rng = chk.rng
    schema = rich_schema(rng)
    classes = bpgen.build_bp(schema)
    desc = [[f.line() for f in m.fields] for m in schema]
    for _ in range(nvals):
        v = bpgen.gen_msg(rng, schema, rng.choice([0, 0, 0, 1]), depth=3)
        seed = rng.getrandbits(32)
        chk.count("heap_rich")
        try:
            ok = heap_case(chk, drv, schema, classes, v, seed, {"schema": desc, "value": bpgen.term(v)})
        except RecursionError:
            chk.count("heap_recursion")
            continue
        if ok:
            chk.case("heap %s %s %d" % (desc, bpgen.term(v), seed), True, None)


def stage(chk, drv, batch, v, inp):
    seed = chk.rng.getrandbits(32)
    try:
        ok = heap_case(chk, drv, batch.schema, batch.classes, v, seed, inp)
    except RecursionError:
        chk.count("heap_recursion")
        return
    if ok:
        chk.case("heap %s %s %d" % (batch.schema_line(), bpgen.term(v), seed), True, None)
