NOTES = ("All checks share one decision procedure (DESIGN.md §2): regenerate tables from /repo, lake build the "
         "property's theorems, #print axioms audit, differential correspondence model-vs-implementation, direct "
         "oracles on the implementation; a broken proof or correspondence triggers a search for a failing input. "
         "Genuine defects repaired with fix: commits in /repo are listed as 'fixed' in known_findings.json.")

TB = ("Lean kernel; axioms ⊆ {propext, Classical.choice, Quot.sound}; the hand-written model is tied to the code by the "
      "correspondence run (sampled); table extractor; driver parser; statement fidelity. ")

CLAIMED = {
    "C16": {
        "text": "Theorems for all integers (no bound): encode_varint is the canonical minimal base-128 encoding of the 64-bit two's-complement value, "
                "≤ 10 bytes, 10 for negatives; load/decode_varint invert it and report the consumed count whatever follows; size_varint = encoded length for every int; "
                "< -2^63 rejected by both; decoder trichotomy on every byte string (value after 1..10 well-shaped bytes / EOFError / ValueError for > 10); "
                "zig-zag bijection and ranges; int32/int64 sign recovery; fixed-width LE pack/unpack bijection; float/double/bool. "
                "Byte identity with the reference encoder is the differential part.",
        "note": TB + "struct.pack/unpack modelled as LE bit patterns; math.ceil(bit_length/7) modelled as (bit_length+6)/7; reference = google.protobuf 7.36.1.",
        "technique": "Lean 4 proof (induction on byte lists / strong induction on the value) + exhaustive-and-random differential correspondence",
        "design_ref": "DESIGN.md §7 C16",
    },
}

NOT_CLAIMED = {}
