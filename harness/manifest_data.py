NOTES = ("All checks share one decision procedure (DESIGN.md §2): regenerate tables from /repo, lake build the "
         "property's theorems, #print axioms audit, differential correspondence model-vs-implementation, direct "
         "oracles on the implementation; a broken proof or correspondence triggers a search for a failing input. "
         "Genuine defects repaired with fix: commits in /repo are listed as 'fixed' in known_findings.json.")

TB = ("Lean kernel; axioms ⊆ {propext, Classical.choice, Quot.sound}; the hand-written model is tied to the code by the "
      "correspondence run (sampled); table extractor; driver parser; statement fidelity. ")

CLAIMED = {
    "C16": {
        "text": "Theorems for all integers (no bound): encode_varint is the canonical minimal base-128 encoding of the 64-bit two's-complement value, "
                "≤ 10 bytes, 10 for negatives; load/decode_varint invert it and report the consumed count whatever follows; size_varint = encoded length for every int; "
                "< -2^63 rejected by both; decoder trichotomy on every byte string (value after 1..10 well-shaped bytes / EOFError / ValueError for > 10); "
                "zig-zag bijection and ranges; int32/int64 sign recovery; fixed-width LE pack/unpack bijection; float/double/bool. "
                "Byte identity with the reference encoder is the differential part. "
                "TIED TO THE SOURCE BY TRANSLATION (Props/C16Src): dump_varint, encode_varint, size_varint, load_varint (also with a pending first byte), decode_varint and the "
                "zig-zag / sign-recovery / tag arithmetic of _preprocess_single, _len_preprocessed_single, _postprocess_single, _serialize_single, _len_single, load_fields are "
                "re-translated from the Python AST of the working tree on every run (harness/extract_src.py -> BpProofs/Gen/SrcCodec.lean) and proved EQUAL to the model functions "
                "for every argument and every sufficient loop fuel (BpProofs/SrcTie.lean), so src_varint_roundtrip, src_size_eq_encoded_length, src_reject_below are theorems "
                "about the code as written today.",
        "note": TB + "struct.pack/unpack modelled as LE bit patterns; math.ceil(bit_length/7) modelled as (bit_length+6)/7; reference = google.protobuf 7.36.1. "
                "Source translation: trusted are the translator (extract_src.py, a syntax-directed map of a small Python subset) and the meaning of the Python primitives "
                "fixed in BpProofs/PyPrelude.lean (unbounded int operators as Mathlib's Int.land / lor / xor and 2^k multiplication / floor division, bytes as lists, "
                "BytesIO read / write / seek, to_bytes(1) / from_bytes little-endian, bit_length, math.ceil(a / 7)); an unsupported construct makes the translation fail, "
                "which is reported as a broken proof obligation.",
        "technique": "Lean 4 proof (induction on byte lists / strong induction on the value; source-to-Lean translation of the codec primitives with machine-checked equality to the model) + exhaustive-and-random differential correspondence",
        "design_ref": "DESIGN.md §7 C16",
    },
}

CLAIMED.update({
    "C09": {
        "text": "Theorem len_eq: for EVERY schema and EVERY value (no well-typedness hypothesis) the model of __len__ (_len_single, _len_preprocessed_single, "
                "written separately, branch for branch) returns the length of what the model of dump writes, and raises exactly when dump raises; "
                "dump(SIZE_DELIMITED) = canonical varint of that length ++ bytes(m), which the decoder reads back as the body length. Proved by structural "
                "induction over field lists / items / map entries. The model's dump/len are tied to the code by the correspondence run. "
                "TIED TO THE SOURCE BY TRANSLATION (Props/C09Src): size_varint against encode_varint, the key of every wire-type branch of _len_single against the key _serialize_single writes, and the emitting branch of a length-delimited field are re-translated from the Python AST on every run (BpProofs/Gen/SrcCodec.lean) and proved to agree pairwise for every field number and payload. "
                "WHOLE-METHOD TIE (Props/C09SrcMsg): Message.dump, __bytes__, __len__ and dump(SIZE_DELIMITED) AS WRITTEN — loops, unknown fields, prefix, the recursion into sub-messages tied by fuel on nesting depth — equal the model's dumpVal / lenVal / dumpDelimited for every typed value (src_bytes, src_len, src_dump_delimited); src_len_is_len_of_bytes and src_dump_delimited_is_prefixed_bytes state the property of the SOURCE FUNCTIONS ONLY: len(m) as written is the length of bytes(m) as written, and the delimited dump as written is the varint of that length followed by bytes(m).",
        "note": TB + "dump(BytesIO) == bytes(m) and SerializeToString == bytes are one-line delegations in the code: checked by the oracle, not modelled separately.",
        "technique": "Lean 4 proof (structural induction, two independently written walks related lemma by lemma) + differential correspondence",
        "design_ref": "DESIGN.md §7 C09",
    },
    "C08": {
        "text": "Theorems for every byte string the decoder accepts and every receiving schema: raw bytes of the parsed records concatenate to the input (no byte lost or invented); "
                "records the receiver does not know (number absent or wire type unfitting) are appended verbatim, in arrival order, to the unknown fields and nothing else is; "
                "encode = known part ++ unknown bytes; decoding with the unknown records deleted gives the same field values / oneof selection / presence; any sub-sequence of "
                "parsed records re-parses to itself. evolution_roundtrip (Evolution*.lean): END-TO-END schema evolution — for two schemas that agree except on one class, of which the older "
                "keeps ANY sub-list of the fields (oneof members included), and every MsgOk value m of the newer class: the older program parses bytes(m), re-encodes it, and the newer program "
                "parses that back to a value ValEqv-equivalent to m with the same unknown fields and the same oneof selection (a selected member the older class dropped travels through the "
                "unknown bytes and is re-selected); evolution_detail gives the intermediate message and bytes; proved from C01's round trip, C02's permutation / unknown-interleaving theorems and a projection lemma. "
                "TIED TO THE SOURCE BY TRANSLATION (Props/C08Src, through the Message.load record step of Props/C02Src): src_unknown_record_kept, src_unknown_kept — the decoder as written appends an unknown record's raw bytes verbatim and touches nothing else.",
        "note": TB + "the evolving class must not be referred to by a field (its own or another class's: nested payloads would be reordered too) — decidable SchemaFree; schema changes other than dropping fields are not covered.",
        "technique": "Lean 4 proof (induction over the parsed record list; locality of record decoding) + differential correspondence with older-schema readers",
        "design_ref": "DESIGN.md §7 C08",
    },
    "C10": {
        "text": "Theorems: the writer emits canonical-varint(len(bytes(m))) ++ bytes(m) (uses C09 len_eq); a delimited load on any stream starting with a frame parses exactly the body "
                "and leaves exactly what follows (empty bodies included); by induction any list of frames is read back by successive loads as the list of individual decodings with "
                "the rest untouched; every proper prefix of a frame makes the load raise; a stream cut after j whole frames yields exactly the first j loads. "
                "WHOLE-METHOD TIE (Props/C10Src): load(SIZE_DELIMITED) and parse AS WRITTEN equal the model's loadDelimited / loadInto (src_load_delimited, src_load_delimited_short for truncated frames); src_frame_roundtrip: a frame written by dump(SIZE_DELIMITED) as written is read back by load as written, consuming exactly its own bytes.",
        "note": TB + "stream.read(n) on a BytesIO-like stream returns min(n, available) bytes (short reads of sockets are outside the model); reference framing compared with google.protobuf's varint prefix.",
        "technique": "Lean 4 proof (induction over the frame list; varint prefix lemmas from C16) + differential correspondence incl. every cut point",
        "design_ref": "DESIGN.md §7 C10",
    },
    "C17": {
        "text": "Theorems for ALL byte strings: framing never runs out of fuel (termination); whatever is accepted is a sequence of well-formed records covering the input exactly "
                "(positive numbers, wire types 0/1/2/5, payloads of exactly the announced/fixed length); every prefix of an accepted input is either a record boundary (decoding to the "
                "records before it) or rejected with EOFError; field number 0 and wire types 3/4/6/7 are rejected wherever the tag stands; a known number with an unfitting wire type "
                "only appends its raw bytes to the unknown fields (no value, selection or presence changes); wireFits agrees with the regenerated WIRE_TYPE_BY_PROTO_TYPE table for every type; "
                "ok_welltyped: for every well-formed schema (decidable WfSchemaT) and EVERY byte string, whatever parse returns holds in every slot, at every nesting level, a value of the field's declared "
                "Python type (MsgTyped, decidable), and ok_reencodes: it can be encoded again (induction on the decoder's nesting fuel with a typed-state invariant of the fold). "
                "TIED TO THE SOURCE BY TRANSLATION (Props/C17Src): load_fields (the framing generator of every decode path, run to the end) and _read_exact are re-translated from the Python AST on every run and proved EQUAL to the model loadFields on every byte string (same records, whole input consumed, same exception, termination); src_midfield_prefix_rejected, src_invalid_tag_rejected, src_accepted_is_wellformed are theorems about the code as written. "
                "Through the Message.load record step (Props/C02Src): src_mismatch_is_unknown, src_fitting_not_unknown — a known number with an unfitting wire type only appends its raw bytes to the unknown fields, in the decoder as written.",
        "note": TB + "ok_reencodes carries WfBytes (every list element < 256), an artefact of modelling bytes as List Nat (shown necessary by a decided witness); the link between WfSchemaT and what the plugin can emit is argued, not proved.",
        "technique": "Lean 4 proof (induction over the record list, truncation lemmas for varints/payloads) + differential correspondence on mutated encodings",
        "design_ref": "DESIGN.md §7 C17",
    },
})

CLAIMED.update({
    "C07": {
        "text": "Theorem inv_history: for every schema whose group indices are in range, every instance satisfying the oneof invariant (fresh instances and constructor calls naming ≤ 1 member "
                "per group do) and EVERY finite sequence of operations — assignment of any value to any field, attribute reads, decoding of ANY byte string into the instance, instance from_dict, "
                "copy, deepcopy, pickle round trip, observers — the invariant 'every member of a group other than the selected one is unset' holds afterwards (induction over the history, "
                "one preservation lemma per operation). Corollaries: assigning a member (its default included) selects it; reading any other member raises; an unselected member contributes "
                "no bytes to the encoding. JSON half, proved: json_exclusive (for every schema whose oneof members are as protoc admits them, every casing, every instance: a member that is not the selected one has no "
                "entry in to_dict / to_json, the selected member has exactly one — its default value included — unless it holds None in a message / wrapper / 64-bit / enum field, and any member with an entry is "
                "which_one_of's answer), json_exclusive_after_history / _from_fresh (the same after ANY operation history). "
                "TIED TO THE SOURCE BY TRANSLATION (Props/C07Src): __setattr__, __getattribute__, which_one_of and _include_default_value_for_oneof are re-translated from the Python AST on every run and proved EQUAL to the model's setAttr / getAttr / selectedInGroup; src_assign_selects, src_other_member_raises, src_setattr_exclusive (one step of the exclusivity invariant) are theorems about the code as written.",
        "note": TB + "constructor calls naming two members of one group are outside the property's domain (\"the member set last\" is undefined); to_dict is the C04 model (BpModel/Json.lean), tied to the implementation by C04's correspondence.",
        "technique": "Lean 4 proof (state-machine invariant, induction over operation histories) + lock-step differential correspondence of random histories",
        "design_ref": "DESIGN.md §7 C07",
    },
})

CLAIMED.update({
    "C06": {
        "text": "Theorems: a fresh instance reads every non-oneof field as its proto3 default and encodes to zero bytes (dump_fresh, induction over the field list); an implicit-presence field "
                "equal to its default contributes no bytes; a proto3-optional field, a selected oneof member or a wrapper field set to ANY scalar value (default included) is emitted with "
                "its own tag first; a plain sub-message that equals a fresh instance is emitted exactly when serialized_on_wire is set. 'Set after decoding exactly when the reference reports "
                "HasField/WhichOneof' is the differential part (reference on the same bytes, full {never, default, non-default} × {constructor, assignment, parse, from_dict} matrix). "
                "TIED TO THE SOURCE BY TRANSLATION (Props/C06Src): the body of the field loop of Message.dump is re-translated from the Python AST on every run and proved EQUAL to the model's dumpSlot for every field descriptor, flag combination and typed value (guard dynOk, implied by the typing predicates); src_implicit_default_skipped, src_explicit_emitted, src_submsg_emitted_iff_onwire, src_hidden_skipped are the sentences of the property about the code as written.",
        "note": TB + "HasField/WhichOneof agreement is observed against google.protobuf, not proved (the reference cannot be brought into Lean).",
        "technique": "Lean 4 proof (case analysis of the emission decision; induction over the field list) + differential correspondence + reference presence comparison",
        "design_ref": "DESIGN.md §7 C06",
    },
    "C14": {
        "text": "Theorems: for every schema (optional fields singular) and every instance, the attribute reads an observer performs (lazy default materialisation of every readable slot) change "
                "neither bytes(m) nor len(m) (materialize_invisible: induction over the slot list, per-kind lemma that a PLACEHOLDER slot and its materialised default encode alike), nor the oneof "
                "selection, serialized_on_wire, unknown fields or any slot that held a value; copy and deepcopy keep class, serialized_on_wire and unknown fields verbatim and re-derive a selection "
                "satisfying the oneof invariant; a pickle round trip is parse(bytes(m)); for every well-typed value (MsgOk, the decidable domain of C01) copy and deepcopy return a value that is the original "
                "(copy_is_original: same slots at every level, the constructor re-derives exactly the selection the message has), hence encodes to the same bytes (copy_bytes_faithful) and stays well-typed "
                "(copy_stays_welltyped); the one premise used beyond typing, 'a selected oneof member is set', is shown sharp by a decided counterexample. Independence of deep copies (aliasing) is checked on the implementation. "
                "THE ALIASING HALF (Props/C14Heap, BpModel/Heap.lean): over a heap model with object identity (cells msg / list / dict / gcur / bytes; _group_current is its own cell) deepcopy_disjoint, deepcopy_value, deepcopy_independent (every legal mutation sequence through a deep copy leaves the original's abstract value unchanged, and vice versa), pickle_copy_independent, shallow_copy_shares_exactly, with decided witnesses that sharing the gcur cell or mutating _unknown_fields in place breaks independence; tied to the code by a sharing-pattern correspondence (object identity along every path observed with `is`, mutations applied to the real objects and to the model). "
                "TIED TO THE SOURCE BY TRANSLATION (Props/C14Src, C14SrcCopy): __bool__, serialized_on_wire, is_set, __eq__ (= the model's msgEq on raw slots, oracle for Python's !=) and __copy_state_to (= shallowCopy / deepCopy of the model, _group_current copied) are re-translated from the Python AST and proved equal to the model; an observer that writes to the object, or a copy that shares _group_current, does not translate.",
        "note": TB + "PARTIAL: independence of a deep / unpickled copy is aliasing, which a pure functional model cannot exhibit — checked at run time by mutating every mutable path of the copy "
                "(assigning other oneof members, growing containers, merging unknown fields into the copy) and comparing the original's bytes and presence.",
        "technique": "Lean 4 proof (invariance of the encoder under default materialisation) + lock-step differential correspondence + run-time aliasing check",
        "design_ref": "DESIGN.md §7 C14",
    },
})

CLAIMED.update({
    "C15": {
        "text": "Theorems for EVERY integer microsecond count (no range bound): Timestamp nanos in [0, 1e9), (seconds, nanos) denote exactly the instant and are the unique normalised pair (= what the reference "
                "produces), decode gives back the identical value, foreign nanosecond values are truncated to the microsecond below; Duration seconds and nanos never of opposite sign, |nanos| < 1e9, exact, unique, "
                "identical after decode (incl. Python's half-even rounding of a float microseconds argument); JSON fractions have 0/3/6 digits (Timestamp) or 3/6 digits (Duration), are exact, and read back to the "
                "identical value. Aware datetimes enter only through dt - DATETIME_ZERO, which is time-zone independent. "
                "TIED TO THE SOURCE BY TRANSLATION (Props/C15Src): _Duration.from_timedelta / to_timedelta / delta_to_json and _Timestamp.from_datetime / to_datetime / timestamp_to_json (fraction digits) "
                "are re-translated from the Python AST on every run (harness/extract_srctime.py) and proved equal to the model functions for every integer, so the theorems hold of the methods as written.",
        "note": TB + "datetime/timedelta are modelled as integer microseconds; isoformat/isoparse at whole seconds, Decimal parsing and the datetime range checks are exercised by the correspondence and the reference comparison, not proved.",
        "technique": "Lean 4 proof (linear integer arithmetic, omega) + differential correspondence + comparison with google.protobuf FromDatetime/FromTimedelta/JSON",
        "design_ref": "DESIGN.md §7 C15",
    },
})

CLAIMED.update({
    "C01": {
        "text": "Theorems: (record level, all 16 scalar kinds) one record of a scalar field decodes to the value it was made from, consuming exactly its own bytes; a packed payload decodes "
                "to exactly its list; packed chunks concatenate. (message level) roundtrip_nested_partial: for ALL schemas and ALL well-typed values (MsgOk: any number of fields, each flat scalar "
                "— singular, proto3-optional, oneof member, repeated packed or not —, a nested / recursive / repeated sub-message to any depth, a singular or repeated Timestamp / Duration, a singular or repeated wrapper (no None item), or a map with "
                "integer / bool / string keys and scalar, message or Timestamp / Duration values; arbitrary unknown fields at every level) parse(bytes(m)) succeeds, has the same class, oneof selection and unknown fields "
                "at every level, holds in every slot an equivalent value or (where the original emitted no byte) the unset default, and encodes to the same bytes; proved by strong induction on the "
                "decoder's nesting fuel (the payload of a nested record is strictly shorter than the record) over a per-slot decoder-state invariant. MsgOk is decided exactly by the executable msgOkB "
                "(sound and complete), which the driver evaluates on every generated case: the evidence records how many cases lie inside the theorem's hypothesis (all of them at the time of writing). "
                "encodable: every MsgOk value has an encoding (bytes(m) raises nothing on the domain), so roundtrip_total_partial needs no encoding hypothesis beyond the 2^64-byte bound. "
                "roundtrip_equal / roundtrip_equal_total: the decoded message m' satisfies m == m' and m' == m for the model of Message.__eq__ (msgEq, BpModel/Eq.lean: NaN equals NaN, -0.0 equals +0.0, "
                "a PLACEHOLDER slot equals the field's default, presence and unknown fields are not compared) and bytes(m') = bytes(m); msgEq itself is compared with the real == on one-field-apart pairs and on "
                "(m, parse(bytes(m))) in both orders on every run. PARTIAL (names keep the suffix): the 2^64-byte bound. Outside the domain by construction: a None ITEM in the list of a repeated wrapper field "
                "(written like the wrapped default, read back as that default: none_item_not_roundtrip, by decide, replayed on the real code on every run; stage none_items of the correspondence). "
                "WHOLE-METHOD TIE (Props/C01Src): FromString / parse and bytes AS WRITTEN equal the model's parse / dumpVal (src_from_string, src_parse); src_roundtrip states the property of the source functions themselves: FromString(bytes(m)) as written returns m' with m == m', m' == m and bytes(m') as written equal to the same bytes, for every MsgOk value; src_pickle: pickling as written is parse of bytes.",
        "note": TB + "in-range = WellTyped.lean (ints in the declared range, float32 patterns a Python float can hold, valid UTF-8, datetimes / timedeltas in the protobuf range); encodings shorter than 2^64 bytes; oneof members not `optional` (standard dataclasses); dict keys pairwise different.",
        "technique": "Lean 4 proof (strong induction on decoder fuel; per-slot decoder-state invariant; per-kind record inverses; decidable domain predicate) + differential correspondence + round-trip oracle",
        "design_ref": "DESIGN.md §7 C01, §13.4",
    },
})

NOT_CLAIMED = {}
