"""Runs protoc + the betterproto plugin from /repo's working tree on .proto sources and
imports the result.  `ruff` is not installed in this sandbox and the plugin shells out to
it, so a pass-through shim (`exec cat`) is put first on PATH for the plugin subprocess
only (DESIGN.md §4.2): generated modules are unformatted, nothing else changes."""
import importlib
import os
import shutil
import subprocess
import sys
import tempfile

import common as C

_counter = [0]


class Gen:
    """one generation: .root (importable root package name), .dir (sys.path entry), .descriptor (bytes)"""

    def __init__(self, base, root, ok, log, descriptor):
        self.base, self.root, self.ok, self.log, self.descriptor = base, root, ok, log, descriptor

    @property
    def pkgdir(self):
        return os.path.join(self.base, self.root)

    def import_module(self, dotted=""):
        """import <root>[.<dotted>] (dotted = proto package path)"""
        if self.base not in sys.path:
            sys.path.insert(0, self.base)
        importlib.invalidate_caches()
        name = self.root + ("." + dotted if dotted else "")
        return importlib.import_module(name)

    def files(self):
        out = {}
        for dp, dn, fn in os.walk(self.pkgdir):
            for f in fn:
                if f.endswith(".py"):
                    p = os.path.join(dp, f)
                    out[os.path.relpath(p, self.pkgdir)] = open(p).read()
        return out

    def cleanup(self):
        for k in [k for k in sys.modules if k == self.root or k.startswith(self.root + ".")]:
            del sys.modules[k]
        if self.base in sys.path:
            sys.path.remove(self.base)
        shutil.rmtree(self.base, ignore_errors=True)


def _tooldir(base):
    d = os.path.join(base, "_bin")
    os.makedirs(d, exist_ok=True)
    with open(os.path.join(d, "ruff"), "w") as f:
        f.write("#!/bin/sh\nexec cat\n")
    with open(os.path.join(d, "protoc-gen-python_betterproto"), "w") as f:
        f.write("#!/bin/sh\nexec %s -m betterproto.plugin\n" % C.PY)
    for n in ("ruff", "protoc-gen-python_betterproto"):
        os.chmod(os.path.join(d, n), 0o755)
    return d


def generate(protos, opts=(), timeout=300):
    """protos: {relative file name: text}.  Returns a Gen (ok=False if protoc/plugin failed)."""
    _counter[0] += 1
    base = tempfile.mkdtemp(prefix="bpgen_")
    root = "genroot_%d_%d" % (os.getpid(), _counter[0])
    src = os.path.join(base, "_src")
    out = os.path.join(base, root)
    os.makedirs(src)
    os.makedirs(out)
    for name, text in protos.items():
        p = os.path.join(src, name)
        os.makedirs(os.path.dirname(p), exist_ok=True)
        with open(p, "w") as f:
            f.write(text)
    env = dict(os.environ)
    env["PATH"] = _tooldir(base) + os.pathsep + env.get("PATH", "")
    env["PYTHONPATH"] = os.path.join(C.REPO, "src") + os.pathsep + env.get("PYTHONPATH", "")
    desc = os.path.join(base, "_desc.bin")
    cmd = [C.PY, "-m", "grpc_tools.protoc", "-I", src, "--python_betterproto_out=" + out,
           "--descriptor_set_out=" + desc, "--include_imports"]
    for o in opts:
        cmd.append("--python_betterproto_opt=" + o)
    cmd += sorted(protos)
    try:
        p = subprocess.run(cmd, env=env, cwd=src, stdout=subprocess.PIPE, stderr=subprocess.STDOUT, text=True, timeout=timeout)
        ok, log = p.returncode == 0, p.stdout
    except subprocess.TimeoutExpired:
        ok, log = False, "timeout"
    d = b""
    if os.path.exists(desc):
        d = open(desc, "rb").read()
    if ok and not os.path.exists(os.path.join(out, "__init__.py")):
        open(os.path.join(out, "__init__.py"), "w").close()
    return Gen(base, root, ok, log, d)
