"""C01 — binary round trip: parse(bytes(m)) == m with the same oneof selection,
None-ness and nested-message presence, and re-encoding gives the same bytes."""
import betterproto
import bpgen
import wirecases as W
from common import is_err
from props.c09 import schema_from_desc, parse_term


def presence(m, schema, ci, top=True):
    """what the property calls presence, through the public API only"""
    md = schema[ci]
    out = []
    for g in range(md.ngroups):
        out.append(("group", g, betterproto.which_one_of(m, "g%d" % g)[0]))
    for f in md.fields:
        try:
            v = getattr(m, f.name)
        except AttributeError:
            continue
        if f.optional or f.wraps:
            if not f.repeated:
                out.append(("none", f.name, v is None))
        is_user = f.ty == "message" and not f.wraps and f.kind.startswith("u")
        if is_user and v is not None:
            ti = int(f.kind[1:])
            if f.repeated:
                out.append(("items", f.name, [presence(x, schema, ti, False) for x in v]))
            else:
                plain = not f.optional and f.group is None
                if plain:
                    ow = betterproto.serialized_on_wire(v)
                    out.append(("onwire", f.name, ow))
                    if not ow:
                        continue        # an absent sub-message: nothing below it is on the wire
                out.append(("sub", f.name, presence(v, schema, ti, False)))
        if f.ty == "map" and f.mapV == "message" and f.mapVKind.startswith("u"):
            ti = int(f.mapVKind[1:])
            out.append(("mapvals", f.name, [presence(x, schema, ti, False) for x in v.values()]))
    return out


def oracle(chk, inp, m, cls, schema, ci):
    try:
        before = presence(m, schema, ci)
        b = bytes(m)
    except Exception as e:
        chk.fail("encode-raises", inp, repr(e))
        return None, None
    try:
        m2 = cls().parse(b)
    except Exception as e:
        chk.fail("decode-raises", inp, "%s on %s" % (repr(e), b.hex()))
        return b, None
    try:
        eq = (m2 == m)
    except Exception as e:
        eq = repr(e)
    if eq is not True:
        chk.fail("not-equal-after-roundtrip", inp, "bytes=%s decoded=%r" % (b.hex(), m2))
    after = presence(m2, schema, ci)
    if after != before:
        chk.fail("presence-differs", inp, "before=%r after=%r bytes=%s" % (before, after, b.hex()))
    try:
        b2 = bytes(m2)
    except Exception as e:
        b2 = e
    if b2 != b:
        chk.fail("reencode-differs", inp, "%s vs %r" % (b.hex(), b2.hex() if isinstance(b2, bytes) else b2))
    return b, m2


def copied_values(chk, b):
    """a message value is a value however it was obtained: here as the ORIGINAL of a copy whose copy then went its
    own way (other oneof members assigned, fields overwritten). The original must still round-trip to what it was."""
    import copy
    rng = chk.rng
    for v in b.values[:4]:
        ci = v[1]
        md = b.schema[ci]
        try:
            m = bpgen.to_py(v, b.classes)
            want = bytes(m)
        except Exception:
            continue
        how = rng.choice([copy.copy, copy.deepcopy])
        try:
            c = how(m)
        except Exception as e:
            chk.fail("copy-raises", {"schema": b.describe(), "value": bpgen.term(v)}, repr(e))
            continue
        for f in md.fields:
            if f.repeated or f.ty == "map" or (f.group is None and rng.random() < 0.5):
                continue
            try:
                setattr(c, f.name, bpgen.to_py(bpgen.gen_field(rng, b.schema, f, 1), b.classes, f.ty))
            except Exception:
                pass
        inp = {"schema": b.describe(), "value": bpgen.term(v), "history": "original of a %s whose copy was then reassigned" % how.__name__}
        chk.count("original_of_diverged_copy")
        enc, _ = oracle(chk, inp, m, b.classes[ci], b.schema, ci)
        if isinstance(enc, bytes) and enc != want:
            chk.fail("value-changed-by-its-copy", inp, "%s -> %s" % (want.hex(), enc.hex()))


def inplace_values(chk, drv, b):
    """values built by Cls() and filled IN PLACE (m.sub.items.append(x), m.table[k] = v, m.sub.leaf.x = 1): the holders are not
    marked `serialized_on_wire`, but what they hold is part of the value and must survive the round trip"""
    from props.c09 import fill_inplace
    lines, wants = [], []
    for v in b.values[:5]:
        ci = v[1]
        try:
            m = b.classes[ci]()
            t = fill_inplace(m, b, ci, v, chk.rng)
        except Exception as e:
            chk.count("inplace_skipped_" + type(e).__name__)
            continue
        inp = {"schema": b.describe(), "value": bpgen.term(v), "built_in_place": t}
        chk.count("built_in_place")
        enc, _ = oracle(chk, inp, m, b.classes[ci], b.schema, ci)
        if drv and isinstance(enc, bytes):
            lines.append("DUMP %s %s" % (b.sid, t))
            wants.append(W.hexs(enc))
    if drv and lines:
        for ln, r, w in zip(lines, drv.ask(lines), wants):
            if r != w:
                chk.disagree("bytes-inplace", {"schema": b.schema_line(), "line": ln}, r, w)


def mutate_value(rng, b, v):
    """a near copy of v: one field dropped, set to its default, replaced by a fresh value, or (floats) its zero / NaN twin"""
    ci = v[1]
    md = b.schema[ci]
    kw = dict(v[2])
    if not md.fields:
        return v
    i = rng.randrange(len(md.fields))
    f = md.fields[i]
    r = rng.random()
    if r < 0.3 and i in kw:
        del kw[i]
    elif r < 0.7:
        kw[i] = bpgen.gen_field(rng, b.schema, f, 1)
    elif i in kw and kw[i][0] in ("f32", "f64"):
        k = kw[i][0]
        kw[i] = (k, rng.choice([0, 0x80000000 if k == "f32" else 1 << 63, 0x7fc00000 if k == "f32" else 0x7ff8000000000000, kw[i][1]]))
    return ("c", ci, kw)


def equality_stage(chk, drv, b):
    """the model of Message.__eq__ (msgEq, BpModel/Eq.lean — what theorem roundtrip_equal speaks about) against the real `==`:
    on value pairs that differ in one field (about half of them still equal) and on (m, parse(bytes(m))) in both orders"""
    if not drv:
        return
    lines, wants = [], []
    for v in b.values:
        try:
            m = bpgen.to_py(v, b.classes)
            m2 = b.classes[v[1]]().parse(bytes(bpgen.to_py(v, b.classes)))
            lines.append("EQRT %s %s" % (b.sid, bpgen.term(v)))
            wants.append("%d %d" % (int(m == m2), int(m2 == m)))
        except Exception:
            pass
        w = mutate_value(chk.rng, b, v)
        try:
            a, c = bpgen.to_py(v, b.classes), bpgen.to_py(w, b.classes)
            lines.append("EQ %s %s ;; %s" % (b.sid, bpgen.term(v), bpgen.term(w)))
            wants.append(str(int(a == c)))
        except Exception:
            pass
    for ln, r, w in zip(lines, drv.ask(lines), wants):
        chk.count("eq_model_" + ("equal" if w in ("1", "1 1") else "unequal"))
        if r != w:
            chk.disagree("__eq__", {"schema": b.schema_line(), "line": ln}, r, w)


def regrown_values(chk, b):
    """the round trip of an object that was ALREADY encoded (and measured) once and then changed in place — lists appended
    to, nested messages grown, no attribute assignment on the object itself: `parse(bytes(m))` must give the value it has
    NOW.  (An encoder that remembers what it produced for this object returns the old bytes.)"""
    from props.c09 import grow_in_place
    for v in b.values[:6]:
        ci = v[1]
        try:
            m = bpgen.to_py(v, b.classes)
            first = bytes(m)
            len(m)
            if not grow_in_place(m):
                continue
        except Exception as e:
            chk.count("regrown_skipped_" + type(e).__name__)
            continue
        chk.count("regrown_values")
        inp = {"schema": b.describe(), "value": bpgen.term(v), "history": "regrown",
               "steps": "bytes(m); len(m); containers grown in place (every non-empty list gets its first element appended, recursively); round trip"}
        enc, m2 = oracle(chk, inp, m, b.classes[ci], b.schema, ci)
        if isinstance(enc, bytes) and len(enc) <= len(first):
            chk.fail("bytes-did-not-grow-after-in-place-growth", inp, "before %s, after %s" % (first.hex(), enc.hex()))
def none_items_stage(chk, drv, b):
    """OUTSIDE the domain of the theorem (Props/C01.lean `none_item_not_roundtrip`): a `None` ITEM in a repeated wrapper field
    (`List[Optional[int]]` admits it). The model says: written like the wrapped default (`tag 00`), read back as that default, so
    the decoded message differs under `==`; `msgOkB` rejects the value. Correspondence only (bytes, decoded observation, `==`
    both ways, domain verdict) — no oracle: the property does not speak about these values."""
    if not drv:
        return
    rng = chk.rng
    lines, wants = [], []
    for v in b.values:
        ci = v[1]
        reps = [i for i, f in enumerate(b.schema[ci].fields) if f.wraps and f.repeated]
        if not reps:
            continue
        i = rng.choice(reps)
        f = b.schema[ci].fields[i]
        items = [("N",) if rng.random() < 0.5 else bpgen.gen_scalar(rng, f.wraps) for _ in range(rng.choice([1, 2, 3]))]
        items[rng.randrange(len(items))] = ("N",)
        kw = dict(v[2])
        kw[i] = ("l", items)
        w = ("c", ci, kw)
        try:
            m = bpgen.to_py(w, b.classes)
            enc = bytes(m)
            m2 = b.classes[ci]().parse(enc)
            eq = "%d %d" % (int(m == m2), int(m2 == m))
            m3 = b.classes[ci]().parse(enc)
            obs = bpgen.obs_msg(m3, b.schema, ci) + " | " + W.hexs(bytes(m3))
        except Exception as e:
            chk.count("none_item_skipped_" + type(e).__name__)
            continue
        t = bpgen.term(w)
        chk.count("none_item_values")
        chk.count("none_item_" + ("equal_after_roundtrip" if eq == "1 1" else "unequal_after_roundtrip"))
        lines += ["DUMP %s %s" % (b.sid, t), "PARSE %s %d %s" % (b.sid, ci, W.hexs(enc)), "EQRT %s %s" % (b.sid, t),
                  "MSGOK %s %s" % (b.sid, t)]
        wants += [W.hexs(enc), obs, eq, "0"]
    for ln, r, w in zip(lines, drv.ask(lines) if lines else [], wants):
        if r != w:
            chk.disagree("none-item", {"schema": b.schema_line(), "line": ln}, r, w)


def none_item_witness(chk, drv):
    """the witness of theorem `none_item_not_roundtrip`, on the real code: M(a=[None, 3]) -> 0a 00 0a 02 08 03 -> M(a=[0, 3])"""
    schema = [bpgen.M("M0", [bpgen.F("a", 1, "message", wraps="int32", repeated=True),
                             bpgen.F("s", 2, "message", wraps="string", repeated=True),
                             bpgen.F("f", 3, "message", wraps="float", repeated=True)])]
    cls = bpgen.build_bp(schema)[0]
    m = cls(a=[None, 3])
    enc = bytes(m)
    m2 = cls().parse(enc)
    got = (enc.hex(), list(m2.a), m == m2, m2 == m, bytes(m2).hex())
    want = ("0a000a020803", [0, 3], False, False, "0a000a020803")
    chk.count("none_item_witness_replayed")
    if got != want:
        chk.disagree("none-item-witness", {"value": "M(a=[None, 3])"}, repr(want), repr(got))
    # … and the in-domain example of the same file: M(a=[5, 0, -1], s=["", "x"], f=[-0.0, 1.5])
    m = cls(a=[5, 0, -1], s=["", "x"], f=[-0.0, 1.5])
    enc = bytes(m)
    m2 = cls().parse(enc)
    got = (enc.hex(), m == m2, m2 == m, bytes(m2) == enc, str(m2.f[0]))
    want = ("0a0208050a000a0b08ffffffffffffffffff01120012030a01781a001a050d0000c03f", True, True, True, "0.0")
    if got != want:
        chk.disagree("repeated-wrapper-example", {"value": "M(a=[5, 0, -1], s=['', 'x'], f=[-0.0, 1.5])"}, repr(want), repr(got))


def one_batch(chk, drv, b):
    if drv:
        assert drv.ask1(b.schema_line()) == "ok"
    staged = []
    for v in b.values:
        ci = v[1]
        m = bpgen.to_py(v, b.classes)
        inp = {"schema": b.describe(), "value": bpgen.term(v)}
        enc, m2 = oracle(chk, inp, m, b.classes[ci], b.schema, ci)
        chk.case(b.schema_line() + "|" + bpgen.term(v), not W.is_trivial(v),
                 {"value": bpgen.term(v), "bytes": enc.hex() if isinstance(enc, bytes) else None})
        if enc is not None and m2 is not None:
            staged.append((v, ci, enc, m2))
    copied_values(chk, b)
    regrown_values(chk, b)
    inplace_values(chk, drv, b)
    equality_stage(chk, drv, b)
    none_items_stage(chk, drv, b)
    if drv and staged:
        lines = []
        for v, ci, enc, m2 in staged:
            lines.append("DUMP %s %s" % (b.sid, bpgen.term(v)))
            lines.append("PARSE %s %d %s" % (b.sid, ci, W.hexs(enc)))
            lines.append("MSGOK %s %s" % (b.sid, bpgen.term(v)))
        replies = drv.ask(lines)
        for i, (v, ci, enc, m2) in enumerate(staged):
            rd, rp = replies[3 * i], replies[3 * i + 1]
            # is this generated value inside the domain of the theorem (MsgOk, decided exactly by msgOkB)?
            chk.count("theorem_domain_inside" if replies[3 * i + 2] == "1" else "theorem_domain_outside")
            if rd != W.hexs(enc):
                chk.disagree("bytes", {"schema": b.schema_line(), "value": bpgen.term(v)}, rd, enc.hex())
            # observation of a fresh decode (obs reads attributes, so decode again)
            m3 = b.classes[ci]().parse(enc)
            want = bpgen.obs_msg(m3, b.schema, ci) + " | " + W.hexs(bytes(m3))
            if rp != want:
                chk.disagree("parse", {"schema": b.schema_line(), "bytes": enc.hex(), "cls": ci}, rp, want)


def run(chk, drv):
    quick = chk.tier == "quick"
    chk.extra["rule"] = ("random well-formed schemas over all field kinds × cardinalities (oneof groups, proto3 optional, wrappers singular and repeated, Timestamp/Duration, "
                         "maps over every key/value kind, recursive messages); values built through the constructor, biased to boundaries (0, ±1, int32/int64 "
                         "limits, ±0.0, inf, NaN, empty and non-BMP strings, empty containers, default-valued oneof/optional members, extreme datetimes/timedeltas). "
                         "non-trivial = at least one constructor argument; distinct by (schema, value) line. "
                         "Every case is also classified by the driver as inside / outside the hypothesis `MsgOk` of theorem roundtrip_nested_partial "
                         "(counts theorem_domain_inside / theorem_domain_outside): outside = a field kind the theorem names as missing (none since repeated wrapper "
                         "fields joined the domain). Separate stage none_items: values with a None ITEM in a repeated wrapper field, which the theorem excludes "
                         "(witness none_item_not_roundtrip, replayed on the real code on every run): correspondence only, no oracle")
    nb = 80 if quick else 1200
    none_item_witness(chk, drv)
    for bi in range(nb):
        b = W.Batch(chk.rng, "r%d" % bi, 12)
        W.count_features(chk, b)
        one_batch(chk, drv, b)


# ---- known / fixed findings replayed on every run
def _enum_witness():
    schema = [bpgen.M("M0", [bpgen.F("e", 4, "enum")])]
    cls = bpgen.build_bp(schema)[0]
    m = cls(e=bpgen.GenEnum.NEG)
    return cls().parse(bytes(m)).e != -5


def _dur_witness(us):
    from datetime import timedelta
    schema = [bpgen.M("M0", [bpgen.F("d", 1, "message", kind="dur")])]
    cls = bpgen.build_bp(schema)[0]
    m = cls(d=timedelta(microseconds=us))
    return cls().parse(bytes(m)).d != timedelta(microseconds=us)


def _nan_list():
    schema = [bpgen.M("M0", [bpgen.F("r", 1, "double", repeated=True)])]
    cls = bpgen.build_bp(schema)[0]
    m = cls(r=[float("nan"), 1.0])
    return not (cls().parse(bytes(m)) == m)


def _empty_entry():
    schema = [bpgen.M("M0", [bpgen.F("m", 1, "map", mapK="string", mapV="bytes")])]
    cls = bpgen.build_bp(schema)[0]
    m = cls(m={"": b""})
    return not (cls().parse(bytes(m)) == m)


def replay_known(chk, entry):
    w = entry["witness"]
    if w.get("kind") == "empty-map-entry":
        return _empty_entry()
    if w.get("kind") == "nan-list":
        return _nan_list()
    if w.get("kind") == "negative-enum":
        return _enum_witness()
    if w.get("kind") == "duration-us":
        return _dur_witness(w["us"])
    return False


def classify(failure, known):
    return None


def search(chk):
    for bi in range(2000):
        b = W.Batch(chk.rng, "x%d" % bi, 12)
        for v in b.values:
            ci = v[1]
            oracle(chk, {"schema": b.describe(), "value": bpgen.term(v)}, bpgen.to_py(v, b.classes), b.classes[ci], b.schema, ci)
        if chk.oracle_failures:
            return


def replay(chk, rp):
    inp = (rp.get("failure") or {}).get("input") or {}
    if "value" in inp and "schema" in inp:
        schema = schema_from_desc(inp["schema"])
        classes = bpgen.build_bp(schema)
        v = parse_term(inp["value"].split())[0]
        c = type(chk)(chk.pid, "quick", 0)
        if inp.get("history") == "regrown":
            class B:
                pass
            b = B()
            b.schema, b.classes, b.values = schema, classes, [v]
            b.describe = lambda: inp["schema"]
            regrown_values(c, b)
            return bool(c.oracle_failures)
        if "history" in inp:
            class B:
                pass
            b = B()
            b.schema, b.classes, b.values = schema, classes, [v]
            b.describe = lambda: inp["schema"]
            for _ in range(20):      # the reassignment of the copy is random: a few draws
                copied_values(c, b)
                if c.oracle_failures:
                    break
            return bool(c.oracle_failures)
        oracle(c, inp, bpgen.to_py(v, classes), classes[v[1]], schema, v[1])
        return bool(c.oracle_failures)
    return True
