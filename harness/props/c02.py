"""C02 — wire interoperability with the reference protobuf implementation.

Oracle = google.protobuf (dynamic classes for the same abstract schema).  For random schemas
and values: (a) bytes(betterproto m) parsed by the reference, (b) reference bytes parsed by
betterproto, (c) every alternative legal encoding of the reference bytes produced by the
independent re-encoder (harness/reencode.py) decoded by both, (d) the Lean model's `PARSE`
on every alternative encoding, (e) the Lean spec decoder `Spec.decode` against the reference."""
import os
import subprocess

import betterproto
import bpgen
import reencode as RE
import wirecases as W
import wiresplit as WS
import common as C
from props.c09 import schema_from_desc, parse_term

ABSENT = "ABSENT"
NEG0_32, NEG0_64 = 0x80000000, 0x8000000000000000


# ---------------------------------------------------------------- abstract value -> reference message

def ref_scalar(ty, v):
    k, x = v
    if k == "f32":
        return bpgen.f32_from_bits(x)
    if k == "f64":
        return bpgen.f64_from_bits(x)
    if k == "s":
        return x.decode("utf-8")
    return x


def set_secnanos(msg, kind, us):
    if kind == "ts":
        msg.seconds, msg.nanos = us // 10**6, (us % 10**6) * 1000
    else:
        a = abs(us)
        s, n = a // 10**6, (a % 10**6) * 1000
        msg.seconds, msg.nanos = (-s, -n) if us < 0 else (s, n)
    msg.SetInParent()


def fill_kind(target, kind, x, refs, schema):
    """target: a reference sub-message object to be filled from abstract value x"""
    if kind in ("ts", "dur"):
        set_secnanos(target, kind, x[1])
    else:
        target.CopyFrom(to_ref(x, refs, schema))
        target.SetInParent()


def plain_present(f, x, schema=None):
    """does a plain (no optional, no oneof) message-typed field given this value count as
    present?  betterproto cannot express 'present but default' there: Sub() / epoch / zero
    timedelta in a plain field MEAN 'not set' (they are not serialised), in both worlds —
    except for a message type WITHOUT fields, whose only content is its presence: assigning
    an instance of it marks it present (`Message.__setattr__`)"""
    if x[0] in ("t", "d"):
        return x[1] != 0
    if schema is not None and x[0] == "c" and not schema[x[1]].fields:
        return True
    return bool(x[2])


def to_ref(v, refs, schema):
    """the reference message for an abstract constructor call ('c', cls, {idx: value})"""
    ci = v[1]
    r = refs[ci]()
    md = schema[ci]
    for i, x in sorted(v[2].items()):
        f = md.fields[i]
        if f.ty == "map":
            mp = getattr(r, f.name)
            for k, val in x[1]:
                key = ref_scalar(f.mapK, k)
                if f.mapV == "message":
                    fill_kind(mp[key], f.mapVKind, val, refs, schema)
                else:
                    mp[key] = ref_scalar(f.mapV, val)
        elif f.repeated:
            lst = getattr(r, f.name)
            for e in x[1]:
                if f.ty == "message":
                    fill_kind(lst.add(), f.kind, e, refs, schema)
                else:
                    lst.append(ref_scalar(f.ty, e))
        elif f.ty == "message":
            if f.wraps:
                if x[0] == "N":
                    continue
                w = getattr(r, f.name)
                w.value = ref_scalar(f.wraps, x)
                w.SetInParent()
            elif x[0] == "N":
                continue
            elif f.optional or f.group is not None or plain_present(f, x, schema):
                fill_kind(getattr(r, f.name), f.kind, x, refs, schema)
        else:
            if x[0] == "N":
                continue
            setattr(r, f.name, ref_scalar(f.ty, x))
    return r


# ---------------------------------------------------------------- canonical observations

def round_half_even(n, d):
    q, r = divmod(n, d)
    if 2 * r > d or (2 * r == d and q % 2):
        q += 1
    return q


def c_scalar(ty, x, implicit=False, notes=None):
    if ty == "bool":
        return bool(x)
    if ty in ("float", "double"):
        bits = bpgen.f32_bits(x) if ty == "float" else bpgen.f64_bits(x)
        if x != x:
            return "nan"
        if implicit and bits in (NEG0_32, NEG0_64):
            if notes is not None:
                notes["negzero"] = notes.get("negzero", 0) + 1
            return 0        # D25: -0.0 in an implicit-presence position compares equal to the default
        return bits
    if ty == "string":
        return x.encode("utf-8") if isinstance(x, str) else bytes(x)
    if ty == "bytes":
        return bytes(x)
    return int(x)


def c_ref_kind(kind, m, schema, notes):
    if kind == "ts":
        return ("us", m.seconds * 10**6 + m.nanos // 1000)
    if kind == "dur":
        return ("us", m.seconds * 10**6 + round_half_even(m.nanos, 1000))
    return canon_ref(m, schema, int(kind[1:]), notes)


def canon_ref(r, schema, ci, notes=None):
    md = schema[ci]
    out = []
    for f in md.fields:
        v = getattr(r, f.name)
        if f.ty == "map":
            d = {}
            for k in v:
                ck = c_scalar(f.mapK, k)
                d[repr(ck)] = c_ref_kind(f.mapVKind, v[k], schema, notes) if f.mapV == "message" else c_scalar(f.mapV, v[k])
            out.append(sorted(d.items()))
        elif f.repeated:
            out.append([c_ref_kind(f.kind, e, schema, notes) if f.ty == "message" else c_scalar(f.ty, e) for e in v])
        else:
            if f.group is not None:
                present = r.WhichOneof("g%d" % f.group) == f.name
            elif f.optional or f.ty == "message":
                present = r.HasField(f.name)
            else:
                present = None          # implicit presence
            if present is False:
                out.append(ABSENT)
            elif f.ty == "message":
                if f.wraps:
                    out.append(c_scalar(f.wraps, v.value, True, notes))
                else:
                    out.append(c_ref_kind(f.kind, v, schema, notes))
            else:
                out.append(c_scalar(f.ty, v, present is None, notes))
    return out


def c_bp_kind(kind, x, schema, notes):
    if kind == "ts":
        return ("us", (x - bpgen.EPOCH) // bpgen.US)
    if kind == "dur":
        return ("us", x // bpgen.US)
    return canon_bp(x, schema, int(kind[1:]), notes)


def canon_bp(m, schema, ci, notes=None):
    md = schema[ci]
    out = []
    was_set = {f.name: m.is_set(f.name) for f in md.fields}     # before any attribute read (reads materialise defaults)
    for f in md.fields:
        if f.group is not None and betterproto.which_one_of(m, "g%d" % f.group)[0] != f.name:
            out.append(ABSENT)
            continue
        v = getattr(m, f.name)
        if f.ty == "map":
            d = {}
            for k, x in v.items():
                ck = c_scalar(f.mapK, k)
                d[repr(ck)] = c_bp_kind(f.mapVKind, x, schema, notes) if f.mapV == "message" else c_scalar(f.mapV, x)
            out.append(sorted(d.items()))
        elif f.repeated:
            out.append([c_bp_kind(f.kind, e, schema, notes) if f.ty == "message" else c_scalar(f.ty, e) for e in v])
        elif f.ty == "message":
            if f.wraps:
                out.append(ABSENT if v is None else c_scalar(f.wraps, v, True, notes))
            elif v is None:
                out.append(ABSENT)
            elif f.group is None and not f.optional:
                if f.kind.startswith("u"):
                    present = was_set[f.name] and betterproto.serialized_on_wire(v)
                else:
                    present = was_set[f.name]
                out.append(c_bp_kind(f.kind, v, schema, notes) if present else ABSENT)
            else:
                out.append(c_bp_kind(f.kind, v, schema, notes))
        else:
            if v is None:
                out.append(ABSENT)
            else:
                out.append(c_scalar(f.ty, v, f.group is None and not f.optional, notes))
    return out


# ---- canonical form of the Lean spec decoder's answer (`SPECDEC`, shown with showVal)

def parse_shown(t):
    """parse the driver's showVal syntax (incl. raw `m` instances) -> (tree, rest)"""
    k = t[0]
    if k == "m":
        ncur = int(t[4])
        cur = t[5:5 + ncur]
        ns = int(t[5 + ncur])
        rest, slots = t[6 + ncur:], []
        for _ in range(ns):
            x, rest = parse_shown(rest)
            slots.append(x)
        return ("m", int(t[1]), [None if c == "-" else int(c) for c in cur], slots), rest
    if k == "l":
        n, rest, xs = int(t[1]), t[2:], []
        for _ in range(n):
            x, rest = parse_shown(rest)
            xs.append(x)
        return ("l", xs), rest
    if k == "D":
        n, rest, xs = int(t[1]), t[2:], []
        for _ in range(n):
            a, rest = parse_shown(rest)
            b, rest = parse_shown(rest)
            xs.append((a, b))
        return ("D", xs), rest
    return parse_term(t)


def c_spec_scalar(ty, x, implicit):
    k = x[0]
    if k == "b":
        return bool(x[1])
    if k in ("f32", "f64"):
        b = x[1]
        nan = ((b >> 23) & 0xff == 0xff and b & 0x7fffff) if k == "f32" else ((b >> 52) & 0x7ff == 0x7ff and b & ((1 << 52) - 1))
        if nan:
            return "nan"
        if implicit and b in (NEG0_32, NEG0_64):
            return 0
        return b
    if k in ("s", "y"):
        return x[1]
    return x[1]


def c_spec_kind(kind, x, schema):
    if kind in ("ts", "dur"):
        return ("us", x[1])
    return canon_spec(x, schema, int(kind[1:]))


def c_spec_default(ty):
    return {"bool": False, "string": b"", "bytes": b""}.get(ty, 0)


def canon_spec(tree, schema, ci):
    _, _, cur, slots = tree
    md = schema[ci]
    out = []
    for i, f in enumerate(md.fields):
        x = slots[i]
        if f.ty == "map":
            d = {}
            if x[0] == "D":
                for k, v in x[1]:
                    d[repr(c_spec_scalar(f.mapK, k, False))] = c_spec_kind(f.mapVKind, v, schema) if f.mapV == "message" else c_spec_scalar(f.mapV, v, False)
            out.append(sorted(d.items()))
        elif f.repeated:
            xs = x[1] if x[0] == "l" else []
            out.append([c_spec_kind(f.kind, e, schema) if f.ty == "message" else c_spec_scalar(f.ty, e, False) for e in xs])
        elif x[0] == "P":
            explicit = f.group is not None or f.optional or f.ty == "message"
            out.append(ABSENT if explicit else c_spec_default(f.ty))
        elif f.ty == "message":
            out.append(c_spec_scalar(f.wraps, x, True) if f.wraps else c_spec_kind(f.kind, x, schema))
        else:
            out.append(c_spec_scalar(f.ty, x, f.group is None and not f.optional))
    return out


# ---------------------------------------------------------------- the oracle

def decode_both(chk, inp, what, data, bp_cls, ref_cls, schema, ci, notes):
    """decode `data` with the reference and with betterproto; report differences.
    -> (canon_ref | None, betterproto message | None)"""
    try:
        r = ref_cls.FromString(data)
        cr = canon_ref(r, schema, ci, notes)
    except Exception as e:
        # the reference rejects the bytes: not an encoding the oracle can judge
        chk.count("reference_rejects_" + what)
        notes.setdefault("ref_rejects", []).append((what, data.hex(), repr(e)))
        return None, None
    try:
        m = bp_cls().parse(data)
    except Exception as e:
        chk.fail("betterproto-rejects:" + what, dict(inp, data=data.hex(), what=what), repr(e))
        return cr, None
    try:
        cb = canon_bp(m, schema, ci, notes)
    except Exception as e:
        chk.fail("betterproto-decoded-unreadable:" + what, dict(inp, data=data.hex(), what=what), repr(e))
        return cr, None
    if cb != cr:
        chk.fail("decodes-differ:" + what, dict(inp, data=data.hex(), what=what),
                 "reference=%r betterproto=%r" % (cr, cb))
    return cr, m


def rezone(x, rng):
    """the same message with every datetime moved to another UTC offset (the same instant); returns how many were moved"""
    import dataclasses
    from datetime import datetime, timedelta, timezone
    n = 0

    def move(d):
        nonlocal n
        tz = timezone(timedelta(minutes=rng.choice([-720, -300, -1, 1, 60, 120, 330, 345, 840])))
        try:
            r = d.astimezone(tz)
        except (OverflowError, ValueError):
            return d
        n += 1
        return r
    for f in dataclasses.fields(x):
        if f.name.startswith("_"):
            continue
        try:
            val = object.__getattribute__(x, f.name)
        except AttributeError:
            continue
        if isinstance(val, datetime):
            setattr(x, f.name, move(val))
        elif isinstance(val, list):
            for i, e in enumerate(val):
                if isinstance(e, datetime):
                    val[i] = move(e)
                elif dataclasses.is_dataclass(e):
                    n += rezone(e, rng)
        elif isinstance(val, dict):
            for k, e in list(val.items()):
                if isinstance(e, datetime):
                    val[k] = move(e)
                elif dataclasses.is_dataclass(e):
                    n += rezone(e, rng)
        elif dataclasses.is_dataclass(val):
            n += rezone(val, rng)
    return n


def oracle(chk, inp, v, b_classes, refs, schema, rng, kinds=RE.KINDS, collect=None):
    """all four directions for one abstract value; `collect` receives (what, bytes, ci) of
    every byte string decoded, for the model / spec correspondence"""
    ci = v[1]
    notes = {}
    bp_cls, ref_cls = b_classes[ci], refs[ci]
    try:
        want_ref = to_ref(v, refs, schema)
        want = canon_ref(want_ref, schema, ci, notes)
        ref_bytes = want_ref.SerializeToString(deterministic=True)
    except Exception as e:
        chk.count("to_ref_failed_" + type(e).__name__)
        return
    # (a) betterproto bytes -> reference
    try:
        m = bpgen.to_py(v, b_classes)
        bp_bytes = bytes(m)
    except Exception as e:
        chk.fail("betterproto-encode-raises", inp, repr(e))
        bp_bytes = None
    if bp_bytes is not None:
        try:
            got = canon_ref(ref_cls.FromString(bp_bytes), schema, ci, notes)
            if got != want:
                chk.fail("reference-reads-betterproto-bytes-differently", dict(inp, data=bp_bytes.hex()),
                         "meant=%r reference_decoded=%r reference_bytes=%s" % (want, got, ref_bytes.hex()))
        except Exception as e:
            chk.fail("reference-rejects-betterproto-bytes", dict(inp, data=bp_bytes.hex()), repr(e))
        chk.count("dir_a_bp_to_ref")
        if collect is not None:
            collect.append(("bp_bytes", bp_bytes, ci, want))
        # the same instants written in other time zones are the same Timestamps
        try:
            m2 = bpgen.to_py(v, b_classes)
            if rezone(m2, rng):
                chk.count("dir_a_rezoned_datetimes")
                z = bytes(m2)
                got = canon_ref(ref_cls.FromString(z), schema, ci, notes)
                if got != want:
                    chk.fail("reference-reads-betterproto-bytes-differently", dict(inp, data=z.hex(), rezoned=True),
                             "datetimes given with a non-zero UTC offset: meant=%r reference_decoded=%r" % (want, got))
        except Exception as e:
            chk.fail("betterproto-encode-raises", dict(inp, rezoned=True), repr(e))
    # (b) reference bytes -> betterproto
    cr, _ = decode_both(chk, inp, "reference-bytes", ref_bytes, bp_cls, ref_cls, schema, ci, notes)
    if cr is not None and cr != want:
        raise AssertionError("reference does not round-trip its own value: %r vs %r" % (cr, want))
    chk.count("dir_b_ref_to_bp")
    if collect is not None:
        collect.append(("ref_bytes", ref_bytes, ci, want))
    # (c) alternative legal encodings of the reference bytes
    for kind in kinds:
        try:
            alt = RE.rewrite(ref_bytes, schema[ci], schema, rng, kind)
        except ValueError:
            chk.count("alt_rewrite_failed_" + kind)
            continue
        if alt == ref_bytes:
            chk.count("alt_not_applicable_" + kind)
            continue
        chk.count("alt_" + kind)
        cr, _ = decode_both(chk, inp, "alt:" + kind, alt, bp_cls, ref_cls, schema, ci, notes)
        if cr is not None and cr != want:
            # the reference itself reads the alternative differently: the re-encoder changed
            # the meaning (a harness problem, or a case outside the property) — recorded
            chk.count("reencoder_changed_reference_meaning_" + kind)
            chk.extra.setdefault("reencoder_changed", []).append({"kind": kind, "orig": ref_bytes.hex(), "alt": alt.hex()})
        if collect is not None and cr is not None:
            collect.append(("alt:" + kind, alt, ci, cr))
    if notes.get("negzero"):
        chk.count("note_D25_negative_zero_values", notes["negzero"])
    for w, d, e in notes.get("ref_rejects", []):
        chk.extra.setdefault("reference_rejected", []).append({"what": w, "data": d, "err": e})


# ---------------------------------------------------------------- Lean spec decoder through `lean --run`

class SpecDriver:
    """`SPECPARSE` / `SPECDEC` answers: from bpdriver when `handleSpec` is dispatched there,
    otherwise from lean/Driver/SpecMain.lean run by the Lean interpreter (one batch)."""

    def __init__(self, drv):
        self.drv = drv
        self.native = bool(drv) and drv.ask1("SPECPARSE 0801") != "bad-op"

    def ask(self, lines):
        if not lines:
            return []
        if self.native:
            return self.drv.ask(lines)
        ok, log = C.lake_build(["Driver.SpecMain"])
        if not ok:
            raise RuntimeError("Driver.SpecMain does not build: " + log[-800:])
        p = subprocess.run(["lake", "env", "lean", "--run", "Driver/SpecMain.lean"], cwd=C.LEAN, input="\n".join(lines) + "\n",
                           stdout=subprocess.PIPE, stderr=subprocess.STDOUT, text=True, timeout=600)
        out = p.stdout.split("\n")
        if out and out[-1] == "":
            out.pop()
        if len(out) != len(lines):
            raise RuntimeError("SpecMain answered %d lines for %d requests: %s" % (len(out), len(lines), p.stdout[-500:]))
        return out


# ---------------------------------------------------------------- run

def one_batch(chk, drv, b, spec_lines, spec_wants, nspec):
    if drv:
        assert drv.ask1(b.schema_line()) == "ok"
    first_spec = True
    for v in b.values:
        ci = v[1]
        inp = {"schema": b.describe(), "value": bpgen.term(v)}
        collected = []
        oracle(chk, inp, v, b.classes, b.refs, b.schema, chk.rng, collect=collected)
        chk.case(b.schema_line() + "|" + bpgen.term(v), not W.is_trivial(v),
                 {"value": bpgen.term(v), "encodings": len(collected)})
        # (d) the model decodes every byte string like the real decoder
        if drv and collected:
            lines = ["PARSE %s %d %s" % (b.sid, c, W.hexs(data)) for _, data, c, _ in collected]
            for (what, data, c, _), rp in zip(collected, drv.ask(lines)):
                try:
                    m3 = b.classes[c]().parse(data)
                    want = bpgen.obs_msg(m3, b.schema, c) + " | " + W.hexs(bytes(m3))
                except Exception as e:
                    want = "ERR"
                    if not rp.startswith("ERR"):
                        chk.disagree("parse:" + what, {"schema": b.schema_line(), "bytes": data.hex(), "cls": c}, rp, "raises %r" % e)
                    continue
                chk.count("model_parse_compared")
                if rp != want:
                    chk.disagree("parse:" + what, {"schema": b.schema_line(), "bytes": data.hex(), "cls": c}, rp, want)
        # (e) the Lean spec decoder against the reference (a sample: the interpreter is slow)
        for what, data, c, want in collected:
            if what == "bp_bytes" or len(spec_lines) >= nspec:
                continue
            if first_spec:
                spec_lines.append(b.schema_line())
                spec_wants.append(None)
                first_spec = False
            spec_lines.append("SPECDEC %s %d %s" % (b.sid, c, W.hexs(data)))
            spec_wants.append((what, data, c, want, b.schema))


def run(chk, drv):
    quick = chk.tier == "quick"
    chk.extra["rule"] = (
        "random well-formed schemas over all field kinds (enums with negative and unlisted numbers, nested / recursive messages, repeated "
        "and packed scalars, maps, oneofs, proto3 optional, wrappers, Timestamp / Duration) x boundary-biased values; for each value: "
        "betterproto bytes -> reference, reference bytes -> betterproto, and for each of the re-encoder's rewrites of the reference bytes "
        "(permute, unpack, chunks, mix, pad, dup_scalar, dup_default, dup_oneof, unknown, all) both decoders on the same alternative bytes; "
        "field values, HasField and WhichOneof compared. Non-trivial = at least one constructor argument; distinct by (schema, value); "
        "alt_<kind> counts the alternative encodings that differ from the reference bytes")
    chk.extra["trusted_base"] = ["google.protobuf 7.36.1 (upb) as the reference decoder/encoder (the oracle of the differential part)",
                                 "harness/reencode.py: that its rewrites are legal re-encodings (cross-checked on every case: the reference must read the alternative like the original)"]
    chk.extra["partial"] = (
        "proved: the model of the decoder is insensitive to every re-encoding the property lists (order, packing, chunking, padding, "
        "duplication with last-wins, unknown fields). NOT proved: that google.protobuf equals the Lean spec decoder (sampled differential), "
        "dump_sound (encoder vs Spec.decode) and load_complete (model decoder = Spec.decode); padding inside nested messages is proved level by level. "
        "Not claimed (Legal): a second record for a singular message field (reference merges, betterproto replaces)")
    nb = 170 if quick else 1300
    nspec = 4000 if quick else 30000
    spec_lines, spec_wants = [], []
    for bi in range(nb):
        b = W.Batch(chk.rng, "w%d" % bi, 8, with_ref=True)
        W.count_features(chk, b)
        one_batch(chk, drv, b, spec_lines, spec_wants, nspec)
    # ---- (e) validate the Lean spec decoder against the reference
    try:
        sd = SpecDriver(drv)
        replies = sd.ask(spec_lines)
        chk.extra["spec_driver"] = "bpdriver" if sd.native else "lean --run Driver/SpecMain.lean"
    except Exception as e:
        chk.notes.append("spec decoder not run: %r" % e)
        replies = []
    for rp, w in zip(replies, spec_wants):
        if w is None:
            continue
        what, data, c, want, schema = w
        chk.count("spec_decode_compared")
        if rp == "NONE":
            chk.disagree("spec-decode-rejects:" + what, {"bytes": data.hex(), "cls": c}, rp, repr(want))
            continue
        try:
            got = canon_spec(parse_shown(rp.split())[0], schema, c)
        except Exception as e:
            got = "unparseable %r: %s" % (e, rp[:200])
        if got != want:
            chk.disagree("spec-decode-vs-reference:" + what, {"schema": [[f.line() for f in m.fields] for m in schema], "bytes": data.hex(), "cls": c}, repr(got), repr(want))
    changed = sum(v for k, v in chk.dist.items() if k.startswith("reencoder_changed_reference_meaning_"))
    if changed:
        chk.notes.append("%d alternative encodings were read differently from the original by the REFERENCE itself (see evidence: reencoder_changed)" % changed)


# ---------------------------------------------------------------- known / fixed findings, replay, search

WITNESSES = {
    # D11: a packed chunk must extend, not replace, a repeated field: 1,2 unpacked + packed [3,4] + 5
    "packed-chunk-replaces": (["F 1 int32 1 0 - - u0 int32 int32 u0 r"], "08010802" "0a020304" "0805"),
    # D10: negative enum number, sign-extended 10-byte varint
    "negative-enum": (["F 4 enum 0 0 - - u0 int32 int32 u0 e"], "20fbffffffffffffffff01"),
    # D21: ten-byte varint with bits above 2**64 in a uint64 field
    "varint70": (["F 1 uint64 0 0 - - u0 int32 int32 u0 u"], "08ffffffffffffffffff7f"),
}


def witness_fails(kind):
    desc, hx = WITNESSES[kind]
    schema = schema_from_desc([desc])
    bps, refs = bpgen.build_bp(schema), bpgen.build_ref(schema)
    data = bytes.fromhex(hx)
    cr = canon_ref(refs[0].FromString(data), schema, 0)
    try:
        cb = canon_bp(bps[0]().parse(data), schema, 0)
    except Exception:
        return True
    return cb != cr


def duration_fails(us):
    schema = [bpgen.M("M0", [bpgen.F("d", 1, "message", kind="dur", optional=True)])]
    bps, refs = bpgen.build_bp(schema), bpgen.build_ref(schema)
    v = ("c", 0, {0: ("d", us)})
    want = canon_ref(to_ref(v, refs, schema), schema, 0)
    try:
        got = canon_ref(refs[0].FromString(bytes(bpgen.to_py(v, bps))), schema, 0)
    except Exception:
        return True
    return got != want


def replay_known(chk, entry):
    w = entry.get("witness") or {}
    if w.get("kind") in WITNESSES:
        return witness_fails(w["kind"])
    if w.get("kind") == "duration-us":
        return duration_fails(w["us"])
    return False


def classify(failure, known):
    return None


def search(chk):
    rng = chk.rng
    for bi in range(900):
        b = W.Batch(rng, "x%d" % bi, 8, with_ref=True)
        for v in b.values:
            oracle(chk, {"schema": b.describe(), "value": bpgen.term(v)}, v, b.classes, b.refs, b.schema, rng)
        if chk.oracle_failures:
            return


def replay(chk, rp):
    fl = rp.get("failure") or {}
    inp = fl.get("input") or {}
    if "schema" not in inp or "value" not in inp:
        return True
    schema = schema_from_desc(inp["schema"])
    bps, refs = bpgen.build_bp(schema), bpgen.build_ref(schema)
    v = parse_term(inp["value"].split())[0]
    ci = v[1]
    c = type(chk)(chk.pid, "quick", 0)
    if "data" in inp and inp.get("what"):
        # the recorded byte string, decoded by both
        decode_both(c, inp, inp["what"], bytes.fromhex(inp["data"]), bps[ci], refs[ci], schema, ci, {})
    else:
        oracle(c, inp, v, bps, refs, schema, c.rng)
    return bool(c.oracle_failures)
